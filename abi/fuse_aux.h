/* Auxiliary oracle for items that are newer than the vendored linux/fuse.h (7.38), taken from
 * upstream include/uapi/linux/fuse.h 7.40, or that are protocol facts stated in libfuse's
 * fuse_lowlevel.c rather than as macros.  Hand-maintained; every line has its source. */
#ifndef FBR_FUSE_AUX_H
#define FBR_FUSE_AUX_H

/* 7.40: #define FUSE_HAS_RESEND (1ULL << 39) */
#ifndef FUSE_HAS_RESEND
#define FUSE_HAS_RESEND (1ULL << 39)
#endif
/* 7.40: enum fuse_notify_code { ..., FUSE_NOTIFY_RESEND = 7, FUSE_NOTIFY_CODE_MAX } */
#define AUX_FUSE_NOTIFY_RESEND 7
#define AUX_FUSE_NOTIFY_CODE_MAX 8

/* libfuse fuse_lowlevel.c do_init(): minor < 5 -> FUSE_COMPAT_INIT_OUT_SIZE, minor < 23 ->
 * FUSE_COMPAT_22_INIT_OUT_SIZE */
#define AUX_INIT_OUT_COMPAT_MINOR 5
#define AUX_INIT_22_OUT_COMPAT_MINOR 23
/* libfuse fuse_reply_entry(): "before ABI 7.4 e->ino == 0 was invalid" */
#define AUX_LOOKUP_NEGATIVE_ENTRY_ZERO_MINOR 4

/* every INIT flag bit upstream has assigned up to 7.40 lies below bit 41 */
#define AUX_UPSTREAM_INIT_FLAG_BITS ((1ULL << 41) - 1)
#endif
