/* SPDX-License-Identifier: ((GPL-2.0 WITH Linux-syscall-note) OR BSD-2-Clause) */
/*
    This file defines the kernel interface of FUSE
    Copyright (C) 2001-2008  Miklos Szeredi <miklos@szeredi.hu>

    This program can be distributed under the terms of the GNU GPL.
    See the file COPYING.

    This -- and only this -- header file may also be distributed under
    the terms of the BSD Licence as follows:

    Copyright (C) 2001-2007 Miklos Szeredi. All rights reserved.

    Redistribution and use in source and binary forms, with or without
    modification, are permitted provided that the following conditions
    are met:
    1. Redistributions of source code must retain the above copyright
       notice, this list of conditions and the following disclaimer.
    2. Redistributions in binary form must reproduce the above copyright
       notice, this list of conditions and the following disclaimer in the
       documentation and/or other materials provided with the distribution.

    THIS SOFTWARE IS PROVIDED BY AUTHOR AND CONTRIBUTORS ``AS IS'' AND
    ANY EXPRESS OR IMPLIED WARRANTIES, INCLUDING, BUT NOT LIMITED TO, THE
    IMPLIED WARRANTIES OF MERCHANTABILITY AND FITNESS FOR A PARTICULAR PURPOSE
    ARE DISCLAIMED.  IN NO EVENT SHALL AUTHOR OR CONTRIBUTORS BE LIABLE
    FOR ANY DIRECT, INDIRECT, INCIDENTAL, SPECIAL, EXEMPLARY, OR CONSEQUENTIAL
    DAMAGES (INCLUDING, BUT NOT LIMITED TO, PROCUREMENT OF SUBSTITUTE GOODS
    OR SERVICES; LOSS OF USE, DATA, OR PROFITS; OR BUSINESS INTERRUPTION)
    HOWEVER CAUSED AND ON ANY THEORY OF LIABILITY, WHETHER IN CONTRACT, STRICT
    LIABILITY, OR TORT (INCLUDING NEGLIGENCE OR OTHERWISE) ARISING IN ANY WAY
    OUT OF THE USE OF THIS SOFTWARE, EVEN IF ADVISED OF THE POSSIBILITY OF
    SUCH DAMAGE.
*/

/*
 * This file defines the kernel interface of FUSE
 *
 * Protocol changelog:
 *
 * 7.1:
 *  - add the following messages:
 *      FUSE_SETATTR, FUSE_SYMLINK, FUSE_MKNOD, FUSE_MKDIR, FUSE_UNLINK,
 *      FUSE_RMDIR, FUSE_RENAME, FUSE_LINK, FUSE_OPEN, FUSE_READ, FUSE_WRITE,
 *      FUSE_RELEASE, FUSE_FSYNC, FUSE_FLUSH, FUSE_SETXATTR, FUSE_GETXATTR,
 *      FUSE_LISTXATTR, FUSE_REMOVEXATTR, FUSE_OPENDIR, FUSE_READDIR,
 *      FUSE_RELEASEDIR
 *  - add padding to messages to accommodate 32-bit servers on 64-bit kernels
 *
 * 7.2:
 *  - add FOPEN_DIRECT_IO and FOPEN_KEEP_CACHE flags
 *  - add FUSE_FSYNCDIR message
 *
 * 7.3:
 *  - add FUSE_ACCESS message
 *  - add FUSE_CREATE message
 *  - add filehandle to fuse_setattr_in
 *
 * 7.4:
 *  - add frsize to fuse_kstatfs
 *  - clean up request size limit checking
 *
 * 7.5:
 *  - add flags and max_write to fuse_init_out
 *
 * 7.6:
 *  - add max_readahead to fuse_init_in and fuse_init_out
 *
 * 7.7:
 *  - add FUSE_INTERRUPT message
 *  - add POSIX file lock support
 *
 * 7.8:
 *  - add lock_owner and flags fields to fuse_release_in
 *  - add FUSE_BMAP message
 *  - add FUSE_DESTROY message
 *
 * 7.9:
 *  - new fuse_getattr_in input argument of GETATTR
 *  - add lk_flags in fuse_lk_in
 *  - add lock_owner field to fuse_setattr_in, fuse_read_in and fuse_write_in
 *  - add blksize field to fuse_attr
 *  - add file flags field to fuse_read_in and fuse_write_in
 *  - Add ATIME_NOW and MTIME_NOW flags to fuse_setattr_in
 *
 * 7.10
 *  - add nonseekable open flag
 *
 * 7.11
 *  - add IOCTL message
 *  - add unsolicited notification support
 *  - add POLL message and NOTIFY_POLL notification
 *
 * 7.12
 *  - add umask flag to input argument of create, mknod and mkdir
 *  - add notification messages for invalidation of inodes and
 *    directory entries
 *
 * 7.13
 *  - make max number of background requests and congestion threshold
 *    tunables
 *
 * 7.14
 *  - add splice support to fuse device
 *
 * 7.15
 *  - add store notify
 *  - add retrieve notify
 *
 * 7.16
 *  - add BATCH_FORGET request
 *  - FUSE_IOCTL_UNRESTRICTED shall now return with array of 'struct
 *    fuse_ioctl_iovec' instead of ambiguous 'struct iovec'
 *  - add FUSE_IOCTL_32BIT flag
 *
 * 7.17
 *  - add FUSE_FLOCK_LOCKS and FUSE_RELEASE_FLOCK_UNLOCK
 *
 * 7.18
 *  - add FUSE_IOCTL_DIR flag
 *  - add FUSE_NOTIFY_DELETE
 *
 * 7.19
 *  - add FUSE_FALLOCATE
 *
 * 7.20
 *  - add FUSE_AUTO_INVAL_DATA
 *
 * 7.21
 *  - add FUSE_READDIRPLUS
 *  - send the requested events in POLL request
 *
 * 7.22
 *  - add FUSE_ASYNC_DIO
 *
 * 7.23
 *  - add FUSE_WRITEBACK_CACHE
 *  - add time_gran to fuse_init_out
 *  - add reserved space to fuse_init_out
 *  - add FATTR_CTIME
 *  - add ctime and ctimensec to fuse_setattr_in
 *  - add FUSE_RENAME2 request
 *  - add FUSE_NO_OPEN_SUPPORT flag
 *
 *  7.24
 *  - add FUSE_LSEEK for SEEK_HOLE and SEEK_DATA support
 *
 *  7.25
 *  - add FUSE_PARALLEL_DIROPS
 *
 *  7.26
 *  - add FUSE_HANDLE_KILLPRIV
 *  - add FUSE_POSIX_ACL
 *
 *  7.27
 *  - add FUSE_ABORT_ERROR
 *
 *  7.28
 *  - add FUSE_COPY_FILE_RANGE
 *  - add FOPEN_CACHE_DIR
 *  - add FUSE_MAX_PAGES, add max_pages to init_out
 *  - add FUSE_CACHE_SYMLINKS
 *
 *  7.29
 *  - add FUSE_NO_OPENDIR_SUPPORT flag
 *
 *  7.30
 *  - add FUSE_EXPLICIT_INVAL_DATA
 *  - add FUSE_IOCTL_COMPAT_X32
 *
 *  7.31
 *  - add FUSE_WRITE_KILL_PRIV flag
 *  - add FUSE_SETUPMAPPING and FUSE_REMOVEMAPPING
 *  - add map_alignment to fuse_init_out, add FUSE_MAP_ALIGNMENT flag
 *
 *  7.32
 *  - add flags to fuse_attr, add FUSE_ATTR_SUBMOUNT, add FUSE_SUBMOUNTS
 *
 *  7.33
 *  - add FUSE_HANDLE_KILLPRIV_V2, FUSE_WRITE_KILL_SUIDGID, FATTR_KILL_SUIDGID
 *  - add FUSE_OPEN_KILL_SUIDGID
 *  - extend fuse_setxattr_in, add FUSE_SETXATTR_EXT
 *  - add FUSE_SETXATTR_ACL_KILL_SGID
 *
 *  7.34
 *  - add FUSE_SYNCFS
 *
 *  7.35
 *  - add FOPEN_NOFLUSH
 *
 *  7.36
 *  - extend fuse_init_in with reserved fields, add FUSE_INIT_EXT init flag
 *  - add flags2 to fuse_init_in and fuse_init_out
 *  - add FUSE_SECURITY_CTX init flag
 *  - add security context to create, mkdir, symlink, and mknod requests
 *  - add FUSE_HAS_INODE_DAX, FUSE_ATTR_DAX
 *
 *  7.37
 *  - add FUSE_TMPFILE
 *
 *  7.38
 *  - add FUSE_EXPIRE_ONLY flag to fuse_notify_inval_entry
 *  - add FOPEN_PARALLEL_DIRECT_WRITES
 *  - add total_extlen to fuse_in_header
 *  - add FUSE_MAX_NR_SECCTX
 *  - add extension header
 */

#ifndef _LINUX_FUSE_H
#define _LINUX_FUSE_H

#include <stdint.h>

/*
 * Version negotiation:
 *
 * Both the kernel and userspace send the version they support in the
 * INIT request and reply respectively.
 *
 * If the major versions match then both shall use the smallest
 * of the two minor versions for communication.
 *
 * If the kernel supports a larger major version, then userspace shall
 * reply with the major version it supports, ignore the rest of the
 * INIT message and expect a new INIT message from the kernel with a
 * matching major version.
 *
 * If the library supports a larger major version, then it shall fall
 * back to the major protocol version sent by the kernel for
 * communication and reply with that major version (and an arbitrary
 * supported minor version).
 */

/** Version number of this interface */
#define FUSE_KERNEL_VERSION 7

/** Minor version number of this interface */
#define FUSE_KERNEL_MINOR_VERSION 38

/** The node ID of the root inode */
#define FUSE_ROOT_ID 1

/* Make sure all structures are padded to 64bit boundary, so 32bit
   userspace works under 64bit kernels */

struct fuse_attr {
	uint64_t	ino;
	uint64_t	size;
	uint64_t	blocks;
	uint64_t	atime;
	uint64_t	mtime;
	uint64_t	ctime;
	uint32_t	atimensec;
	uint32_t	mtimensec;
	uint32_t	ctimensec;
	uint32_t	mode;
	uint32_t	nlink;
	uint32_t	uid;
	uint32_t	gid;
	uint32_t	rdev;
	uint32_t	blksize;
	uint32_t	flags;
};

struct fuse_kstatfs {
	uint64_t	blocks;
	uint64_t	bfree;
	uint64_t	bavail;
	uint64_t	files;
	uint64_t	ffree;
	uint32_t	bsize;
	uint32_t	namelen;
	uint32_t	frsize;
	uint32_t	padding;
	uint32_t	spare[6];
};

struct fuse_file_lock {
	uint64_t	start;
	uint64_t	end;
	uint32_t	type;
	uint32_t	pid; /* tgid */
};

/**
 * Bitmasks for fuse_setattr_in.valid
 */
#define FATTR_MODE	(1 << 0)
#define FATTR_UID	(1 << 1)
#define FATTR_GID	(1 << 2)
#define FATTR_SIZE	(1 << 3)
#define FATTR_ATIME	(1 << 4)
#define FATTR_MTIME	(1 << 5)
#define FATTR_FH	(1 << 6)
#define FATTR_ATIME_NOW	(1 << 7)
#define FATTR_MTIME_NOW	(1 << 8)
#define FATTR_LOCKOWNER	(1 << 9)
#define FATTR_CTIME	(1 << 10)
#define FATTR_KILL_SUIDGID	(1 << 11)

/**
 * Flags returned by the OPEN request
 *
 * FOPEN_DIRECT_IO: bypass page cache for this open file
 * FOPEN_KEEP_CACHE: don't invalidate the data cache on open
 * FOPEN_NONSEEKABLE: the file is not seekable
 * FOPEN_CACHE_DIR: allow caching this directory
 * FOPEN_STREAM: the file is stream-like (no file position at all)
 * FOPEN_NOFLUSH: don't flush data cache on close (unless FUSE_WRITEBACK_CACHE)
 * FOPEN_PARALLEL_DIRECT_WRITES: Allow concurrent direct writes on the same inode
 */
#define FOPEN_DIRECT_IO		(1 << 0)
#define FOPEN_KEEP_CACHE	(1 << 1)
#define FOPEN_NONSEEKABLE	(1 << 2)
#define FOPEN_CACHE_DIR		(1 << 3)
#define FOPEN_STREAM		(1 << 4)
#define FOPEN_NOFLUSH		(1 << 5)
#define FOPEN_PARALLEL_DIRECT_WRITES	(1 << 6)

/**
 * INIT request/reply flags
 *
 * FUSE_ASYNC_READ: asynchronous read requests
 * FUSE_POSIX_LOCKS: remote locking for POSIX file locks
 * FUSE_FILE_OPS: kernel sends file handle for fstat, etc... (not yet supported)
 * FUSE_ATOMIC_O_TRUNC: handles the O_TRUNC open flag in the filesystem
 * FUSE_EXPORT_SUPPORT: filesystem handles lookups of "." and ".."
 * FUSE_BIG_WRITES: filesystem can handle write size larger than 4kB
 * FUSE_DONT_MASK: don't apply umask to file mode on create operations
 * FUSE_SPLICE_WRITE: kernel supports splice write on the device
 * FUSE_SPLICE_MOVE: kernel supports splice move on the device
 * FUSE_SPLICE_READ: kernel supports splice read on the device
 * FUSE_FLOCK_LOCKS: remote locking for BSD style file locks
 * FUSE_HAS_IOCTL_DIR: kernel supports ioctl on directories
 * FUSE_AUTO_INVAL_DATA: automatically invalidate cached pages
 * FUSE_DO_READDIRPLUS: do READDIRPLUS (READDIR+LOOKUP in one)
 * FUSE_READDIRPLUS_AUTO: adaptive readdirplus
 * FUSE_ASYNC_DIO: asynchronous direct I/O submission
 * FUSE_WRITEBACK_CACHE: use writeback cache for buffered writes
 * FUSE_NO_OPEN_SUPPORT: kernel supports zero-message opens
 * FUSE_PARALLEL_DIROPS: allow parallel lookups and readdir
 * FUSE_HANDLE_KILLPRIV: fs handles killing suid/sgid/cap on write/chown/trunc
 * FUSE_POSIX_ACL: filesystem supports posix acls
 * FUSE_ABORT_ERROR: reading the device after abort returns ECONNABORTED
 * FUSE_MAX_PAGES: init_out.max_pages contains the max number of req pages
 * FUSE_CACHE_SYMLINKS: cache READLINK responses
 * FUSE_NO_OPENDIR_SUPPORT: kernel supports zero-message opendir
 * FUSE_EXPLICIT_INVAL_DATA: only invalidate cached pages on explicit request
 * FUSE_MAP_ALIGNMENT: init_out.map_alignment contains log2(byte alignment) for
 *		       foffset and moffset fields in struct
 *		       fuse_setupmapping_out and fuse_removemapping_one.
 * FUSE_SUBMOUNTS: kernel supports auto-mounting directory submounts
 * FUSE_HANDLE_KILLPRIV_V2: fs kills suid/sgid/cap on write/chown/trunc.
 *			Upon write/truncate suid/sgid is only killed if caller
 *			does not have CAP_FSETID. Additionally upon
 *			write/truncate sgid is killed only if file has group
 *			execute permission. (Same as Linux VFS behavior).
 * FUSE_SETXATTR_EXT:	Server supports extended struct fuse_setxattr_in
 * FUSE_INIT_EXT: extended fuse_init_in request
 * FUSE_INIT_RESERVED: reserved, do not use
 * FUSE_SECURITY_CTX:	add security context to create, mkdir, symlink, and
 *			mknod
 * FUSE_HAS_INODE_DAX:  use per inode DAX
 * FUSE_HAS_EXPIRE_ONLY: kernel supports expiry-only entry invalidation
 */
#define FUSE_ASYNC_READ		(1 << 0)
#define FUSE_POSIX_LOCKS	(1 << 1)
#define FUSE_FILE_OPS		(1 << 2)
#define FUSE_ATOMIC_O_TRUNC	(1 << 3)
#define FUSE_EXPORT_SUPPORT	(1 << 4)
#define FUSE_BIG_WRITES		(1 << 5)
#define FUSE_DONT_MASK		(1 << 6)
#define FUSE_SPLICE_WRITE	(1 << 7)
#define FUSE_SPLICE_MOVE	(1 << 8)
#define FUSE_SPLICE_READ	(1 << 9)
#define FUSE_FLOCK_LOCKS	(1 << 10)
#define FUSE_HAS_IOCTL_DIR	(1 << 11)
#define FUSE_AUTO_INVAL_DATA	(1 << 12)
#define FUSE_DO_READDIRPLUS	(1 << 13)
#define FUSE_READDIRPLUS_AUTO	(1 << 14)
#define FUSE_ASYNC_DIO		(1 << 15)
#define FUSE_WRITEBACK_CACHE	(1 << 16)
#define FUSE_NO_OPEN_SUPPORT	(1 << 17)
#define FUSE_PARALLEL_DIROPS    (1 << 18)
#define FUSE_HANDLE_KILLPRIV	(1 << 19)
#define FUSE_POSIX_ACL		(1 << 20)
#define FUSE_ABORT_ERROR	(1 << 21)
#define FUSE_MAX_PAGES		(1 << 22)
#define FUSE_CACHE_SYMLINKS	(1 << 23)
#define FUSE_NO_OPENDIR_SUPPORT (1 << 24)
#define FUSE_EXPLICIT_INVAL_DATA (1 << 25)
#define FUSE_MAP_ALIGNMENT	(1 << 26)
#define FUSE_SUBMOUNTS		(1 << 27)
#define FUSE_HANDLE_KILLPRIV_V2	(1 << 28)
#define FUSE_SETXATTR_EXT	(1 << 29)
#define FUSE_INIT_EXT		(1 << 30)
#define FUSE_INIT_RESERVED	(1 << 31)
/* bits 32..63 get shifted down 32 bits into the flags2 field */
#define FUSE_SECURITY_CTX	(1ULL << 32)
#define FUSE_HAS_INODE_DAX	(1ULL << 33)
#define FUSE_HAS_EXPIRE_ONLY	(1ULL << 35)

/**
 * CUSE INIT request/reply flags
 *
 * CUSE_UNRESTRICTED_IOCTL:  use unrestricted ioctl
 */
#define CUSE_UNRESTRICTED_IOCTL	(1 << 0)

/**
 * Release flags
 */
#define FUSE_RELEASE_FLUSH	(1 << 0)
#define FUSE_RELEASE_FLOCK_UNLOCK	(1 << 1)

/**
 * Getattr flags
 */
#define FUSE_GETATTR_FH		(1 << 0)

/**
 * Lock flags
 */
#define FUSE_LK_FLOCK		(1 << 0)

/**
 * WRITE flags
 *
 * FUSE_WRITE_CACHE: delayed write from page cache, file handle is guessed
 * FUSE_WRITE_LOCKOWNER: lock_owner field is valid
 * FUSE_WRITE_KILL_SUIDGID: kill suid and sgid bits
 */
#define FUSE_WRITE_CACHE	(1 << 0)
#define FUSE_WRITE_LOCKOWNER	(1 << 1)
#define FUSE_WRITE_KILL_SUIDGID (1 << 2)

/* Obsolete alias; this flag implies killing suid/sgid only. */
#define FUSE_WRITE_KILL_PRIV	FUSE_WRITE_KILL_SUIDGID

/**
 * Read flags
 */
#define FUSE_READ_LOCKOWNER	(1 << 1)

/**
 * Ioctl flags
 *
 * FUSE_IOCTL_COMPAT: 32bit compat ioctl on 64bit machine
 * FUSE_IOCTL_UNRESTRICTED: not restricted to well-formed ioctls, retry allowed
 * FUSE_IOCTL_RETRY: retry with new iovecs
 * FUSE_IOCTL_32BIT: 32bit ioctl
 * FUSE_IOCTL_DIR: is a directory
 * FUSE_IOCTL_COMPAT_X32: x32 compat ioctl on 64bit machine (64bit time_t)
 *
 * FUSE_IOCTL_MAX_IOV: maximum of in_iovecs + out_iovecs
 */
#define FUSE_IOCTL_COMPAT	(1 << 0)
#define FUSE_IOCTL_UNRESTRICTED	(1 << 1)
#define FUSE_IOCTL_RETRY	(1 << 2)
#define FUSE_IOCTL_32BIT	(1 << 3)
#define FUSE_IOCTL_DIR		(1 << 4)
#define FUSE_IOCTL_COMPAT_X32	(1 << 5)

#define FUSE_IOCTL_MAX_IOV	256

/**
 * Poll flags
 *
 * FUSE_POLL_SCHEDULE_NOTIFY: request poll notify
 */
#define FUSE_POLL_SCHEDULE_NOTIFY (1 << 0)

/**
 * Fsync flags
 *
 * FUSE_FSYNC_FDATASYNC: Sync data only, not metadata
 */
#define FUSE_FSYNC_FDATASYNC	(1 << 0)

/**
 * fuse_attr flags
 *
 * FUSE_ATTR_SUBMOUNT: Object is a submount root
 * FUSE_ATTR_DAX: Enable DAX for this file in per inode DAX mode
 */
#define FUSE_ATTR_SUBMOUNT      (1 << 0)
#define FUSE_ATTR_DAX		(1 << 1)

/**
 * Open flags
 * FUSE_OPEN_KILL_SUIDGID: Kill suid and sgid if executable
 */
#define FUSE_OPEN_KILL_SUIDGID	(1 << 0)

/**
 * setxattr flags
 * FUSE_SETXATTR_ACL_KILL_SGID: Clear SGID when system.posix_acl_access is set
 */
#define FUSE_SETXATTR_ACL_KILL_SGID	(1 << 0)

/**
 * notify_inval_entry flags
 * FUSE_EXPIRE_ONLY
 */
#define FUSE_EXPIRE_ONLY		(1 << 0)

/**
 * extension type
 * FUSE_MAX_NR_SECCTX: maximum value of &fuse_secctx_header.nr_secctx
 */
enum fuse_ext_type {
	/* Types 0..31 are reserved for fuse_secctx_header */
	FUSE_MAX_NR_SECCTX	= 31,
};

enum fuse_opcode {
	FUSE_LOOKUP		= 1,
	FUSE_FORGET		= 2,  /* no reply */
	FUSE_GETATTR		= 3,
	FUSE_SETATTR		= 4,
	FUSE_READLINK		= 5,
	FUSE_SYMLINK		= 6,
	FUSE_MKNOD		= 8,
	FUSE_MKDIR		= 9,
	FUSE_UNLINK		= 10,
	FUSE_RMDIR		= 11,
	FUSE_RENAME		= 12,
	FUSE_LINK		= 13,
	FUSE_OPEN		= 14,
	FUSE_READ		= 15,
	FUSE_WRITE		= 16,
	FUSE_STATFS		= 17,
	FUSE_RELEASE		= 18,
	FUSE_FSYNC		= 20,
	FUSE_SETXATTR		= 21,
	FUSE_GETXATTR		= 22,
	FUSE_LISTXATTR		= 23,
	FUSE_REMOVEXATTR	= 24,
	FUSE_FLUSH		= 25,
	FUSE_INIT		= 26,
	FUSE_OPENDIR		= 27,
	FUSE_READDIR		= 28,
	FUSE_RELEASEDIR		= 29,
	FUSE_FSYNCDIR		= 30,
	FUSE_GETLK		= 31,
	FUSE_SETLK		= 32,
	FUSE_SETLKW		= 33,
	FUSE_ACCESS		= 34,
	FUSE_CREATE		= 35,
	FUSE_INTERRUPT		= 36,
	FUSE_BMAP		= 37,
	FUSE_DESTROY		= 38,
	FUSE_IOCTL		= 39,
	FUSE_POLL		= 40,
	FUSE_NOTIFY_REPLY	= 41,
	FUSE_BATCH_FORGET	= 42,
	FUSE_FALLOCATE		= 43,
	FUSE_READDIRPLUS	= 44,
	FUSE_RENAME2		= 45,
	FUSE_LSEEK		= 46,
	FUSE_COPY_FILE_RANGE	= 47,
	FUSE_SETUPMAPPING	= 48,
	FUSE_REMOVEMAPPING	= 49,
	FUSE_SYNCFS		= 50,
	FUSE_TMPFILE		= 51,

	/* CUSE specific operations */
	CUSE_INIT		= 4096,

	/* Reserved opcodes: helpful to detect structure endian-ness */
	CUSE_INIT_BSWAP_RESERVED	= 1048576,	/* CUSE_INIT << 8 */
	FUSE_INIT_BSWAP_RESERVED	= 436207616,	/* FUSE_INIT << 24 */
};

enum fuse_notify_code {
	FUSE_NOTIFY_POLL   = 1,
	FUSE_NOTIFY_INVAL_INODE = 2,
	FUSE_NOTIFY_INVAL_ENTRY = 3,
	FUSE_NOTIFY_STORE = 4,
	FUSE_NOTIFY_RETRIEVE = 5,
	FUSE_NOTIFY_DELETE = 6,
	FUSE_NOTIFY_CODE_MAX,
};

/* The read buffer is required to be at least 8k, but may be much larger */
#define FUSE_MIN_READ_BUFFER 8192

#define FUSE_COMPAT_ENTRY_OUT_SIZE 120

struct fuse_entry_out {
	uint64_t	nodeid;		/* Inode ID */
	uint64_t	generation;	/* Inode generation: nodeid:gen must
					   be unique for the fs's lifetime */
	uint64_t	entry_valid;	/* Cache timeout for the name */
	uint64_t	attr_valid;	/* Cache timeout for the attributes */
	uint32_t	entry_valid_nsec;
	uint32_t	attr_valid_nsec;
	struct fuse_attr attr;
};

struct fuse_forget_in {
	uint64_t	nlookup;
};

struct fuse_forget_one {
	uint64_t	nodeid;
	uint64_t	nlookup;
};

struct fuse_batch_forget_in {
	uint32_t	count;
	uint32_t	dummy;
};

struct fuse_getattr_in {
	uint32_t	getattr_flags;
	uint32_t	dummy;
	uint64_t	fh;
};

#define FUSE_COMPAT_ATTR_OUT_SIZE 96

struct fuse_attr_out {
	uint64_t	attr_valid;	/* Cache timeout for the attributes */
	uint32_t	attr_valid_nsec;
	uint32_t	dummy;
	struct fuse_attr attr;
};

#define FUSE_COMPAT_MKNOD_IN_SIZE 8

struct fuse_mknod_in {
	uint32_t	mode;
	uint32_t	rdev;
	uint32_t	umask;
	uint32_t	padding;
};

struct fuse_mkdir_in {
	uint32_t	mode;
	uint32_t	umask;
};

struct fuse_rename_in {
	uint64_t	newdir;
};

struct fuse_rename2_in {
	uint64_t	newdir;
	uint32_t	flags;
	uint32_t	padding;
};

struct fuse_link_in {
	uint64_t	oldnodeid;
};

struct fuse_setattr_in {
	uint32_t	valid;
	uint32_t	padding;
	uint64_t	fh;
	uint64_t	size;
	uint64_t	lock_owner;
	uint64_t	atime;
	uint64_t	mtime;
	uint64_t	ctime;
	uint32_t	atimensec;
	uint32_t	mtimensec;
	uint32_t	ctimensec;
	uint32_t	mode;
	uint32_t	unused4;
	uint32_t	uid;
	uint32_t	gid;
	uint32_t	unused5;
};

struct fuse_open_in {
	uint32_t	flags;
	uint32_t	open_flags;	/* FUSE_OPEN_... */
};

struct fuse_create_in {
	uint32_t	flags;
	uint32_t	mode;
	uint32_t	umask;
	uint32_t	open_flags;	/* FUSE_OPEN_... */
};

struct fuse_open_out {
	uint64_t	fh;
	uint32_t	open_flags;
	uint32_t	padding;
};

struct fuse_release_in {
	uint64_t	fh;
	uint32_t	flags;
	uint32_t	release_flags;
	uint64_t	lock_owner;
};

struct fuse_flush_in {
	uint64_t	fh;
	uint32_t	unused;
	uint32_t	padding;
	uint64_t	lock_owner;
};

struct fuse_read_in {
	uint64_t	fh;
	uint64_t	offset;
	uint32_t	size;
	uint32_t	read_flags;
	uint64_t	lock_owner;
	uint32_t	flags;
	uint32_t	padding;
};

#define FUSE_COMPAT_WRITE_IN_SIZE 24

struct fuse_write_in {
	uint64_t	fh;
	uint64_t	offset;
	uint32_t	size;
	uint32_t	write_flags;
	uint64_t	lock_owner;
	uint32_t	flags;
	uint32_t	padding;
};

struct fuse_write_out {
	uint32_t	size;
	uint32_t	padding;
};

#define FUSE_COMPAT_STATFS_SIZE 48

struct fuse_statfs_out {
	struct fuse_kstatfs st;
};

struct fuse_fsync_in {
	uint64_t	fh;
	uint32_t	fsync_flags;
	uint32_t	padding;
};

#define FUSE_COMPAT_SETXATTR_IN_SIZE 8

struct fuse_setxattr_in {
	uint32_t	size;
	uint32_t	flags;
	uint32_t	setxattr_flags;
	uint32_t	padding;
};

struct fuse_getxattr_in {
	uint32_t	size;
	uint32_t	padding;
};

struct fuse_getxattr_out {
	uint32_t	size;
	uint32_t	padding;
};

struct fuse_lk_in {
	uint64_t	fh;
	uint64_t	owner;
	struct fuse_file_lock lk;
	uint32_t	lk_flags;
	uint32_t	padding;
};

struct fuse_lk_out {
	struct fuse_file_lock lk;
};

struct fuse_access_in {
	uint32_t	mask;
	uint32_t	padding;
};

struct fuse_init_in {
	uint32_t	major;
	uint32_t	minor;
	uint32_t	max_readahead;
	uint32_t	flags;
	uint32_t	flags2;
	uint32_t	unused[11];
};

#define FUSE_COMPAT_INIT_OUT_SIZE 8
#define FUSE_COMPAT_22_INIT_OUT_SIZE 24

struct fuse_init_out {
	uint32_t	major;
	uint32_t	minor;
	uint32_t	max_readahead;
	uint32_t	flags;
	uint16_t	max_background;
	uint16_t	congestion_threshold;
	uint32_t	max_write;
	uint32_t	time_gran;
	uint16_t	max_pages;
	uint16_t	map_alignment;
	uint32_t	flags2;
	uint32_t	unused[7];
};

#define CUSE_INIT_INFO_MAX 4096

struct cuse_init_in {
	uint32_t	major;
	uint32_t	minor;
	uint32_t	unused;
	uint32_t	flags;
};

struct cuse_init_out {
	uint32_t	major;
	uint32_t	minor;
	uint32_t	unused;
	uint32_t	flags;
	uint32_t	max_read;
	uint32_t	max_write;
	uint32_t	dev_major;		/* chardev major */
	uint32_t	dev_minor;		/* chardev minor */
	uint32_t	spare[10];
};

struct fuse_interrupt_in {
	uint64_t	unique;
};

struct fuse_bmap_in {
	uint64_t	block;
	uint32_t	blocksize;
	uint32_t	padding;
};

struct fuse_bmap_out {
	uint64_t	block;
};

struct fuse_ioctl_in {
	uint64_t	fh;
	uint32_t	flags;
	uint32_t	cmd;
	uint64_t	arg;
	uint32_t	in_size;
	uint32_t	out_size;
};

struct fuse_ioctl_iovec {
	uint64_t	base;
	uint64_t	len;
};

struct fuse_ioctl_out {
	int32_t		result;
	uint32_t	flags;
	uint32_t	in_iovs;
	uint32_t	out_iovs;
};

struct fuse_poll_in {
	uint64_t	fh;
	uint64_t	kh;
	uint32_t	flags;
	uint32_t	events;
};

struct fuse_poll_out {
	uint32_t	revents;
	uint32_t	padding;
};

struct fuse_notify_poll_wakeup_out {
	uint64_t	kh;
};

struct fuse_fallocate_in {
	uint64_t	fh;
	uint64_t	offset;
	uint64_t	length;
	uint32_t	mode;
	uint32_t	padding;
};

struct fuse_in_header {
	uint32_t	len;
	uint32_t	opcode;
	uint64_t	unique;
	uint64_t	nodeid;
	uint32_t	uid;
	uint32_t	gid;
	uint32_t	pid;
	uint16_t	total_extlen; /* length of extensions in 8byte units */
	uint16_t	padding;
};

struct fuse_out_header {
	uint32_t	len;
	int32_t		error;
	uint64_t	unique;
};

struct fuse_dirent {
	uint64_t	ino;
	uint64_t	off;
	uint32_t	namelen;
	uint32_t	type;
	char name[];
};

/* Align variable length records to 64bit boundary */
#define FUSE_REC_ALIGN(x) \
	(((x) + sizeof(uint64_t) - 1) & ~(sizeof(uint64_t) - 1))

#define FUSE_NAME_OFFSET offsetof(struct fuse_dirent, name)
#define FUSE_DIRENT_ALIGN(x) FUSE_REC_ALIGN(x)
#define FUSE_DIRENT_SIZE(d) \
	FUSE_DIRENT_ALIGN(FUSE_NAME_OFFSET + (d)->namelen)

struct fuse_direntplus {
	struct fuse_entry_out entry_out;
	struct fuse_dirent dirent;
};

#define FUSE_NAME_OFFSET_DIRENTPLUS \
	offsetof(struct fuse_direntplus, dirent.name)
#define FUSE_DIRENTPLUS_SIZE(d) \
	FUSE_DIRENT_ALIGN(FUSE_NAME_OFFSET_DIRENTPLUS + (d)->dirent.namelen)

struct fuse_notify_inval_inode_out {
	uint64_t	ino;
	int64_t		off;
	int64_t		len;
};

struct fuse_notify_inval_entry_out {
	uint64_t	parent;
	uint32_t	namelen;
	uint32_t	flags;
};

struct fuse_notify_delete_out {
	uint64_t	parent;
	uint64_t	child;
	uint32_t	namelen;
	uint32_t	padding;
};

struct fuse_notify_store_out {
	uint64_t	nodeid;
	uint64_t	offset;
	uint32_t	size;
	uint32_t	padding;
};

struct fuse_notify_retrieve_out {
	uint64_t	notify_unique;
	uint64_t	nodeid;
	uint64_t	offset;
	uint32_t	size;
	uint32_t	padding;
};

/* Matches the size of fuse_write_in */
struct fuse_notify_retrieve_in {
	uint64_t	dummy1;
	uint64_t	offset;
	uint32_t	size;
	uint32_t	dummy2;
	uint64_t	dummy3;
	uint64_t	dummy4;
};

/* Device ioctls: */
#define FUSE_DEV_IOC_MAGIC		229
#define FUSE_DEV_IOC_CLONE		_IOR(FUSE_DEV_IOC_MAGIC, 0, uint32_t)

struct fuse_lseek_in {
	uint64_t	fh;
	uint64_t	offset;
	uint32_t	whence;
	uint32_t	padding;
};

struct fuse_lseek_out {
	uint64_t	offset;
};

struct fuse_copy_file_range_in {
	uint64_t	fh_in;
	uint64_t	off_in;
	uint64_t	nodeid_out;
	uint64_t	fh_out;
	uint64_t	off_out;
	uint64_t	len;
	uint64_t	flags;
};

#define FUSE_SETUPMAPPING_FLAG_WRITE (1ull << 0)
#define FUSE_SETUPMAPPING_FLAG_READ (1ull << 1)
struct fuse_setupmapping_in {
	/* An already open handle */
	uint64_t	fh;
	/* Offset into the file to start the mapping */
	uint64_t	foffset;
	/* Length of mapping required */
	uint64_t	len;
	/* Flags, FUSE_SETUPMAPPING_FLAG_* */
	uint64_t	flags;
	/* Offset in Memory Window */
	uint64_t	moffset;
};

struct fuse_removemapping_in {
	/* number of fuse_removemapping_one follows */
	uint32_t        count;
};

struct fuse_removemapping_one {
	/* Offset into the dax window start the unmapping */
	uint64_t        moffset;
	/* Length of mapping required */
	uint64_t	len;
};

#define FUSE_REMOVEMAPPING_MAX_ENTRY   \
		(PAGE_SIZE / sizeof(struct fuse_removemapping_one))

struct fuse_syncfs_in {
	uint64_t	padding;
};

/*
 * For each security context, send fuse_secctx with size of security context
 * fuse_secctx will be followed by security context name and this in turn
 * will be followed by actual context label.
 * fuse_secctx, name, context
 */
struct fuse_secctx {
	uint32_t	size;
	uint32_t	padding;
};

/*
 * Contains the information about how many fuse_secctx structures are being
 * sent and what's the total size of all security contexts (including
 * size of fuse_secctx_header).
 *
 */
struct fuse_secctx_header {
	uint32_t	size;
	uint32_t	nr_secctx;
};

/**
 * struct fuse_ext_header - extension header
 * @size: total size of this extension including this header
 * @type: type of extension
 *
 * This is made compatible with fuse_secctx_header by using type values >
 * FUSE_MAX_NR_SECCTX
 */
struct fuse_ext_header {
	uint32_t	size;
	uint32_t	type;
};

#endif /* _LINUX_FUSE_H */
