#!/bin/bash
# Build the fact extractor and warm the dependency caches (offline).
set -e
cd "$(dirname "$0")"
export CARGO_NET_OFFLINE=true
(cd engine/fbr-facts && cargo build --release --offline 2>&1 | tail -2)
# warm per-configuration dependency builds + fact caches in parallel
export PYTHONPATH=/verif/engine:/verif PYTHONDONTWRITEBYTECODE=1
for c in D S A; do
  python3 -c "
from pyfbr import facts
try:
    facts.extract('$c'); print('facts $c ok')
except Exception as e:
    print('facts $c:', e)
" &
done
wait
