#!/usr/bin/env python3
"""Regenerate MANIFEST.json from the META dict of every rules/cNN.py that exists."""
import importlib, json, os, sys
sys.path[:0] = ["/verif/engine", "/verif"]
ids = [json.loads(l)["id"] for l in open("/verif/properties.jsonl")]
checks, na = [], []
for i in ids:
    try:
        m = importlib.import_module("rules.%s" % i.lower())
        meta = m.META
    except Exception as e:
        na.append({"property_id": i, "reason": "check not built yet (construction in progress, see DESIGN.md section 7)"})
        continue
    if meta.get("not_applicable"):
        na.append({"property_id": i, "reason": meta["not_applicable"]})
        continue
    checks.append({
        "property_id": i,
        "quick_cmd": "./check %s --tier quick" % i,
        "thorough_cmd": "./check %s --tier thorough" % i,
        "evidence_file": "/verif/evidence/%s.json" % i,
        "replay_cmd_template": "./check %s --replay {path}" % i,
        "engine": "fbr-static",
        "level_claimed": {"category": meta.get("level", "other"), "text": meta["text"], "design_ref": meta.get("design_ref", "DESIGN.md section 3 " + i)},
        "level_note": meta["note"],
        "technique": meta["technique"],
    })
man = {
    "version": 1,
    "setup_cmd": "./setup.sh",
    "hooks": {"guard": "fbr_verif", "enable": "none needed: the checks read the type-checked source (rustc MIR/layout facts); no hook is compiled into /repo",
              "baseline_off_cmd": "cd /repo && cargo test --workspace --no-fail-fast --offline", "source_commits": [], "add_only": True},
    "engines": [{"name": "fbr-static", "path": "engine/", "serves_properties": [c["property_id"] for c in checks],
                 "kind_free_text": "static analysis: rustc_private fact extractor (MIR, resolved callees, layouts, constants, trait tables) over /repo's working tree per feature configuration + Python rule library (CFG, dominators, value-flow, typestate, ownership) + per-property rules with frozen oracle tables; C13 additionally clang _Static_asserts against a vendored linux/fuse.h"}],
    "checks": checks,
    "notes": "Technique family: static analysis. Each claimed property is decided for the structural clauses listed in DESIGN.md section 3; the behavioural remainder is listed there as not decided. known_findings.json lists recorded defects by exact instance key.",
    "not_applicable": na,
}
json.dump(man, open("/verif/MANIFEST.json", "w"), indent=1)
print("claimed:", [c["property_id"] for c in checks], "n/a:", [n["property_id"] for n in na])
