import sys
sys.path[:0]=["/verif/engine","/verif"]
from pyfbr import facts, vf
from rules import common
F=facts.load(sys.argv[1] if len(sys.argv)>1 else 'S')
vf.NOUPD[0]=True
for h in sorted(common.handler_bodies(F), key=lambda b:b.line):
    v=vf.VF(h)
    roots=common.request_roots(v,h)+common.ctx_roots(h)
    for c in common.fs_calls(h):
        e=v.call_expr(c)
        roots.append((vf.field(("V",e,"Ok"),"0",0),"Res"))
        roots.append((vf.field(("V",e,"Err"),"0",0),"Err"))
        roots.append((e,"fs.%s()"%c.name))
    for c in h.calls():
        if c.bb in h.reachable() and not h.is_cleanup(c.bb) and c.name in ("reply_ok","reply_error","reply_error_explicit","handle_attr_result","write_all","commit","do_reply_error"):
            args=v.call_args(c)
            print("%s: %s(%s)"%(h.name,c.name,"; ".join(vf.render(a,h,roots,short=True,vfx=v) for a in args[1:])[:700]))
