#!/usr/bin/env python3
"""Freeze the inventory of crate functions the rules were written against (tables/known_functions.json).
Run on the tree the rules were confirmed on; functions that appear later are spliced into their callers (engine/pyfbr/inline.py)."""
import json, os, sys
sys.path.insert(0, "/verif/engine")
from pyfbr import facts
keys = set()
for cfg in ("D", "S", "A"):
    raw = json.load(open(facts.extract(cfg)))
    for f in raw["fns"]:
        keys.add(f["key"])
out = {"_comment": "function keys present in configurations D, S, A of the tree the rules were confirmed on (HEAD %s)" %
       os.popen("git -C /repo rev-parse --short HEAD").read().strip(), "functions": sorted(keys)}
json.dump(out, open("/verif/tables/known_functions.json", "w"), indent=0)
print(len(keys), "functions")
