import sys, json
sys.path[:0]=["/verif/engine","/verif"]
from pyfbr import facts, vf
F=facts.load('S')
vf.NOUPD[0]=True; vf.NOCAST[0]=True
out={}
for k,b in sorted(F.fns.items(), key=lambda kv:(kv[1].file,kv[1].line)):
    if not k.startswith("passthrough::") or "async_io" in k or "xattrmap" in k or "credentials" in k: continue
    v=None
    for c in b.calls():
        if c.bb in b.reachable() and not b.is_cleanup(c.bb) and (c.fn or '').startswith('libc::') and c.name not in ('__errno_location',):
            v=v or vf.VF(b,inline_depth=0)
            name=b.name if b.kind!='closure' else F.fns[b.owner].name+'/closure'
            a=[vf.render(x,b,short=True,vfx=v)[:150] for x in v.call_args(c)]
            out.setdefault(name,[]).append((c.name,a))
for k,v in out.items():
    for (n,a) in v: print("%-22s %s(%s)"%(k,n,"; ".join(a)))
