#!/usr/bin/env python3
"""Development aid, not a check: a mutation survey of the code the checks look at.

For every function a check registers (FBR_DUMP_FUNCS) and every anchor range of properties.jsonl, small
token-level mutants are generated (relational operator, boolean connective, off-by-one, errno/flag constant of
the same family, dropped `!`, dropped statement). Each mutant is applied to a scratch copy of /repo; the quick
checks of the properties concerned run against it. Mutants no check reports are then run against the repository's
own test suite: what survives both is listed for triage by hand (is it equivalent / irrelevant, or does it break
a property that a rule should cover?).

usage: mutants.py gen [N-per-function] > list.json ; mutants.py run list.json <workers> <out.jsonl> [start:end]
"""
import json, os, random, re, shutil, subprocess, sys, glob, hashlib
from multiprocessing import Pool

VERIF = "/verif"
REPO = "/repo"
sys.path.insert(0, VERIF + "/engine")

REL = [(" < ", " <= "), (" <= ", " < "), (" > ", " >= "), (" >= ", " > "), (" == ", " != "), (" != ", " == ")]
CONN = [(" && ", " || "), (" || ", " && ")]
ERRNOS = ["EBADF", "EINVAL", "ENOSYS", "EPERM", "ENOENT", "ENOMEM", "EIO", "ENOTDIR", "EEXIST", "EACCES", "ENOTEMPTY", "ENODEV", "EROFS", "EOPNOTSUPP"]
SKIP = re.compile(r"^\s*(//|#\[|trace!|debug!|error!|warn!|info!|assert|debug_assert|use |fn |pub fn |pub\(crate\) fn |\}|\{|\)|\]|$)")


def mutants_of_line(text):
    """[(op, new_text)] for one source line."""
    out = []
    if SKIP.match(text) or "format!(" in text or "=>" in text and "if " not in text and " == " not in text:
        pass
    code = text.split("//")[0]
    if SKIP.match(text):
        return out
    for a, b in REL + CONN:
        for m in re.finditer(re.escape(a), code):
            out.append(("%s->%s" % (a.strip(), b.strip()), text[:m.start()] + b + text[m.end():]))
    for m in re.finditer(r"\b(\w+(?:\.\w+|\(\))*) ([+-]) 1\b", code):
        out.append(("drop%s1" % m.group(2), text[:m.start()] + m.group(1) + text[m.end():]))
    for m in re.finditer(r"\bif !", code):
        out.append(("drop-not", text[:m.start()] + "if " + text[m.end():]))
    for m in re.finditer(r"libc::(E[A-Z]+)\b", code):
        alt = "EIO" if m.group(1) != "EIO" else "EINVAL"
        out.append(("errno", text[:m.start(1)] + alt + text[m.end(1):]))
    for m in re.finditer(r"\b(true|false)\b", code):
        if "(" in code and ("store(" in code or "= " in code or ", " in code):
            out.append(("bool", text[:m.start()] + ("false" if m.group(1) == "true" else "true") + text[m.end():]))
    for a, b in (("uid", "gid"), ("gid", "uid"), ("atime", "mtime"), ("mtime", "atime"), ("offset", "size"), ("checked_add", "wrapping_add"),
                 ("saturating_sub", "wrapping_sub"), ("O_NOFOLLOW", "O_CLOEXEC"), ("O_EXCL", "O_CLOEXEC"), ("Ordering::Acquire", "Ordering::Relaxed"),
                 ("min(", "max("), ("max(", "min(")):
        for m in re.finditer(r"\b%s" % re.escape(a), code):
            if a in ("uid", "gid", "atime", "mtime", "offset") and not re.match(r"[\w.]*\b%s\b" % a, code[m.start():]):
                continue
            out.append(("%s->%s" % (a, b), text[:m.start()] + b + text[m.end():]))
    if os.environ.get("MUT_EXTRA"):
        for m in re.finditer(r" \| (?=libc::|[A-Z][A-Za-z]*::[A-Z_]+|[A-Z_]{3,})", code):
            out.append(("|->&", text[:m.start()] + " & " + text[m.end():]))
        for m in re.finditer(r"(?<=[\w)\]]) \+ (?=[\w(])", code):
            out.append(("+->-", text[:m.start()] + " - " + text[m.end():]))
        for m in re.finditer(r"(?<=[\w)\]]) - (?=[\w(])", code):
            out.append(("-->+", text[:m.start()] + " + " + text[m.end():]))
        for m in re.finditer(r"\((\w+(?:\.\w+)*), (\w+(?:\.\w+)*)\)", code):
            if m.group(1) != m.group(2) and not m.group(1)[0].isdigit() and not m.group(2)[0].isdigit():
                out.append(("swap-args", text[:m.start()] + "(%s, %s)" % (m.group(2), m.group(1)) + text[m.end():]))
        for m in re.finditer(r"\|= ", code):
            out.append(("|=->=", text[:m.start()] + "= " + text[m.end():]))
        for m in re.finditer(r"\b([2-9]|[1-9]\d+)\b(?!\.)", code):
            if "0o" not in code and "0x" not in code and "[" not in code[:m.start()][-2:]:
                out.append(("lit+1", text[:m.start()] + str(int(m.group(1)) + 1) + text[m.end():]))
        for m in re.finditer(r"\breturn Ok\(\(\)\);", code):
            pass
    # dropped statement: a call statement whose value is unused
    if re.match(r"^\s+[\w.:]+(\(.*\))+\??;\s*$", code) and "let " not in code and "return" not in code:
        ind = re.match(r"^\s*", text).group(0)
        out.append(("drop-stmt", ind + "// (dropped) " + text.strip()))
    return out


def spans():
    """{file: {line: set(pids)}} from the functions the checks registered and from the anchors."""
    from pyfbr import facts
    lines = {}
    for cfg in ("S", "A"):
        F = facts.load(cfg)
        for p in sorted(glob.glob(VERIF + "/.scratch/funcs/*.json")):
            pid = os.path.basename(p)[:-5]
            for k in json.load(open(p)):
                b = F.fns.get(k)
                if b is None:
                    continue
                end = b.line
                for bb in b.reachable():
                    for s in b.stmts(bb):
                        if isinstance(s[-1], int):
                            end = max(end, s[-1])
                for c in b.calls():
                    if c.line and not c.exp:
                        end = max(end, c.line)
                if end - b.line > 400:
                    end = b.line + 400
                for l in range(b.line, end + 1):
                    lines.setdefault(b.file, {}).setdefault(l, set()).add(pid)
    for l in open(VERIF + "/properties.jsonl"):
        d = json.loads(l)
        for grp in ("state", "mechanism"):
            for it in d["anchors"].get(grp, []):
                for part in it.get("where", "").split(";"):
                    part = part.strip()
                    if ":" not in part:
                        continue
                    f, rs = part.split(":", 1)
                    for r in rs.split(","):
                        m = re.match(r"(\d+)(?:-(\d+))?", r.strip())
                        if m:
                            a, b_ = int(m.group(1)), int(m.group(2) or m.group(1))
                            for ln in range(max(1, a - 3), b_ + 12):
                                lines.setdefault(f.strip(), {}).setdefault(ln, set()).add(d["id"])
    return lines


def in_test_code(src, idx):
    """crude: after a `#[cfg(test)]` line at column 0 in this file"""
    for i in range(idx, -1, -1):
        if src[i].startswith("#[cfg(test)]"):
            return True
    return False


def gen(per_fn):
    random.seed(int(os.environ.get("MUT_SEED", "20260923")))
    sp = spans()
    out = []
    for f, lm in sorted(sp.items()):
        path = os.path.join(REPO, f)
        if not os.path.exists(path):
            continue
        src = open(path).read().split("\n")
        cand = []
        for ln, pids in sorted(lm.items()):
            if ln - 1 >= len(src) or in_test_code(src, ln - 1):
                continue
            for (op, new) in mutants_of_line(src[ln - 1]):
                cand.append({"file": f, "line": ln, "op": op, "old": src[ln - 1], "new": new, "pids": sorted(pids)})
        # sample: at most per_fn mutants per 40-line window
        byw = {}
        for c in cand:
            byw.setdefault(c["line"] // 40, []).append(c)
        for w, cs in sorted(byw.items()):
            random.shuffle(cs)
            out += cs[:per_fn]
    for i, c in enumerate(out):
        c["id"] = "m%04d" % i
    return out


def sh(cmd, cwd, env, timeout):
    try:
        p = subprocess.run(cmd, cwd=cwd, env=env, stdout=subprocess.PIPE, stderr=subprocess.STDOUT, text=True, timeout=timeout)
        return p.returncode, p.stdout
    except subprocess.TimeoutExpired as e:
        return 124, (e.stdout or b"").decode("utf8", "replace") if isinstance(e.stdout, bytes) else (e.stdout or "")


def run_one(arg):
    m, w = arg
    base = "/tmp/mut"
    work = "%s/w%d" % (base, w)
    os.makedirs(base, exist_ok=True)
    subprocess.check_call(["rsync", "-a", "--delete", "--exclude", "target", "--exclude", ".git", REPO + "/", work + "/"])
    path = os.path.join(work, m["file"])
    src = open(path).read().split("\n")
    if src[m["line"] - 1] != m["old"]:
        return dict(m, verdict="stale")
    src[m["line"] - 1] = m["new"]
    open(path, "w").write("\n".join(src))
    cache = "%s/cache%d" % (base, w)
    shutil.rmtree(cache, ignore_errors=True)
    env = dict(os.environ, FBR_REPO=work, FBR_CACHE=cache, FBR_TARGET_BASE="%s/tb%d" % (base, w), FBR_EVID_DIR="%s/ev%d" % (base, w),
               PYTHONPATH=VERIF + "/engine:" + VERIF, CARGO_NET_OFFLINE="true")
    det = {}
    nov = False
    for pid in m["pids"]:
        rc, out = sh([sys.executable, "-m", "rules.main", pid, "--tier", "quick"], VERIF, env, 900)
        keys = sorted(set(re.findall(r"\[(%s/[^\]]+)\]" % pid, "\n".join(l for l in out.splitlines() if l.startswith("  ")))))
        if any("/build/" in k or k.endswith("/config") for k in keys) or "no verdict" in out:
            nov = True
            break
        if keys:
            det[pid] = keys[:4]
            break       # one report is enough
    res = dict(m, detected=det)
    if nov:
        res["verdict"] = "does-not-build"
    elif det:
        res["verdict"] = "reported"
    else:
        env2 = dict(os.environ, CARGO_TARGET_DIR="%s/tt%d" % (base, w), CARGO_NET_OFFLINE="true")
        rc, out = sh(["cargo", "test", "--workspace", "--no-fail-fast", "--offline", "-j", "4"], work, env2, 900)
        failed = sorted(set(re.findall(r"^test (\S+) \.\.\. FAILED", out, flags=re.M)))
        if "error: could not compile" in out or "error[E" in out:
            res["verdict"] = "does-not-build"
        elif rc == 124:
            res["verdict"] = "tests-hang"
        elif failed or rc != 0:
            res["verdict"] = "killed-by-tests"
            res["failed"] = failed[:3]
        else:
            res["verdict"] = "SURVIVES"
    shutil.rmtree(cache, ignore_errors=True)
    return res


def worker(arg):
    ch, outp = arg
    for x in ch:
        try:
            r = run_one(x)
        except Exception as e:
            r = dict(x[0], verdict="tool-error", error=repr(e))
        with open(outp, "a") as f:
            f.write(json.dumps(r) + "\n")
        print(r["id"], r["verdict"], r["file"], r["line"], r["op"], json.dumps(r.get("detected"))[:100])
        sys.stdout.flush()


if __name__ == "__main__":
    if sys.argv[1] == "gen":
        ms = gen(int(sys.argv[2]) if len(sys.argv) > 2 else 2)
        json.dump(ms, sys.stdout, indent=0)
        sys.stderr.write("%d mutants\n" % len(ms))
    else:
        ms = json.load(open(sys.argv[2]))
        W = int(sys.argv[3])
        outp = sys.argv[4]
        if len(sys.argv) > 5:
            a, b = sys.argv[5].split(":")
            ms = ms[int(a):int(b)]
        done = set()
        if os.path.exists(outp):
            done = {json.loads(l)["id"] for l in open(outp)}
        ms = [m for m in ms if m["id"] not in done]
        # static assignment of mutants to workers keeps each worker's scratch dirs private
        chunks = [[(m, w) for i, m in enumerate(ms) if i % W == w] for w in range(W)]

        with Pool(W) as pool:
            pool.map(worker, [(ch, outp) for ch in chunks])
