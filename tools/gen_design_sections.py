#!/usr/bin/env python3
"""Emit the generated parts of DESIGN.md: section 3 (per-property rules as built, from the rule modules' own docstrings and META)
and Appendix A (which stored breaking change is reported by which rule, from the last thorough run's evidence)."""
import importlib, json, os, sys, glob
sys.path.insert(0, "/verif/engine"); sys.path.insert(0, "/verif")
props = {json.loads(l)["id"]: json.loads(l) for l in open("/verif/properties.jsonl")}
out = []
for i in range(1, 21):
    pid = "C%02d" % i
    m = importlib.import_module("rules.%s" % pid.lower())
    doc = (m.__doc__ or "").strip("\n")
    head, _, body = doc.partition("\n")
    out.append("### %s — %s\n" % (pid, props[pid]["title"]))
    out.append("*Technique*: %s.\n" % m.META["technique"])
    out.append("```\n%s\n```\n" % body.strip("\n"))
    out.append("*Decided*: %s\n" % m.META["text"])
    out.append("*Not decided (declared not applicable to this technique)*: %s\n" % m.META["note"])
    ev = "/verif/evidence/%s.json" % pid
    if os.path.exists(ev):
        e = json.load(open(ev))
        c = e["coverage"]
        out.append("*Last run*: %d rule instances (%s), %d functions, floors %s.\n" % (
            c["evaluations"], ", ".join("%s %d" % kv for kv in sorted(c["instances_per_rule"].items())), c["functions_analysed"],
            ", ".join("%s>=%d" % (k, v["floor"]) for k, v in sorted(c.get("floors", {}).items())) or "none"))
sec3 = "\n".join(out)
rows = []
for f in sorted(glob.glob("/verif/evidence/C*.json")):
    e = json.load(open(f))
    for r in e["coverage"].get("self_test", {}).get("results", []):
        if r.get("expected") == "quiet" or r["seed"].startswith("benign"):
            continue
        meta = {}
        mp = "/verif/seeded/%s/meta.json" % r["seed"]
        if os.path.exists(mp):
            meta = json.load(open(mp))
        what = ""
        np_ = "/verif/seeded/%s/notes.md" % r["seed"]
        if os.path.exists(np_):
            for l in open(np_):
                l = l.strip()
                if l.startswith("#"):
                    what = l.lstrip("# ").split("—", 1)[-1].split(" - ", 1)[-1].strip()[:160]
                    break
        rows.append("| %s | %s | %s | %s |" % (r["seed"], "yes" if r.get("detected") else ("n/a" if not r.get("applied") else "**no**"),
                                               ", ".join("`%s`" % k.split("/", 1)[1] for k in (r.get("reported") or [])[:3]), what.replace("|", "/")))
appA = "| change | reported | by rule instance(s) (first three) | what the change does |\n|---|---|---|---|\n" + "\n".join(rows) + "\n"
import re
doc = open("/verif/DESIGN.md").read()
def put(doc, name, body):
    a = "<!-- BEGIN GENERATED: %s -->\n" % name
    b = "<!-- END GENERATED: %s -->" % name
    i, j = doc.index(a) + len(a), doc.index(b)
    return doc[:i] + body.rstrip("\n") + "\n" + doc[j:]
doc = put(doc, "section3", sec3)
if rows:
    doc = put(doc, "appendixA", appA)
open("/verif/DESIGN.md", "w").write(doc)
print(len(out), len(rows))
