#!/bin/bash
# Run the thorough tier of every property (4 at a time) and print which stored breaking changes each check reports.
cd /verif
ids=$(python3 -c "import json; print(' '.join(c['property_id'] for c in json.load(open('MANIFEST.json'))['checks']))")
mkdir -p .scratch/matrix
echo $ids | tr ' ' '\n' | xargs -P 4 -I{} sh -c './check {} --tier thorough > .scratch/matrix/{}.log 2>&1; echo "{} rc=$?"'
python3 - <<'PY'
import json, glob
rows=[]
for f in sorted(glob.glob('/verif/evidence/C*.json')):
    e=json.load(open(f))
    st=e['coverage'].get('self_test',{}).get('results',[])
    for r in st:
        rows.append((r['seed'], r.get('applied'), r.get('detected'), (r.get('reported') or [''])[0]))
for r in rows: print("%-7s applied=%-5s detected=%-5s %s" % r)
print("missed:", [r[0] for r in rows if r[1] and not r[2]], "not applicable:", [r[0] for r in rows if not r[1]])
PY
