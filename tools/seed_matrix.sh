#!/bin/bash
# Run the thorough tier of every property (4 at a time) and print which stored breaking changes each check reports.
cd /verif
ids=$(python3 -c "import json; print(' '.join(c['property_id'] for c in json.load(open('MANIFEST.json'))['checks']))")
mkdir -p .scratch/matrix
echo $ids | tr ' ' '\n' | xargs -P 4 -I{} sh -c './check {} --tier thorough > .scratch/matrix/{}.log 2>&1; echo "{} rc=$?"'
python3 - <<'PY'
import json, glob
rows=[]
for f in sorted(glob.glob('/verif/evidence/C*.json')):
    e=json.load(open(f))
    st=e['coverage'].get('self_test',{}).get('results',[])
    for r in st:
        rows.append((r['seed'], r.get('applied'), r.get('detected'), (r.get('reported') or [''])[0], r.get('expected', 'reported'), e['property_id']))
for r in rows:
    if r[4] == 'reported': print("%-7s applied=%-5s detected=%-5s %s" % r[:4])
br = [r for r in rows if r[4] == 'reported']
bq = [r for r in rows if r[4] == 'quiet']
print("breaking changes: %d, reported: %d, missed: %s, not applicable: %s" % (len(br), sum(1 for r in br if r[2]), [r[0] for r in br if r[1] and not r[2]], [r[0] for r in br if not r[1]]))
print("benign runs: %d, false alarms: %s" % (len(bq), [(r[5], r[0]) for r in bq if r[2]]))
PY
