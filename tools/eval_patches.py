#!/usr/bin/env python3
"""Run checks against patches applied to scratch copies of /repo's current tree.
usage: eval_patches.py <dir-with-subdirs-containing-patch.diff> [IDs...]     (default: all 20 checks)
Prints, per patch, the violation keys each check reports (known findings and build failures listed separately)."""
import json, os, re, shutil, subprocess, sys, tempfile
VERIF = "/verif"
src = sys.argv[1]
ids = sys.argv[2:] or ["C%02d" % i for i in range(1, 21)]
tmp = tempfile.mkdtemp(prefix="fbr-eval-")
res = {}
try:
    for k in sorted(os.listdir(src)):
        patch = os.path.join(src, k, "patch.diff")
        if not os.path.exists(patch):
            continue
        work = os.path.join(tmp, "w-" + k)
        subprocess.check_call(["rsync", "-a", "--exclude", "target", "--exclude", ".git", "/repo/", work + "/"])
        p = subprocess.run(["git", "apply", "--whitespace=nowarn", patch], cwd=work, stdout=subprocess.PIPE, stderr=subprocess.STDOUT, text=True)
        if p.returncode != 0:
            res[k] = {"error": "does not apply: " + p.stdout[-200:]}
            print(k, "DOES NOT APPLY", p.stdout[-200:].strip())
            continue
        env = dict(os.environ, FBR_REPO=work, FBR_CACHE=os.path.join(tmp, "cache-" + k), FBR_TARGET_BASE=os.path.join(VERIF, ".cache"),
                   FBR_EVID_DIR=os.path.join(tmp, "evid-" + k), PYTHONPATH=VERIF + "/engine:" + VERIF)
        out = {}
        for pid in ids:
            q = subprocess.run([sys.executable, "-m", "rules.main", pid, "--tier", "quick"], cwd=VERIF, env=env, stdout=subprocess.PIPE, stderr=subprocess.STDOUT, text=True)
            keys = sorted(set(re.findall(r"\[(%s/[^\]]+)\]" % pid, "\n".join(l for l in q.stdout.splitlines() if l.startswith("  ")))))
            if keys:
                out[pid] = keys
        res[k] = out
        print(k, json.dumps(out)[:1500] if out else "quiet")
        sys.stdout.flush()
        shutil.rmtree(work, ignore_errors=True)
finally:
    shutil.rmtree(tmp, ignore_errors=True)
json.dump(res, open(os.path.join(VERIF, ".scratch", "eval-%s.json" % os.path.basename(src.rstrip("/"))), "w"), indent=1)
