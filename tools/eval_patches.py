#!/usr/bin/env python3
"""Run checks against patches applied to scratch copies of /repo's current tree.
usage: eval_patches.py <dir-with-subdirs-containing-patch.diff> [IDs...]     (default: all 20 checks)
Prints, per patch, the violation keys each check reports (known findings and build failures listed separately)."""
import json, os, re, shutil, subprocess, sys, tempfile
VERIF = "/verif"
src = sys.argv[1]
ids = sys.argv[2:] or ["C%02d" % i for i in range(1, 21)]
# EVAL_WORKERS=N EVAL_WORKER=i: this process handles every N-th patch and uses its own cargo target directory
NW, WI = int(os.environ.get("EVAL_WORKERS", "1")), int(os.environ.get("EVAL_WORKER", "0"))
TB = os.environ.get("EVAL_TB") or (os.path.join(VERIF, ".cache") if NW == 1 else "/tmp/fbr-evaltb-%d" % WI)
tmp = tempfile.mkdtemp(prefix="fbr-eval-")
res = {}
try:
    for idx, k in enumerate(sorted(os.listdir(src))):
        if idx % NW != WI:
            continue
        patch = os.path.join(src, k, "patch.diff")
        if not os.path.exists(patch):
            continue
        work = os.path.join(tmp, "w-" + k)
        subprocess.check_call(["rsync", "-a", "--exclude", "target", "--exclude", ".git", "/repo/", work + "/"])
        p = subprocess.run(["git", "apply", "--whitespace=nowarn", patch], cwd=work, stdout=subprocess.PIPE, stderr=subprocess.STDOUT, text=True)
        if p.returncode != 0:
            res[k] = {"error": "does not apply: " + p.stdout[-200:]}
            print(k, "DOES NOT APPLY", p.stdout[-200:].strip())
            continue
        env = dict(os.environ, FBR_REPO=work, FBR_CACHE=os.path.join(tmp, "cache-" + k), FBR_TARGET_BASE=TB,
                   FBR_EVID_DIR=os.path.join(tmp, "evid-" + k), PYTHONPATH=VERIF + "/engine:" + VERIF)
        out = {}
        for pid in ids:
            q = subprocess.run([sys.executable, "-m", "rules.main", pid, "--tier", "quick"], cwd=VERIF, env=env, stdout=subprocess.PIPE, stderr=subprocess.STDOUT, text=True)
            keys = sorted(set(re.findall(r"\[(%s/[^\]]+)\]" % pid, "\n".join(l for l in q.stdout.splitlines() if l.startswith("  ")))))
            if keys:
                out[pid] = keys
        res[k] = out
        print(k, json.dumps(out)[:1500] if out else "quiet")
        sys.stdout.flush()
        shutil.rmtree(work, ignore_errors=True)
finally:
    shutil.rmtree(tmp, ignore_errors=True)
json.dump(res, open(os.path.join(VERIF, ".scratch", "eval-%s%s.json" % (os.path.basename(src.rstrip("/")), "" if NW == 1 else "-%d" % WI)), "w"), indent=1)
