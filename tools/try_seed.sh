#!/bin/bash
# usage: try_seed.sh <patch.diff> <ID> [<ID>...] : apply patch to /repo, run the checks, undo.
patch=$1; shift
cd /repo || exit 2
if ! git diff --quiet; then echo "/repo has local changes; refusing"; exit 2; fi
git apply "$patch" || { echo "patch does not apply"; exit 2; }
trap 'git -C /repo checkout -- . ' EXIT
cd /verif
for id in "$@"; do
  ./check $id 2>&1 | grep -E "^VIOLATION|^  [A-Za-z0-9-]+:|^KNOWN|^C[0-9]+:" | cut -c1-400
done
