#!/usr/bin/env python3
"""Confirm sub-agent seeds: each patch must apply, keep the existing suite green, and its demo must
fail with the patch and pass without it. Writes /verif/seeded/<id>-<k>/ with meta.json.
usage: confirm_seeds.py <worker-index> <n-workers> [ids...]"""
import json, os, re, subprocess, sys, shutil, time
W, N = int(sys.argv[1]), int(sys.argv[2])
only = sys.argv[3:]
SEEDS = os.environ.get("SEEDS_DIR", "/tmp/seeds")
KOFF = int(os.environ.get("K_OFFSET", "0"))
OUT = "/verif/seeded"
jobs = []
for pid in sorted(os.listdir(SEEDS)):
    d = os.path.join(SEEDS, pid)
    if not os.path.isdir(d) or not re.match(r"C\d+$", pid):
        continue
    if only and pid not in only:
        continue
    for k in sorted(os.listdir(d)):
        if os.path.exists(os.path.join(d, k, "patch.diff")):
            jobs.append((pid, k))
jobs = [j for i, j in enumerate(jobs) if i % N == W]
TAG = os.environ.get("WT_TAG", "b" if KOFF else "")
wt = "/tmp/seedwt%s-%d" % (TAG, W)
tgt = "/tmp/seedtarget%s-%d" % (TAG, W)
subprocess.call(["git", "-C", "/repo", "worktree", "remove", "--force", wt], stderr=subprocess.DEVNULL)
subprocess.check_call(["git", "-C", "/repo", "worktree", "add", "-q", "--detach", wt, "HEAD"])
shutil.copy("/repo/Cargo.lock", wt)
env = dict(os.environ, CARGO_TARGET_DIR=tgt, CARGO_NET_OFFLINE="true")
head = subprocess.check_output(["git", "-C", "/repo", "rev-parse", "--short", "HEAD"], text=True).strip()

def sh(cmd, cwd=wt):
    p = subprocess.run(cmd, cwd=cwd, env=env, stdout=subprocess.PIPE, stderr=subprocess.STDOUT, text=True, shell=isinstance(cmd, str))
    return p.returncode, p.stdout

def reset():
    sh("git checkout -q -- . && git clean -fdq -e Cargo.lock")

def run_tests(feats, workspace=False):
    cmd = ["cargo", "test", "--no-fail-fast", "--offline"]
    if workspace:
        cmd.append("--workspace")
    if feats:
        cmd += ["--features", feats]
    rc, out = sh(cmd)
    failed = sorted(set(re.findall(r"^test (\S+) \.\.\. FAILED", out, flags=re.M)))
    passed = len(re.findall(r"^test \S+ \.\.\. ok", out, flags=re.M))
    builderr = "error: could not compile" in out or "error[E" in out
    return rc, failed, passed, builderr, out

for (pid, k) in jobs:
    src = os.path.join(SEEDS, pid, k)
    dst = os.path.join(OUT, "%s-%s" % (pid, int(k) + KOFF if KOFF else k))
    if os.path.exists(os.path.join(dst, "meta.json")):
        continue
    t0 = time.time()
    meta = {"property": pid, "seed": str(int(k) + KOFF if KOFF else k), "base_commit": head, "confirmed": False, "round": int(os.environ.get("ROUND", 2 if KOFF else 1))}
    feats = "fusedev,virtiofs,vhost-user-fs,persist" + (",async-io" if pid == "C20" or "async_io.rs" in open(os.path.join(src, "demo.diff")).read()[:400] or os.environ.get("FORCE_ASYNC") else "")
    reset()
    rc, out = sh(["git", "apply", "--check", os.path.join(src, "patch.diff")])
    if rc != 0:
        meta["error"] = "patch does not apply on %s: %s" % (head, out[-300:])
    else:
        sh(["git", "apply", os.path.join(src, "patch.diff")])
        rc1, failed1, passed1, be1, out1 = run_tests("", workspace=True)
        meta["suite_with_patch"] = {"passed": passed1, "failed": failed1, "build_error": be1}
        rc, out = sh(["git", "apply", os.path.join(src, "demo.diff")])
        if rc != 0:
            meta["error"] = "demo does not apply on top of patch: %s" % out[-300:]
        else:
            rc2, failed2, passed2, be2, out2 = run_tests(feats)
            meta["demo_with_patch"] = {"passed": passed2, "failed": failed2, "build_error": be2}
            reset()
            sh(["git", "apply", os.path.join(src, "demo.diff")])
            rc3, failed3, passed3, be3, out3 = run_tests(feats)
            meta["demo_without_patch"] = {"passed": passed3, "failed": failed3, "build_error": be3}
            meta["features_for_demo"] = feats
            meta["confirmed"] = (not be1 and not failed1 and passed1 >= 134 and not be2 and len(failed2) >= 1
                                 and not be3 and not failed3)
    reset()
    os.makedirs(dst, exist_ok=True)
    for f in ("patch.diff", "demo.diff", "notes.md"):
        if os.path.exists(os.path.join(src, f)):
            shutil.copy(os.path.join(src, f), dst)
    meta["what_i_ran"] = ["git apply patch.diff; cargo test --workspace --no-fail-fast --offline",
                          "git apply patch.diff demo.diff; cargo test --no-fail-fast --offline --features " + feats,
                          "git apply demo.diff; cargo test --no-fail-fast --offline --features " + feats]
    meta["wall_s"] = round(time.time() - t0)
    json.dump(meta, open(os.path.join(dst, "meta.json"), "w"), indent=1)
    print(pid, k, "confirmed" if meta["confirmed"] else "NOT CONFIRMED", meta.get("error", ""), flush=True)
subprocess.call(["git", "-C", "/repo", "worktree", "remove", "--force", wt])
shutil.rmtree(tgt, ignore_errors=True)
