import sys
sys.path[:0]=["/verif/engine","/verif"]
from pyfbr import facts, vf
from rules import common
F=facts.load(sys.argv[1] if len(sys.argv)>1 else 'S')
b,v,table,others=common.dispatch_table(F)
for op,l in sorted(table.items()):
    print(op,[x[0] for x in l])
print('unguarded server calls:',[c.name for c in others])
print()
for h in sorted(common.handler_bodies(F), key=lambda b:b.line):
    v=vf.VF(h)
    roots=common.request_roots(v,h)+common.ctx_roots(h)
    for c in common.fs_calls(h):
        args=v.call_args(c)
        print("%s -> fs.%s(%s)"%(h.name,c.name,"; ".join(vf.render(a,h,roots,short=True,vfx=v) for a in args[1:])))
