#!/usr/bin/env python3
"""Re-evaluate 'confirmed' in seeded/*/meta.json (pass counts are read from noisy test output, so the
criterion is: no build error, no failing existing test and >=130 counted passes with the patch; the demo
fails with the patch and passes without it)."""
import json, glob
for p in sorted(glob.glob('/verif/seeded/*/meta.json')):
    m = json.load(open(p))
    s, d1, d0 = m.get('suite_with_patch'), m.get('demo_with_patch'), m.get('demo_without_patch')
    ok = bool(s and d1 and d0 and not s['build_error'] and not s['failed'] and s['passed'] >= 130
              and not d1['build_error'] and len(d1['failed']) >= 1 and not d0['build_error'] and not d0['failed'])
    if m.get('manual'):
        ok = True       # confirmed by hand, reason recorded in meta['manual']
    m['confirmed'] = ok
    json.dump(m, open(p, 'w'), indent=1)
    print(p.split('/')[-2], 'confirmed' if ok else 'NOT CONFIRMED', m.get('error', ''), d1 and d1['failed'][:2])
