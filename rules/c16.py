"""C16 — directory listing returns each entry exactly once across any chunking/resumption (structural clauses).

R1 dirent accounting        add_dirent's space check covers the padded record, Ok(0) exactly when it does not fit (C03.R4 shared)
R2 cookie cache             the cached position is consumed unconditionally, under the file lock, before the fd is used; it is
                            recorded after the last getdents64 and before the lock is dropped; every function that moves a
                            handle's fd position consumes/invalidates it; release drops it
R3 entry loop               "." and ".." are skipped with a non-zero result; entry fields come from the record; advance by d_reclen;
                            Ok(0) stops; errors only surface when nothing was delivered
R4 pseudo fs offsets        continuation offset of child i is i + 1 (absolute), the walk starts at children[offset..]
R5 server binding           reply never exceeds `size`: ENOMEM gate, add_dirent's max is the request's size, header length is
                            what the cursor wrote, plus <-> Some(entry)
R6 readdirplus references   lookup reference kept exactly for delivered entries (C08.R2 shared)
R7 wrappers                 VFS and passthrough closures change only the inode number (and the entry) and return the
                            consumer's result unchanged, so Ok(0) stops the producer
R2 (cont.)                  rewind-and-scan fallback: the loop ends on error, end of directory, first batch after the cookie or the non-empty rest of the cookie's batch; a miss discards the batch
R3 (cont.)                  polarity of error-only-if-first
R5-toggles                  the layers run in the mode negotiated for OPENDIR (shared with C12.R5)
R4-error-conversion (shared with C05.R4) failure tests of the directory reads and seeks; R7 (cont.) listed entries are looked up under their complete NUL-terminated name
"""
import json
import os
import re

from pyfbr import core, vf
from rules import common
from rules import c03, c07, c08

PFS = c08.PFS
VFS = c07.VFS
PSEUDO = "api::pseudo_fs::PseudoFs"
REC = 'Option::expect(ByteValued::from_slice(impl [T]::split_at(loop(rem), size_of<LinuxDirent64>).0), k("fuse: unable to get LinuxDirent64 from slice"))'
NAME = "Index::index(impl [T]::split_at(loop(rem), size_of<LinuxDirent64>).1, RangeTo{end: Sub(%s.d_reclen, size_of<LinuxDirent64>)})" % REC
LOGGING = ("fmt", "new_display", "new_debug", "le", "max_level", "log", "loc", "from_str", "new_const", "new_v1", "new")


def live_calls(b):
    r = b.reachable()
    return [c for c in b.calls() if c.bb in r and not b.is_cleanup(c.bb)]


def R(e, b, v=None):
    return vf.render(e, b, short=True, vfx=v)


def run(ctx):
    ctx.explanation = (
        "Structural necessary conditions of exactly-once listing, read off the MIR: the reply-space gate and record writes of "
        "add_dirent; the directory-position cache protocol (who touches it, consumed unconditionally before use and under the file "
        "lock, refreshed after the last getdents64, invalidated by every other position mover); the record walk (fields, dot filter, "
        "advance, stop and error arms) with loop-carried variables treated symbolically (initial value, step value); the pseudo "
        "filesystem's absolute continuation offsets; the server-side size binding; wrapper closures passing entries and results through.")
    F = ctx.facts("S") or ctx.facts("D")
    if F is None:
        return
    table = json.load(open(c03.TABLE))
    vf.NOUPD[0] = True
    vf.NOCAST[0] = True
    try:
        ctx.run_rule("R1-dirent-accounting", c03.r4_dirent, F, table)
        ctx.run_rule("R2-cookie-cache", r2_cookie, F)
        ctx.run_rule("R3-entry-loop", r3_loop, F)
        ctx.run_rule("R4-pseudo-offsets", r4_pseudo, F)
        ctx.run_rule("R5-server-binding", r5_server, F)
        ctx.run_rule("R6-readdirplus-refs", c08.r2_readdir, F)
        ctx.run_rule("R7-wrappers", r7_wrappers, F)
        # with or without opendir: the mode each layer runs in is the one negotiated for OPENDIR (C12.R5)
        from rules import c12
        ctx.run_rule("R5-toggles", c12.r5_toggles, F, json.load(open(c12.TABLE)))
        # the directory reads and seeks are tested for failure the right way round (shared with C05.R4)
        from rules import c05
        ctx.run_rule("R4-error-conversion", c05.r4_errors, F, {"do_readdir", "lseek"})
        if any(k.startswith("api::pseudo_fs::persist::") for k in F.fns):
            from rules import c19
            fl_ = (vf.NOUPD[0], vf.NOCAST[0])
            vf.NOUPD[0], vf.NOCAST[0] = False, False
            ctx.run_rule("R4-pseudo-roundtrip", c19.r4_pseudo, F)      # pseudo directory offsets index the children in creation order, also after save/restore
            vf.NOUPD[0], vf.NOCAST[0] = fl_
    finally:
        vf.NOUPD[0] = False
        vf.NOCAST[0] = False
    ctx.assumptions += ["getdents64 returns each entry of an unchanged directory once with unique d_off cookies and honours lseek to a cookie",
                        "directories modified during the listing are outside the property"]


# ---------------------------------------------------------------------------------------------------- R2
def fallback_scan(ctx, F, rule):
    """The rewind-and-scan fallback of do_readdir (cookie the kernel cannot seek to): batches are read until the one holding
    the cookie was consumed; the loop ends on error, on end of directory, with the first batch after the cookie, or with the
    rest of the cookie's own batch when that is not empty - never with an empty reply while entries remain."""
    from rules import c10
    b = F.method(PFS, "do_readdir")
    v = vf.VF(b, inline_depth=0, opaque_loops=True)
    loops = []
    for h in sorted(v.loop_headers()):
        sw = c10.loop_switches(b, v, h)
        if any("SYS_getdents64" in c_[0] for c_ in sw):
            loops.append((h, sw))
    if not ctx.check(rule, "fallback-scan/loop", len(loops) == 1, "do_readdir: %d scanning loops around getdents64 (one fallback loop expected)" % len(loops), loc=b.loc()):
        return
    h, sw = loops[0]
    want = [
        ("error", lambda t: t.startswith("Lt(libc::syscall(SYS_getdents64") and t.endswith(", 0)"), {0: "loop", "otherwise": "exit"}),
        ("end-of-directory", lambda t: t.startswith("Eq(0, libc::syscall(SYS_getdents64"), {0: "loop", "otherwise": "exit"}),
        ("batch-after-cookie", lambda t: t == "loop(found)", {0: "loop", "otherwise": "exit"}),
        ("cookie-search", lambda t: t.startswith("PassthroughFs::skip_to_cookie(") and t.endswith(", offset)"), {0: "loop", "otherwise": "loop"}),
        ("rest-of-cookie-batch", lambda t: t.startswith("Vec::is_empty(") and "loop(buf)" in t, {0: "exit", "otherwise": "loop"}),
    ]
    used = set()
    for (nm, pred, edges) in want:
        m = [x for x in sw if pred(x[0])]
        ok = len(m) == 1 and m[0][1] == edges
        if m:
            used.add(m[0][2])
        ctx.check(rule, "fallback-scan/" + nm, ok, "do_readdir fallback scan: the `%s` decision is %s; required edges %s" %
                  (nm, [(x[0][:60], x[1]) for x in m] or "missing", edges), loc=b.loc())
    other = [x for x in sw if x[2] not in used]
    ctx.check(rule, "fallback-scan/no-other-decision", not other, "do_readdir fallback scan decides on %s as well" % [x[0][:80] for x in other], loc=b.loc())
    # the rest-of-batch test is made only after the cookie was found in this batch; a batch without the cookie is discarded
    e = [x for x in sw if x[0].startswith("Vec::is_empty(")]
    if e:
        ok = any(t.startswith("PassthroughFs::skip_to_cookie(") and l != 0 for (t, l) in e[0][3])
        ctx.check(rule, "fallback-scan/rest-only-after-hit", ok, "the emptiness test of the batch is not under `skip_to_cookie(..) == true`", loc=b.loc())
    cl = [c for c in live_calls(b) if c.name == "clear" and b.dominates(h, c.bb) and b.can_reach(c.bb, h)]
    ok = len(cl) == 1 and any(R(x, b, v).startswith("PassthroughFs::skip_to_cookie(") and l == 0 for (x, l, u) in v.guards(cl[0].bb))
    ctx.check(rule, "fallback-scan/miss-discards-batch", ok, "a batch that does not contain the cookie must be discarded (buf.clear()) before the next one is read", loc=b.loc())
    fl = local_named(b, "found")
    fd = v.loop_def(fl, h) if fl is not None else None
    if fd is not None:
        init, step = fd
        t = " ; ".join(R(x_[1], b, v) for x_ in step) if isinstance(step, list) else R(step, b, v)
        init = init[0][1] if isinstance(init, list) and len(init) == 1 else init
        arms = [x.strip() for x in t.strip("phi{}").split(" | ")]
        keep = [x for x in arms if x.startswith("!PassthroughFs::skip_to_cookie(") and x.endswith("=> loop(found)")]
        hit = [x for x in arms if x.startswith("PassthroughFs::skip_to_cookie(") and x.endswith("=> 1")]
        ctx.check(rule, "fallback-scan/found-set-on-hit", R(init, b, v) == "0" and len(keep) == 1 and len(hit) == 1 and len(arms) == 2,
                  "`found` must start false and become true exactly when skip_to_cookie reports the cookie (step: %s)" % t[:200], loc=b.loc())


def r2_cookie(ctx, F):
    rule = "R2-cookie-cache"
    HM = "passthrough::HandleMap"
    # who touches the `cookies` field
    touch = {}
    for k, b in F.fns.items():
        if not k.startswith("passthrough::") or b.exp:
            continue
        for bb in b.reachable():
            for s in b.stmts(bb):
                if "cookies" in json.dumps(s):
                    touch.setdefault(b.name if b.kind != "closure" else F.fns[b.owner].name, b)
    names = set(touch)
    ctx.check(rule, "who-touches-cache", names == {"new", "clear", "set_cookie", "remove_cookie"},
              "the directory-position cache is accessed by %s; only HandleMap::{new, clear, set_cookie, remove_cookie} may" % sorted(names))
    # remove_cookie: one unconditional HashMap::remove(handle) whose result is returned
    b = F.method(HM, "remove_cookie")
    ctx.fn_seen(b)
    v = vf.VF(b, inline_depth=0)
    rm = [c for c in live_calls(b) if c.name == "remove"]
    ok = len(rm) == 1 and not [g for g in v.guards(rm[0].bb)] and "handle" in R(v.call_args(rm[0])[1], b) and \
        R(v.ret(), b, v).startswith("HashMap::remove(")
    ctx.check(rule, "remove-unconditional", ok,
              "HandleMap::remove_cookie must remove the handle's cached position unconditionally and return it (returns `%s`)" % R(v.ret(), b, v)[:200], loc=b.loc())
    ctx.check(rule, "remove-only-mutation", not [c for c in live_calls(b) if c.name in ("insert", "get", "entry", "get_mut", "contains_key")],
              "HandleMap::remove_cookie inspects the cache instead of just removing", loc=b.loc())
    b = F.method(HM, "set_cookie")
    v = vf.VF(b, inline_depth=0)
    ins = [c for c in live_calls(b) if c.name == "insert"]
    ok = len(ins) == 1 and [R(x, b) for x in v.call_args(ins[0])[1:]] == ["handle", "cookie"] and not v.guards(ins[0].bb)
    ctx.check(rule, "set-inserts", ok, "HandleMap::set_cookie must insert (handle, cookie) unconditionally", loc=b.loc())

    # consume_cached_cookie
    b = F.method(PFS, "consume_cached_cookie")
    ctx.fn_seen(b)
    v = vf.VF(b, inline_depth=0)
    r = R(v.ret(), b, v)
    want = "phi{!Atomic::load(self.no_opendir, Relaxed) => Option::is_some_and(HandleMap::remove_cookie(self.handle_map, handle), closure({closure#0})) | Atomic::load(self.no_opendir, Relaxed) => 0}"
    ok = r == want
    calls = [c.name for c in live_calls(b)]
    if not ok:
        # accept equivalent spellings: the removal is the only cache access, it is unguarded except by !no_opendir, and the result
        # is a comparison of the removed value with `offset`
        rc = [c for c in live_calls(b) if c.name == "remove_cookie"]
        ok = len(rc) == 1 and [(R(g, b), l) for (g, l, u) in v.guards(rc[0].bb)] == [("Atomic::load(self.no_opendir, Relaxed)", 0)] and \
            "remove_cookie(self.handle_map, handle)" in r and not [c for c in calls if c in ("take_cookie_if", "get_cookie", "set_cookie")]
    ctx.check(rule, "consume/removes-always", ok,
              "consume_cached_cookie must remove the cached position whether or not it matches (a stale position left behind is trusted by a later "
              "resume); it computes `%s`" % r[:300], loc=b.loc(), detail=r[:200])
    cl = F.closures_of(b.key)
    ok = len(cl) == 1 and R(vf.VF(cl[0], inline_depth=0).ret(), cl[0]) in ("Eq(cookie, ^offset)", "Eq(^offset, cookie)") and \
        "Option::is_some_and(HandleMap::remove_cookie(self.handle_map, handle), closure(" in r
    # or, spelled as a comparison of the removed value with Some(offset)
    ok = ok or (not cl and vf.fact("Eq(HandleMap::remove_cookie(self.handle_map, handle), Some(offset))") in r) or \
        (not cl and re.search(r"\b(PartialEq|Option)::eq\(HandleMap::remove_cookie\(self\.handle_map, handle\), Some\(offset\)\)", r) is not None)
    ctx.check(rule, "consume/compares-offset", ok, "consume_cached_cookie: a hit must mean `cached == offset` (it computes `%s`)" % r[:200], loc=b.loc())

    # cache_cookie
    b = F.method(PFS, "cache_cookie")
    ctx.fn_seen(b)
    v = vf.VF(b, inline_depth=0)
    sc = [c for c in live_calls(b) if c.name == "set_cookie"]
    ok = len(sc) == 1
    if ok:
        a = [R(x, b) for x in v.call_args(sc[0])]
        g = [(R(x, b), l) for (x, l, u) in v.guards(sc[0].bb)]
        ok = a == ["self.handle_map", "handle", "some(PassthroughFs::last_cookie_in_buf(buf))"] and \
            g == [("Atomic::load(self.no_opendir, Relaxed)", 0), ("discr(PassthroughFs::last_cookie_in_buf(buf))", 1)]
    ctx.check(rule, "cache/stores-last", ok, "cache_cookie must store (handle, d_off of the last record in buf) unless no_opendir or buf is empty", loc=b.loc())

    # last_cookie_in_buf: loop walk
    b = F.method(PFS, "last_cookie_in_buf")
    ctx.fn_seen(b)
    v = vf.VF(b, inline_depth=0, opaque_loops=True)
    hs = sorted(v.loop_headers())
    ok = len(hs) == 1
    if ok:
        h = hs[0]
        hdr = 'Option::expect(ByteValued::from_slice(Index::index(loop(buf), RangeTo{end: size_of<LinuxDirent64>})), k("fuse: unable to get LinuxDirent64 from slice"))'
        li, ls = v.loop_def(local_named(b, "last"), h)
        bi, bs = v.loop_def(local_named(b, "buf"), h)
        ok = [R(x, b, v) for (p, x) in li] == ["None"] and [R(x, b, v) for (p, x) in ls] == ["Some(%s.d_off)" % hdr] and \
            [R(x, b, v) for (p, x) in bi] == ["buf"] and [R(x, b, v) for (p, x) in bs] == ["Index::index(loop(buf), RangeFrom{start: %s.d_reclen})" % hdr]
        rt = R(v.ret(), b, v)
        ok = ok and rt.endswith("| _ => None}") or ok and "loop(last)" in rt
    ctx.check(rule, "last-cookie-walk", ok, "last_cookie_in_buf must walk the records by d_reclen and return the d_off of the last one", loc=b.loc())

    # do_readdir protocol
    b = F.method(PFS, "do_readdir")
    ctx.fn_seen(b)
    v = vf.VF(b, inline_depth=0, opaque_loops=True)
    lc = live_calls(b)
    gf = [c for c in lc if c.name == "get_file_mut"]
    cs = [c for c in lc if c.name == "consume_cached_cookie"]
    cc = [c for c in lc if c.name == "cache_cookie"]
    dr = [c for c in lc if c.name == "drop" and "MutexGuard" in (json.dumps(c.d.get("substs", "")) + b.local_ty(c.args[0][1][0]) if c.args and c.args[0][0] != "k" else "")]
    seeks = [c for c in lc if c.name == "lseek64"]
    gds = [c for c in lc if c.name == "syscall" and R(v.call_args(c)[0], b) == "SYS_getdents64"]
    cm = [c for c in lc if c.name == "call_mut"]
    if not ctx.check(rule, "do_readdir/shape", len(gf) == 1 and len(cs) == 1 and len(cc) == 1 and len(dr) >= 1 and len(seeks) == 2 and len(gds) == 2 and len(cm) == 1,
                     "do_readdir: lock/consume/cache/drop/lseek64/getdents64/add_entry sites = %d/%d/%d/%d/%d/%d/%d (expected 1/1/1/>=1/2/2/1)" %
                     (len(gf), len(cs), len(cc), len(dr), len(seeks), len(gds), len(cm)), loc=b.loc()):
        return
    gf, cs, cc, cm = gf[0], cs[0], cc[0], cm[0]
    ctx.check(rule, "do_readdir/consume-args", [R(x, b) for x in v.call_args(cs)[1:]] == ["handle", "offset"], "do_readdir consumes the cache for the wrong (handle, offset)", loc=cs.loc())
    ctx.check(rule, "do_readdir/consume-under-lock", b.dominates(gf.bb, cs.bb), "do_readdir consults the position cache before taking the file lock", loc=cs.loc())
    for c in seeks + gds:
        ctx.check(rule, "do_readdir/consume-before-fd-use@%s" % site(b, c, seeks + gds), b.dominates(cs.bb, c.bb),
                  "do_readdir uses the directory fd before the cached position was consumed", loc=c.loc())
    # the seek to `offset` happens exactly when the cache missed and offset fits off64_t
    s_off = [c for c in seeks if R(v.call_args(c)[1], b) == "offset"]
    s_zero = [c for c in seeks if R(v.call_args(c)[1], b) == "0"]
    ok = len(s_off) == 1 and len(s_zero) == 1
    if ok:
        g = [(R(x, b), l) for (x, l, u) in v.guards(s_off[0].bb)]
        ok = ("PassthroughFs::consume_cached_cookie(self, handle, offset)", 0) in g and ("Le(offset, MAX)", "otherwise") in g and \
            R(v.call_args(s_off[0])[2], b) == "SEEK_SET" and R(v.call_args(s_zero[0])[2], b) == "SEEK_SET"
        extra = [t for (t, l) in g if not t.startswith(("Eq(0, size)", "discr(Result::branch(PassthroughFs::get_dirdata", "PassthroughFs::consume_cached_cookie", "Le(offset, MAX)", "Ne(0, size)"))]
        ok = ok and not extra
    ctx.check(rule, "do_readdir/seek-on-miss", ok, "do_readdir must lseek64(fd, offset, SEEK_SET) exactly when the cached position missed and offset <= i64::MAX", loc=b.loc())
    # fast path taken only on hit or successful seek
    so = vf.def_value(v, b, "seek_ok")
    t = R(so, b, v) if so is not None else ""
    want = ("phi{!PassthroughFs::consume_cached_cookie(self, handle, offset) => phi{Le(offset, MAX) => phi{"
            "!PartialEq::ne(Error::raw_os_error(Error::last_os_error()), <const>) && Lt(LSEEK, 0) => 0 | Le(0, LSEEK) => 1} | Lt(MAX, offset) => 0} | "
            "PassthroughFs::consume_cached_cookie(self, handle, offset) => 1}")
    tt = re.sub(r"k\([^)]*promoted\[\d+\]\)", "<const>", t).replace(R(v.call_expr(s_off[0]), b, v) if s_off else "?", "LSEEK")
    ctx.check(rule, "do_readdir/seek_ok", tt == want, "do_readdir: `seek_ok` is `%s`" % tt[:400], loc=b.loc(), detail=tt[:200])
    # all fd users act on the locked file's fd
    fd = "File::as_raw_fd(HandleData::get_file_mut(PassthroughFs::get_dirdata(self, handle, inode, O_RDONLY)?).1)"
    for c in seeks:
        ctx.check(rule, "do_readdir/fd@%s" % site(b, c, seeks + gds), R(v.call_args(c)[0], b) == fd, "do_readdir seeks a different fd than the locked one", loc=c.loc())
    for c in gds:
        a = [R(x, b) for x in v.call_args(c)]
        ctx.check(rule, "do_readdir/fd@%s" % site(b, c, seeks + gds), a[1] == fd and a[3] == "size",
                  "do_readdir: getdents64 must read at most `size` bytes from the locked fd (reads `%s` from `%s`)" % (a[3], a[1][:80]), loc=c.loc())
    # buffer capacity is `size`
    wc = [c for c in lc if c.name == "with_capacity"]
    ctx.check(rule, "do_readdir/buffer", len(wc) == 1 and R(v.call_args(wc[0])[0], b) == "size", "do_readdir's record buffer is not allocated with capacity `size`", loc=b.loc())
    # cache_cookie(handle, buf) after every getdents64, before the lock is released, before the first add_entry
    ca = [R(x, b) for x in v.call_args(cc)]
    ctx.check(rule, "do_readdir/cache-args", len(ca) == 3 and ca[1] == "handle",
              "do_readdir records the position for a different handle", loc=cc.loc())
    for c in gds:
        on_all = all_paths_through(b, c.bb, cc.bb)
        ctx.check(rule, "do_readdir/cache-after-getdents@%s" % site(b, c, seeks + gds), on_all,
                  "do_readdir: a successful path from getdents64 reaches the record walk without recording the new fd position", loc=c.loc())
    drops_after = [d for d in dr if b.dominates(cc.bb, d.bb)]
    drops_before = [d for d in dr if not b.dominates(cc.bb, d.bb) and b.can_reach(gf.bb, d.bb) and b.can_reach(d.bb, cc.bb)]
    ctx.check(rule, "do_readdir/cache-under-lock", bool(drops_after) and not drops_before, "do_readdir records the fd position after releasing the file lock", loc=cc.loc())
    ctx.check(rule, "do_readdir/walk-after-unlock", any(b.dominates(d.bb, cm.bb) for d in drops_after), "do_readdir calls the consumer while holding the file lock", loc=cm.loc())
    # size == 0: nothing
    g0 = [(R(x, b), l) for (x, l, u) in v.guards(gf.bb)]
    ctx.check(rule, "do_readdir/size0", ("Ne(0, size)", "otherwise") in g0, "do_readdir no longer answers size == 0 with an empty listing up front", loc=b.loc())

    fallback_scan(ctx, F, rule)
    # other position movers on a handle's fd
    movers = {}
    for k, x in sorted(F.fns.items()):
        if not k.startswith("passthrough::") or x.exp or "async_io" in k or "::tests::" in k:
            continue
        xv = None
        for c in live_calls(x):
            nm = c.name
            if not (c.fn or "").startswith("libc::"):
                continue
            if nm == "syscall":
                xv = xv or vf.VF(x, inline_depth=0)
                nm = R(xv.call_args(c)[0], x).replace("SYS_", "")
            if nm in ("lseek", "lseek64", "getdents64", "read", "write", "readv", "writev"):
                movers.setdefault(x.name if x.kind != "closure" else F.fns[x.owner].name, x)
    ctx.check(rule, "position-movers", set(movers) == {"do_readdir", "lseek"}, "functions moving a descriptor's file position: %s (reviewed set: do_readdir, lseek)" % sorted(movers))
    if "lseek" in movers:
        x = movers["lseek"]
        ctx.fn_seen(x)
        xv = vf.VF(x, inline_depth=0)
        ls = [c for c in live_calls(x) if c.name == "lseek"]
        inv = [c for c in live_calls(x) if c.name in ("remove_cookie", "consume_cached_cookie")]
        gfm = [c for c in live_calls(x) if c.name == "get_file_mut"]
        ok = len(ls) == 1 and len(gfm) == 1 and x.dominates(gfm[0].bb, ls[0].bb)
        ctx.check(rule, "lseek/under-lock", ok, "PassthroughFs::lseek moves the fd without holding the file lock", loc=x.loc())
        ok = bool(inv) and len(ls) == 1 and all(x.dominates(gfm[0].bb, c.bb) for c in inv) and any(x.dominates(c.bb, ls[0].bb) or all_paths_through(x, ls[0].bb, c.bb) for c in inv) \
            and all(R(xv.call_args(c)[1], x) == "handle" for c in inv)
        ctx.check(rule, "lseek/invalidates-cache", ok,
                  "PassthroughFs::lseek moves the handle's fd but leaves the cached directory position in place: a later READDIR resuming from the "
                  "cached cookie skips its lseek64 and lists from wherever LSEEK left the fd", loc=x.loc())
    # release drops the cached position
    b = F.method(PFS, "do_release")
    v = vf.VF(b, inline_depth=0)
    rc = [c for c in live_calls(b) if c.name == "remove_cookie"]
    rl = [c for c in live_calls(b) if c.name == "release"]
    ok = len(rc) == 1 and len(rl) == 1 and R(v.call_args(rc[0])[1], b) == "handle" and \
        [(R(x, b), l) for (x, l, u) in v.guards(rc[0].bb)] == [("discr(Result::branch(HandleMap::release(self.handle_map, handle, inode)))", 0)]
    ctx.check(rule, "release-drops-position", ok, "do_release must drop the handle's cached position whenever the handle is released (numbers are never reused, "
              "but a leftover entry is trusted by a new stream only if numbers were)", loc=b.loc())
    ctx.floor(rule, 25)


def strip_phi_same(v, call, idx, want):
    a = vf.strip_upd(v.call_args(call)[idx])
    if a[0] == "PHI":
        vals = set(R(vf.strip_upd(x), v.body) for (_, x) in a[2])
        return vals == {want}
    return R(a, v.body) == want


def site(b, c, group):
    g = sorted(group, key=lambda x: (x.bb,))
    return "%s#%d" % (c.name, g.index(c))


def local_named(b, name):
    for l in range(len(b.locals)):
        if b.local_name(l) == name:
            return l
    raise core.Anchor("variable %s in %s" % (name, b.name))


def all_paths_through(b, src, via):
    """Every path from src to a normal return that does not carry an error passes through `via` — approximated as:
    every return block reachable from src while avoiding `via` is reached only through a block that constructs an Err /
    propagates a residual."""
    reach = b.reach_set(src, avoid={via})
    for rb in b.return_blocks():
        if rb not in reach:
            continue
        # look for a witness path src -> rb avoiding via on which no error value is produced
        if _clean_path(b, src, rb, via):
            return False
    return True


def _clean_path(b, src, dst, via):
    """Is there a path src->dst avoiding `via` without passing an error-producing block?"""
    err = set()
    for bb in b.reachable():
        for c in b.calls():
            pass
    errblocks = set()
    for c in b.calls():
        if c.name in ("last_os_error", "from_residual", "from_raw_os_error", "einval", "ebadf", "enosys"):
            errblocks.add(c.bb)
    seen = {src}
    st = [src]
    while st:
        u = st.pop()
        if u == dst:
            return True
        for s in b.succ[u]:
            if s in seen or s == via or s in errblocks:
                continue
            seen.add(s)
            st.append(s)
    return False


# ---------------------------------------------------------------------------------------------------- R3
def r3_loop(ctx, F):
    rule = "R3-entry-loop"
    b = F.method(PFS, "do_readdir")
    v = vf.VF(b, inline_depth=0, opaque_loops=True)
    cm = [c for c in live_calls(b) if c.name == "call_mut"]
    if len(cm) != 1:
        raise core.Anchor("add_entry call in do_readdir")
    cm = cm[0]
    a = v.call_args(cm)
    tup = R(a[1], b, v).replace(NAME, "NAME").replace(REC, "REC")
    want = ("(DirEntry{ino: REC.d_ino, offset: REC.d_off, type_: REC.d_ty, name: CStr::to_bytes(bytes_to_cstr(NAME)?)}, "
            "BorrowedFd::as_raw_fd(HandleData::borrow_fd(PassthroughFs::get_dirdata(self, handle, inode, O_RDONLY)?)))")
    ctx.check(rule, "entry-fields", tup == want,
              "do_readdir hands the consumer `%s`; required `%s` (REC = the record at the walk position, NAME = its name bytes)" % (tup[:500], want), loc=cm.loc(), detail=tup[:200])
    g = [(R(x, b), l) for (x, l, u) in v.guards(cm.bb)]
    dot = ("impl [T]::starts_with(%s, k(api::vfs::CURRENT_DIR_CSTR))" % NAME, 0) in g
    dotdot = ("impl [T]::starts_with(%s, k(api::vfs::PARENT_DIR_CSTR))" % NAME, 0) in g
    ctx.check(rule, "dot-filter", dot and dotdot, "do_readdir delivers \".\" or \"..\" (no `name starts with \".\\0\" / \"..\\0\"` test on the way to the consumer)", loc=cm.loc())
    # the filter constants
    for nm, val in (("api::vfs::CURRENT_DIR_CSTR", [46, 0]), ("api::vfs::PARENT_DIR_CSTR", [46, 46, 0])):
        got = const_bytes(F, nm)
        ctx.check(rule, "const/" + nm.rsplit("::", 1)[-1], got == val, "%s is %r, required %r" % (nm, got, val))
    # loop-carried `rem`: initial = whole buffer, step = rem[d_reclen..]
    hs = [h for h in v.loop_headers() if b.dominates(h, cm.bb)]
    if not ctx.check(rule, "loop", len(hs) == 1, "do_readdir: the record walk is not a single loop around the consumer call", loc=b.loc()):
        return
    h = hs[0]
    ri, rs = v.loop_def(local_named(b, "rem"), h)
    st = [R(x, b, v) for (p, x) in rs]
    ctx.check(rule, "advance", st == ["Index::index(loop(rem), RangeFrom{start: %s.d_reclen})" % REC], "do_readdir advances by `%s`, required rem[d_reclen..]" % st, loc=b.loc())
    it = [R(x, b, v) for (p, x) in ri]
    ctx.check(rule, "starts-at-buffer", len(it) == 1 and it[0].startswith("Vec::index(") and it[0].endswith(", RangeFull)"), "do_readdir's walk does not start at the beginning of the buffer: %s" % [x[:80] for x in it], loc=b.loc())
    # `res`: filtered arm yields a non-zero Ok; Ok(0) leaves the loop; back edge only on Ok(non-zero)
    res = local_named_multi(b, "res")
    rl = [l for l in res if any(d[2] == "call" and d[4].name == "call_mut" for d in b.defs.get(l, []))]
    ok = False
    if rl:
        others = [d for d in b.defs[rl[0]] if d[2] == "assign"]
        ok = len(others) == 1 and R(v.rvalue(others[0][4], others[0][0], others[0][1]), b, v) in ("Ok(1)",)
        if not ok and len(others) == 1:
            t = R(v.rvalue(others[0][4], others[0][0], others[0][1]), b, v)
            m = re.match(r"Ok\((\d+)\)$", t)
            ok = bool(m) and int(m.group(1)) != 0
    ctx.check(rule, "skip-is-nonzero", ok, "do_readdir: skipping \".\"/\"..\" must yield Ok(non-zero), otherwise the walk stops at the first of them", loc=b.loc())
    # back-edge guards
    backs = [p for p in b.pred[h] if b.dominates(h, p) and p in b.reachable()]
    okb = len(backs) >= 1
    for p in backs:
        gg = [(R(x, b, v), l) for (x, l, u) in v.guards(p)]
        # on the back edge: discr(res)==Ok and payload != 0
        has_ok = any(t.startswith("discr(") and "call_mut" in t and l == 0 for (t, l) in gg)
        okb = okb and has_ok and nonzero_guard(gg)
    ctx.check(rule, "continue-only-on-nonzero", okb, "do_readdir continues the walk after the consumer returned Ok(0) or an error", loc=b.loc())
    # error arms: Err surfaces only when nothing was consumed
    err_first_only(ctx, F, rule)
    ctx.floor(rule, 9)


def err_first_only(ctx, F, rule):
    """PassthroughFs::do_readdir reports the consumer's error only when no record was delivered before it: otherwise the client gets an
    error although entries (and, for readdirplus, their lookup references) were already handed out."""
    b = F.method(PFS, "do_readdir")
    v = vf.VF(b, inline_depth=0, opaque_loops=True)
    cm = [c for c in live_calls(b) if c.name == "call_mut"]
    hs = [h for h in v.loop_headers() if cm and b.dominates(h, cm[0].bb)]
    rt = R(v.ret(), b, v)
    ok = len(hs) == 1 and ("Eq(impl [T]::len(loop(rem)), impl [T]::len(" in rt or "Eq(impl [T]::len(" in rt and "orig" in rt or _err_guard(b, v, hs[0]))
    ctx.check(rule, "error-only-if-first", ok,
              "do_readdir: an error from the consumer must surface only when no record was delivered before it", loc=b.loc())
    # polarity: inside the record loop `Err` is returned exactly under `rem.len() == <length before the first record>`, and the
    # complementary arm returns Ok(())
    if len(hs) == 1:
        errs, oks = [], []
        for bb in sorted(b.reachable()):
            if not b.dominates(hs[0], bb):
                continue
            for s_ in b.stmts(bb):
                if s_[0] == "=" and s_[1] == [0] and s_[2][0] == "agg" and isinstance(s_[2][1], dict) and s_[2][1].get("variant") in ("Ok", "Err"):
                    g = [(R(x, b, v), l) for (x, l, u) in v.guards(bb)]
                    same = [(t, l) for (t, l) in g if t.startswith(("Eq(impl [T]::len(", "Ne(impl [T]::len(")) and "impl [T]::len(loop(rem))" in t]
                    (errs if s_[2][1]["variant"] == "Err" else oks).append(same)
        eok = len(errs) == 1 and any((t.startswith("Eq(") and l != 0) or (t.startswith("Ne(") and l == 0) for (t, l) in errs[0])
        ook = any(any((t.startswith("Ne(") and l != 0) or (t.startswith("Eq(") and l == 0) for (t, l) in o) for o in oks)
        ctx.check(rule, "error-only-if-first/polarity", eok and ook,
                  "do_readdir returns the consumer's error under %s and Ok under %s: the error may surface only while nothing was delivered (rem.len() == original length)"
                  % ([[(t[:40], l) for (t, l) in e] for e in errs], [[(t[:40], l) for (t, l) in o] for o in oks if o]), loc=b.loc())


def nonzero_guard(gg):
    """Among edge guards (text, label): one that establishes `consumer's Ok payload != 0`."""
    for (t, l) in gg:
        if "call_mut" not in t or t.startswith("discr("):
            continue
        if l == "otherwise" and not t.startswith(("Eq(", "Ne(", "Gt(", "Lt(", "Ge(", "Le(")):
            return True          # match on the payload: `0 => stop, _ => continue`
        if t.startswith("Ne(0, ") and l == "otherwise":
            return True
        if t.startswith(("Lt(0, ", "Le(1, ")) and l == "otherwise":
            return True
    return False


def _err_guard(b, v, h):
    """a return block inside the loop region guarded by rem.len() == orig_rem_len carries the error; the other one returns Ok(())"""
    n = 0
    for bb in b.reachable():
        if not b.dominates(h, bb):
            continue
        for (x, l, u) in v.guards(bb):
            t = R(x, b, v)
            if t.startswith("Eq(impl [T]::len(loop(rem)), impl [T]::len(Vec::index(") or (t.startswith("Eq(impl [T]::len(Vec::index(") and "impl [T]::len(loop(rem))" in t):
                n += 1
    return n > 0


def local_named_multi(b, name):
    return [l for l in range(len(b.locals)) if b.local_name(l) == name]


def const_bytes(F, key):
    c = F.consts.get(key)
    if c is None:
        raise core.Anchor("constant %s" % key)
    return c.get("bytes")


def bytes_of(x):
    if isinstance(x, list):
        return x
    if isinstance(x, str):
        try:
            return list(bytes.fromhex(x))
        except ValueError:
            return [ord(c) for c in x]
    if isinstance(x, dict):
        for k in ("bytes", "v", "pv"):
            if k in x:
                return bytes_of(x[k])
    return x


# ---------------------------------------------------------------------------------------------------- R4
def r4_pseudo(ctx, F):
    rule = "R4-pseudo-offsets"
    b = F.method(PSEUDO, "do_readdir")
    ctx.fn_seen(b)
    v = vf.VF(b, inline_depth=0, opaque_loops=True)
    cm = [c for c in live_calls(b) if c.name == "call_mut"]
    if len(cm) != 1:
        raise core.Anchor("add_entry call in PseudoFs::do_readdir")
    cm = cm[0]
    agg = v.call_args(cm)[1]
    de = None
    for x in vf.walk(agg):
        if x[0] == "A" and x[1].endswith("DirEntry"):
            de = x
    if de is None:
        raise core.Anchor("DirEntry literal in PseudoFs::do_readdir")
    fields = dict(de[3])
    off = fields["offset"]
    hs = [h for h in v.loop_headers() if b.dominates(h, cm.bb)]
    if not ctx.check(rule, "loop", len(hs) == 1, "PseudoFs::do_readdir: the child walk is not a single loop", loc=b.loc()):
        return
    h = hs[0]
    children = "ArcSwapAny::load(Option::ok_or_else(HashMap::get(ArcSwapAny::load(self.inodes), parent), closure({closure#0}))?.children)"
    shape = None
    if off[0] == "LOOP":
        oi, os_ = v.loop_def(off[1], h)
        ii = sorted(R(x, b, v) for (p, x) in oi)
        ss = sorted(R(x, b, v) for (p, x) in os_)
        shape = "counter init=%s step=%s" % (ii, ss)
        ok = ii in (["Add(1, offset)"], ["Add(offset, 1)"]) and ss in (["Add(1, loop(%s))" % b.local_name(off[1])], ["Add(loop(%s), 1)" % b.local_name(off[1])])
    else:
        t = R(off, b, v)
        shape = t
        # offset + index + 1 with an enumerate() index
        ok = bool(re.fullmatch(r"Add\((1, Add\(offset, some\(Enumerate::next\(loop\(iter\)\)\)\.0\)|Add\(1, offset\), some\(Enumerate::next\(loop\(iter\)\)\)\.0|offset, Add\(1, some\(Enumerate::next\(loop\(iter\)\)\)\.0\))\)", t))
    ctx.check(rule, "absolute-offset", ok,
              "PseudoFs::do_readdir: the continuation offset of a child must be its absolute index + 1 (request offset + position in this chunk + 1); it is `%s`" % shape, loc=cm.loc(), detail=str(shape)[:200])
    # the walk starts at children[offset..]
    ix = [c for c in live_calls(b) if c.name == "index"]
    ok = len(ix) == 1 and [R(x, b, v) for x in v.call_args(ix[0])] == [children, "RangeFrom{start: offset}"]
    anchor_bb = ix[0].bb if ix else None
    if not ix:
        # `children.iter().skip(offset)` instead of `children[offset..].iter()`
        sk = [c for c in live_calls(b) if c.name == "skip" and (c.fn or "").endswith("Iterator::skip")]
        if len(sk) == 1:
            a_ = [R(x, b, v) for x in v.call_args(sk[0])]
            ok = a_ in (["impl [T]::iter(%s)" % children, "offset"], ["impl [T]::iter(%s)" % children, "(offset as usize)"])
            anchor_bb = sk[0].bb
    ctx.check(rule, "starts-at-offset", ok, "PseudoFs::do_readdir does not walk children[offset..]", loc=b.loc())
    g = [(R(x, b, v), l) for (x, l, u) in v.guards(anchor_bb)] if anchor_bb is not None else []
    ctx.check(rule, "past-end-empty", (vf.neg_fact("Ge(offset, Vec::len(%s))" % children), "otherwise") in g, "PseudoFs::do_readdir: offsets at or past the end must give an empty listing", loc=b.loc())
    ctx.check(rule, "entry-fields", R(fields["ino"], b, v) in ("some(Iter::next(loop(iter))).ino", "some(Skip::next(loop(iter))).ino", "some(Iterator::next(loop(iter))).ino")
              and R(fields["name"], b, v) in ("String::as_bytes(some(Iter::next(loop(iter))).name)", "String::as_bytes(some(Skip::next(loop(iter))).name)", "String::as_bytes(some(Iterator::next(loop(iter))).name)")
              or ("Enumerate" in R(fields["ino"], b, v) and ".ino" in R(fields["ino"], b, v)),
              "PseudoFs::do_readdir: entry ino/name do not come from the child being walked (%s, %s)" % (R(fields["ino"], b, v)[:80], R(fields["name"], b, v)[:80]), loc=cm.loc())
    # stop on Ok(0): the counter steps / loop continues only on Ok(non-zero)
    backs = [p for p in b.pred[h] if b.dominates(h, p) and p in b.reachable()]
    okb = bool(backs)
    for p in backs:
        gg = [(R(x, b, v), l) for (x, l, u) in v.guards(p)]
        okb = okb and nonzero_guard(gg)
    ctx.check(rule, "continue-only-on-nonzero", okb, "PseudoFs::do_readdir continues after the consumer returned Ok(0)", loc=b.loc())
    # readdir / readdirplus of the pseudo fs go through do_readdir with (inode, size, offset)
    for nm in ("readdir", "readdirplus"):
        ms = [x for x in F.find(name=nm, self_adt=PSEUDO) if x.trait == common.FS_TRAIT]
        if len(ms) != 1:
            raise core.Anchor("PseudoFs::%s" % nm)
        m = ms[0]
        mv = vf.VF(m, inline_depth=0)
        dc = [c for c in live_calls(m) if c.name == "do_readdir"]
        ok = len(dc) == 1 and [R(x, m) for x in mv.call_args(dc[0])[1:4]] == ["parent", "size", "offset"] or \
            len(dc) == 1 and [R(x, m) for x in mv.call_args(dc[0])[1:4]] == ["inode", "size", "offset"]
        ctx.check(rule, "forward/" + nm, ok, "PseudoFs::%s does not forward (inode, size, offset) to do_readdir" % nm, loc=m.loc())
    ctx.floor(rule, 7)


# ---------------------------------------------------------------------------------------------------- R5
def r5_server(ctx, F):
    rule = "R5-server-binding"
    b = F.method(common.SERVER, "do_readdir")
    ctx.fn_seen(b)
    v = vf.VF(b, inline_depth=0)
    size = "Reader::read_obj<ReadIn>(ctx.r)?.size"
    offset = "Reader::read_obj<ReadIn>(ctx.r)?.offset"
    calls = {nm: [c for c in live_calls(b) if c.name == nm and c.trait == common.FS_TRAIT] for nm in ("readdir", "readdirplus")}
    for nm in ("readdir", "readdirplus"):
        if not ctx.check(rule, nm + "/site", len(calls[nm]) == 1, "Server::do_readdir has %d fs.%s calls" % (len(calls[nm]), nm), loc=b.loc()):
            continue
        c = calls[nm][0]
        a = [R(x, b) for x in v.call_args(c)]
        ctx.check(rule, nm + "/args", a[3:6] == ["Reader::read_obj<ReadIn>(ctx.r)?.fh", size, offset], "Server::do_readdir passes (%s) as (handle, size, offset) to fs.%s" % (", ".join(a[3:6]), nm), loc=c.loc())
        g = [(R(x, b), l) for (x, l, u) in v.guards(c.bb)]
        ctx.check(rule, nm + "/enomem-gate", (vf.neg_fact("Lt(Writer::available_bytes(ctx.w), %s)" % size), "otherwise") in g, "Server::do_readdir calls fs.%s although the reply buffer is smaller than `size`" % nm, loc=c.loc())
        ctx.check(rule, nm + "/plus-flag", ("plus", "otherwise" if nm == "readdirplus" else 0) in g, "Server::do_readdir: fs.%s is on the wrong arm of `plus`" % nm, loc=c.loc())
    cl = {R(vf.VF(c, inline_depth=0).ret(), c) for c in F.closures_of(b.key) if [x for x in live_calls(c) if x.name == "add_dirent"]}
    ctx.check(rule, "closures", cl == {"sync_io::add_dirent(^cursor, ^size, d, Some(e))", "sync_io::add_dirent(^cursor, ^size, d, None)"},
              "Server::do_readdir's consumers are %s; required add_dirent(cursor, size, d, Some(e)) for plus and add_dirent(cursor, size, d, None) otherwise" % sorted(cl), loc=b.loc())
    # which closure goes to which call
    for nm, want in (("readdirplus", "Some(e)"), ("readdir", "None")):
        if len(calls[nm]) != 1:
            continue
        a = v.call_args(calls[nm][0])[6]
        cid = [x for x in vf.walk(a) if x[0] == "CL"]
        ok = False
        if cid:
            cb = F.fns.get(cid[0][1])
            ok = cb is not None and R(vf.VF(cb, inline_depth=0).ret(), cb).endswith(", %s)" % want)
        ctx.check(rule, nm + "/consumer", ok, "Server::do_readdir gives fs.%s the wrong consumer" % nm, loc=calls[nm][0].loc())
    sp = [c for c in live_calls(b) if c.name == "split_at"]
    ok = len(sp) == 1 and [R(x, b) for x in v.call_args(sp[0])] == ["ctx.w", "size_of<OutHeader>"]
    ctx.check(rule, "cursor-after-header", ok, "Server::do_readdir: the entry cursor must start right after the reply header", loc=b.loc())
    wa = [c for c in live_calls(b) if c.name == "write_all"]
    ok = len(wa) == 1 and R(v.call_args(wa[0])[1], b) == "ByteValued::as_slice(OutHeader{len: Add(Writer::bytes_written(Writer::split_at(ctx.w, size_of<OutHeader>)?), size_of<OutHeader>), error: 0, unique: SrvContext::unique(ctx)})"
    ctx.check(rule, "header-len", ok, "Server::do_readdir: the reply header must announce size_of(OutHeader) + bytes written by the cursor", loc=b.loc())
    ctx.floor(rule, 12)


# ---------------------------------------------------------------------------------------------------- R7
def r7_wrappers(ctx, F):
    rule = "R7-wrappers"
    n = 0
    # the passthrough closures look an entry up under its complete name: the slice handed to CStr covers name.len() + 1 bytes (the
    # terminating NUL do_readdir left in place); one byte less makes CStr drop the name's last character
    for nm in ("readdir", "readdirplus"):
        ms = [x for x in F.find(name=nm, self_adt=PFS) if x.trait == common.FS_TRAIT]
        for cl in (F.closures_of(ms[0].key) if len(ms) == 1 else []):
            cv = vf.VF(cl, inline_depth=0)
            for c in live_calls(cl):
                if c.name == "do_lookup":
                    a = [R(x, cl, cv) for x in cv.call_args(c)]
                    ctx.check(rule, "PassthroughFs::%s/lookup-name" % nm,
                              a[1:] == ["^inode", "CStr::from_bytes_with_nul_unchecked(slice::from_raw_parts(dir_entry.name[], Add(1, impl [T]::len(dir_entry.name))))"],
                              "PassthroughFs::%s looks the listed entry up as do_lookup(%s); required (the listed directory, the entry's name including its NUL: len + 1 bytes)" % (nm, ", ".join(a[1:])[:200]), loc=c.loc())
    for layer, adt in (("Vfs", VFS), ("PassthroughFs", PFS)):
        for nm in ("readdir", "readdirplus"):
            ms = [x for x in F.find(name=nm, self_adt=adt) if x.trait == common.FS_TRAIT]
            if len(ms) != 1:
                raise core.Anchor("%s::%s" % (layer, nm))
            m = ms[0]
            ctx.fn_seen(m)
            mv = vf.VF(m, inline_depth=0)
            # forwarding of size / offset / handle
            for c in live_calls(m):
                if c.name in ("readdir", "readdirplus", "do_readdir"):
                    a = [R(x, m) for x in mv.call_args(c)]
                    ok = "size" in a and "offset" in a and "handle" in a and a.index("handle") < a.index("size") < a.index("offset")
                    ctx.check(rule, "%s::%s/forward@%d" % (layer, nm, n_site(m, c)), ok, "%s::%s does not forward (handle, size, offset) unchanged: %s" % (layer, nm, a[1:6]), loc=c.loc())
            for cb in F.closures_of(m.key):
                cv = vf.VF(cb, inline_depth=0)
                cms = [c for c in live_calls(cb) if c.name == "call_mut"]
                key = "%s::%s/%s" % (layer, nm, cb.key.rsplit("::", 1)[-1])
                if not ctx.check(rule, key + "/one-consumer-call", len(cms) == 1, "%s calls the consumer %d times per entry" % (key, len(cms)), loc=cb.loc()):
                    continue
                n += 1
                arg = cv.call_args(cms[0])[1]
                de = tuple_field(arg, 0)
                ok = only_updates(de, ("P", 2), {("ino",)})
                ctx.check(rule, key + "/entry-unchanged", ok,
                          "%s: the directory entry handed on is `%s`; only its inode number may be rewritten (name, type and continuation offset pass through)" % (key, R(de, cb, cv)[:200]),
                          loc=cms[0].loc(), detail=R(de, cb, cv)[:160])
                # the closure's result on the delivering path is the consumer's result
                rt = cv.ret()
                ce = cv.call_expr(cms[0])
                ok = rt == ce or (rt[0] == "PHI" and any(x == ce for (_, x) in rt[2]) and all(x == ce or is_err(x) for (_, x) in rt[2])) or _ret_is(cv, cb, ce)
                ctx.check(rule, key + "/result-passthrough", ok, "%s does not return the consumer's result (Ok(0) must stop the producer): returns `%s`" % (key, R(rt, cb, cv)[:200]), loc=cb.loc())
    ctx.check(rule, "count", n >= 6, "only %d wrapper closures analysed" % n)


def _ret_is(cv, cb, ce):
    rt = vf.strip_upd(cv.ret())
    for x in vf.walk(rt):
        pass
    if rt[0] == "PHI":
        vals = [vf.strip_upd(x) for (_, x) in rt[2]]
        flat = []
        for x in vals:
            if x[0] == "PHI":
                flat += [vf.strip_upd(y) for (_, y) in x[2]]
            else:
                flat.append(x)
        return any(x == ce for x in flat) and all(x == ce or is_err(x) for x in flat)
    return rt == ce


def is_err(x):
    if x[0] == "C" and x[1] and str(x[1]).endswith("from_residual"):
        return True
    t = json.dumps(x)
    return "from_residual" in t[:200]


def n_site(m, c):
    cs = [x for x in live_calls(m) if x.name == c.name]
    return cs.index(c)


def tuple_field(arg, i):
    a = arg
    if a[0] == "T":
        return a[1][i]
    if a[0] == "A" and len(a) > 3:
        return a[3][i][1] if isinstance(a[3][i], tuple) and len(a[3][i]) == 2 else a[3][i]
    return a


def only_updates(e, base, allowed):
    """e is `base` with updates only at the allowed paths (PHI arms each satisfy this)."""
    if e == base:
        return True
    if e[0] == "PHI":
        return all(only_updates(x, base, allowed) for (_, x) in e[2])
    if e[0] == "UPD":
        path = tuple(e[2]) if isinstance(e[2], (list, tuple)) else (e[2],)
        return path in allowed and only_updates(e[1], base, allowed)
    if e[0] == "WITH":
        path = tuple(e[2]) if isinstance(e[2], (list, tuple)) else (e[2],)
        return path in allowed and only_updates(e[1], base, allowed)
    return False


META = {
    "technique": "MIR value-flow with symbolic loop-carried variables (initial/step), dominance and all-paths rules for the position-cache protocol, "
                 "who-may-touch rules for the cache and for fd-position movers, shared dirent-accounting and reference-pairing rules",
    "text": "Decides structural necessary conditions: add_dirent's gate covers the padded record; the position cache is consumed unconditionally "
            "under the file lock before the fd is used and refreshed after every getdents64 before unlocking; every other position mover "
            "invalidates it; record walk fields, dot filter (non-zero skip), advance by d_reclen, stop on Ok(0), error only if first; pseudo fs "
            "absolute offsets; server binds add_dirent's limit to the request's size behind the ENOMEM gate; wrappers rewrite only the inode number and pass results through.",
    "note": "Not decided: the behaviour of the host's getdents64/lseek cookies, concurrent modification of the directory, and the end-to-end "
            "reassembly over all buffer sizes (run-time quantities).",
}
META["text"] += " " + "Also: the rewind-and-scan fallback loop's exits, polarity of error-only-if-first, the negotiated opendir mode per layer (C12.R5)."
