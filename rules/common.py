"""Shared helpers for the server-side rules (C01, C02, C03, C12, C20)."""
from pyfbr import core, vf

FS_TRAIT = "api::filesystem::sync_io::FileSystem"
AFS_TRAIT = "api::filesystem::async_io::AsyncFileSystem"
SERVER = "api::server::Server"
SRVCTX = "api::server::SrvContext"


import re as _re
_LOG_TEXT = _re.compile(r"PartialOrd::le\((Error|Warn|Info|Debug|Trace)\b|log::|max_level")


def is_log_text(t):
    """a condition or value that belongs to the `log` macros' level test: logging is not behaviour any property speaks about"""
    return bool(_LOG_TEXT.search(t))


def is_log_call(c):
    """a call emitted by the expansion of a `log` macro (level test, format arguments, the log call itself)"""
    if not c.exp:
        return False
    k = c.res or c.fn or ""
    if k.startswith("log::") or k.startswith("core::fmt::") or k.startswith("std::fmt::"):
        return True
    return c.name == "le" and any("log::Level" in (s or "") for s in (c.substs or []))


def is_k_opcode(e):
    """('K', v, ty, 'abi::fuse_abi::Opcode::X::{{constant}}') -> X"""
    if e[0] == "CAST":
        e = e[1]
    if e[0] == "K" and e[3] and "::Opcode::" in e[3]:
        sp = vf.split_path(e[3])
        return sp[-2] if sp[-1] == "{{constant}}" else sp[-1]
    return None


def is_opcode_field(e):
    """expression denotes the request header's opcode field"""
    return e[0] == "F" and e[2] == "opcode"


def opcode_guards(v, bb):
    """Opcodes X such that bb is only reached on the true edge of `opcode == X`;
    and the list of opcodes excluded (false edges)."""
    pos, neg = [], []
    for (cond, lab, u) in v.guards(bb):
        if cond[0] == "B" and cond[1] in ("Eq", "Ne"):
            a, b = cond[2], cond[3]
            op = is_k_opcode(a) or is_k_opcode(b)
            fld = is_opcode_field(a) or is_opcode_field(b)
            if op and fld:
                truth = (lab != 0)
                if cond[1] == "Ne":
                    truth = not truth
                (pos if truth else neg).append(op)
    return pos, neg


def dispatch_table(F, fn_name="handle_message", built=False):
    """{opcode: [(handler_name, Call)]} for Server::handle_message (or the async one)."""
    if built:
        cands = [b for k, b in F.built.items() if b.raw.get("owner", "").endswith("::" + fn_name)]
        if len(cands) != 1:
            raise core.Anchor("coroutine body of %s (%d candidates)" % (fn_name, len(cands)))
        b = cands[0]
    else:
        b = F.method(SERVER, fn_name)
    v = vf.VF(b)
    table = {}
    others = []
    for c in b.calls():
        if c.bb not in b.reachable() or b.is_cleanup(c.bb):
            continue
        if c.self_adt != SERVER and not (c.fn or "").startswith("api::server::"):
            continue
        if c.self_adt != SERVER:
            continue
        pos, neg = opcode_guards(v, c.bb)
        if pos:
            table.setdefault(pos[-1], []).append((c.name, c))
        else:
            others.append(c)
    return b, v, table, others


def handler_bodies(F):
    """All Server methods taking a SrvContext by value (the per-opcode handlers)."""
    out = []
    for b in F.fns.values():
        if b.self_adt == SERVER and b.kind == "assoc" and b.argc >= 2:
            t = b.local_ty(2)
            if t.startswith("api::server::SrvContext<"):
                out.append(b)
    return out


def request_roots(v, body):
    """[(expr, name)] naming the decoded request structs: ok(read_obj<T>(..)) -> T,
    ctx.in_header -> Hdr, ctx.context -> Ctx."""
    roots = []
    seen = {}
    for c in body.calls():
        if c.name == "read_obj" and c.bb in body.reachable() and not body.is_cleanup(c.bb):
            ty = vf.shortty(c.substs[-1]) if c.substs else "?"
            e = v.call_expr(c)
            ok = vf.field(("V", e, "Ok"), "0", 0)
            n = seen.get(ty, 0)
            seen[ty] = n + 1
            roots.append((ok, ty if n == 0 else "%s#%d" % (ty, n + 1)))
    return roots


def ctx_roots(body):
    """Name the SrvContext parameter's parts."""
    roots = []
    for i in range(1, body.argc + 1):
        if body.local_ty(i).startswith("api::server::SrvContext<"):
            p = ("P", i)
            roots.append((("F", ("F", p, "in_header"), "nodeid"), "Hdr.nodeid"))
            roots.append((("F", ("F", p, "in_header"), "unique"), "Hdr.unique"))
            roots.append((("F", p, "in_header"), "Hdr"))
            roots.append((("F", p, "context"), "Ctx"))
    return roots


def fs_calls(body, trait=FS_TRAIT):
    return [c for c in body.calls() if c.trait == trait and c.bb in body.reachable()
            and not body.is_cleanup(c.bb)]
