"""C13 — wire structures and constants match the kernel's FUSE ABI (decided completely).

R1 layouts, R2 constants: rustc layout/const-eval facts against the vendored linux/fuse.h, as
    _Static_assert obligations checked by a C front end (clang -fsyntax-only).
R3 total opcode map: read from the MIR SwitchInt of <Opcode as From<u32>>::from.
R4 conversions: field-to-field value-flow of the stat conversions.
R5 repr(C), no implicit padding.
R4 (cont.) Entry -> EntryOut; R4-dirent (shared with C03.R4) the computed fuse_dirent(plus) record layout; R3-layout (shared with C12.R3) fuse_init_out size per client minor version
"""
import json
import os
import re
import shutil
import subprocess

from pyfbr import core, vf

VERIF = core.VERIF
HDR = os.path.join(VERIF, "abi", "fuse.h")
AUX = os.path.join(VERIF, "abi", "fuse_aux.h")
TABLE = os.path.join(VERIF, "tables", "abi_names.json")
MODS = ("abi::fuse_abi::", "abi::virtio_fs::")


def snake(name):
    s = re.sub(r"(?<=[a-z0-9])([A-Z])", r"_\1", name.replace("_", ""))
    return s.lower()


def upper_snake(name):
    return re.sub(r"(?<=[a-z0-9])([A-Z])", r"_\1", name).upper()


def header_names():
    txt = open(HDR).read() + "\n" + open(AUX).read()
    txt = re.sub(r"/\*.*?\*/", "", txt, flags=re.S)
    macros = set(re.findall(r"^\s*#\s*define\s+([A-Za-z_][A-Za-z0-9_]*)", txt, flags=re.M))
    enums = set()
    for m in re.finditer(r"enum\s+\w+\s*\{(.*?)\}", txt, flags=re.S):
        for n in re.findall(r"([A-Z_][A-Z0-9_]*)\s*(?:=[^,}]*)?(?:,|$)", m.group(1), flags=re.M):
            enums.add(n)
    structs = {}
    for m in re.finditer(r"struct\s+(\w+)\s*\{(.*?)\n\};", txt, flags=re.S):
        fields = []
        for line in m.group(2).split(";"):
            line = line.strip()
            if not line:
                continue
            mm = re.match(r"(?:struct\s+)?[\w\s]+?\s+\**(\w+)\s*(\[[^\]]*\])?$", line, flags=re.S)
            if mm:
                fields.append((mm.group(1), mm.group(2)))
        structs[m.group(1)] = fields
    return macros | enums, structs


class Asserts:
    def __init__(self):
        self.lines = ['#include "fuse.h"', '#include "fuse_aux.h"', "#include <stddef.h>"]
        self.keys = {}

    def add(self, key, expr, what):
        self.lines.append('_Static_assert(%s, "%s");' % (expr, key))
        self.keys[len(self.lines)] = (key, expr, what)

    def run(self, ctx, workdir):
        os.makedirs(workdir, exist_ok=True)
        src = os.path.join(workdir, "c13_asserts.c")
        open(src, "w").write("\n".join(self.lines) + "\n")
        cc = shutil.which("clang") or shutil.which("clang-14") or shutil.which("gcc")
        if not cc:
            raise core.Anchor("no C front end (clang/gcc) found")
        cmd = [cc, "-fsyntax-only", "-std=c11", "-I", os.path.join(VERIF, "abi"), src]
        if "clang" in cc:
            cmd.insert(1, "-ferror-limit=0")
        else:
            cmd.insert(1, "-fmax-errors=0")
        p = subprocess.run(cmd, stdout=subprocess.PIPE, stderr=subprocess.STDOUT, text=True)
        failed = {}
        stray = []
        for line in p.stdout.splitlines():
            m = re.match(r"%s:(\d+):\d+: (?:fatal )?error: (.*)" % re.escape(src), line)
            if m:
                ln = int(m.group(1))
                if ln in self.keys:
                    failed.setdefault(ln, m.group(2))
                else:
                    stray.append(line)
            elif re.search(r"\berror\b", line) and not line.startswith(" "):
                stray.append(line)
        if p.returncode != 0 and not failed and not stray:
            stray.append(p.stdout[-500:])
        return cc, " ".join(cmd), failed, stray


def run(ctx):
    ctx.level = "proof"
    ctx.explanation = (
        "Every #[repr(C)] wire struct and every opcode/flag constant of abi::fuse_abi and abi::virtio_fs "
        "is compared with the kernel's definition: rustc's layout_of/const-eval facts for the current tree "
        "are turned into _Static_assert(sizeof/offsetof/sizeof(member)/value) obligations against the vendored "
        "linux/fuse.h (7.38) plus an auxiliary header for newer or private items, discharged by a C front end. "
        "The opcode decoder's MIR switch is compared with the enum discriminants over the whole u32 range, and the "
        "stat conversions are checked field by field with value-flow.")
    F = ctx.facts("S")
    if F is None:
        F = ctx.facts("D")
    if F is None:
        return
    table = json.load(open(TABLE))
    names, cstructs = header_names()
    A = Asserts()
    ctx.run_rule("R1-layout", r1_layouts, F, table, names, cstructs, A)
    ctx.run_rule("R2-const", r2_consts, F, table, names, A)
    # discharge
    import tempfile
    os.makedirs(os.path.join(VERIF, ".cache"), exist_ok=True)
    workdir = tempfile.mkdtemp(prefix="c13-", dir=os.path.join(VERIF, ".cache"))     # private: checks may run concurrently
    try:
        cc, cmd, failed, stray = A.run(ctx, workdir)
    except core.Anchor as e:
        ctx.violation("R1-layout", "cc", str(e))
        cc, cmd, failed, stray = "", "", {}, []
    finally:
        shutil.rmtree(workdir, ignore_errors=True)
    n_ok = 0
    for ln, (key, expr, what) in sorted(A.keys.items()):
        rule = key.split("/", 1)[0]
        k = key.split("/", 1)[1]
        if ln in failed:
            ctx.violation(rule, k, "%s: kernel ABI disagrees: %s  (%s)" % (what, expr, failed[ln]),
                          loc=what_loc(F, k), assertion=expr)
        else:
            ctx.ok(rule, k, expr)
            n_ok += 1
    for s in stray:
        ctx.violation("R1-layout", "cc-unattributed", "C front end error not tied to an obligation: %s" % s)
    ctx.floor("R1-layout", 430)
    ctx.floor("R2-const", 180)
    ctx.run_rule("R3-opcode-map", r3_opcode_map, F)
    ctx.run_rule("R4-conv", r4_conversions, F, table)
    ctx.run_rule("R5-repr", r5_repr, F, table)
    # variable-size records and version-dependent reply sizes: the wire layout that is computed, not declared
    from rules import c03, c12
    vf.NOUPD[0] = True
    vf.NOCAST[0] = True
    try:
        ctx.run_rule("R4-dirent", c03.r4_dirent, F, json.load(open(c03.TABLE)))      # fuse_dirent(plus) record: header, name, 8-byte padding
    finally:
        vf.NOCAST[0] = False
    try:
        ctx.run_rule("R3-layout", c12.r3_layout, F, json.load(open(c12.TABLE)))     # fuse_init_out size per client minor version
    finally:
        vf.NOUPD[0] = False
    total = len(ctx.instances)
    bad = len([1 for i in ctx.instances if not i[2]])
    ctx.extra.update({
        "obligations": total,
        "discharged": total - bad,
        "checker_cmd": cmd or "clang -fsyntax-only",
        "trusted_base": ["rustc layout engine and const evaluator (nightly 1.97.0)", "clang front end",
                         "vendored linux/fuse.h 7.38 + abi/fuse_aux.h", "tables/abi_names.json (Rust name -> kernel name)"],
        "exhaustive": True,
    })
    ctx.assumptions += ["the vendored header is the kernel's ABI", "x86_64 host layout = target layout"]
    for ln in list(A.keys)[:6]:
        ctx.sample({"obligation": A.keys[ln][1], "for": A.keys[ln][2]})


def what_loc(F, k):
    name = k.split(".")[0].split("/")[-1]
    for pre in MODS:
        s = F.structs.get(pre + name)
        if s:
            return "%s:%s" % (s["file"], s["line"])
    return "src/abi/fuse_abi_linux.rs"


def wire_structs(F):
    bv = set(i.get("self_adt") for i in F.impls if (i.get("trait") or "").endswith("ByteValued"))
    out = []
    for k, s in F.structs.items():
        if k.startswith(MODS) and k in bv:
            out.append(s)
    return out


def r1_layouts(ctx, F, table, names, cstructs, A, select=None):
    tstructs = table["structs"]
    fields_map = table.get("fields", {})
    done = set()
    for s in wire_structs(F):
        name = s["key"].rsplit("::", 1)[-1]
        if select is not None and not select(name):
            continue
        ent = tstructs.get(name, {})
        if "none" in ent:
            ctx.ok("R1-layout", name + ".no-counterpart", ent["none"], nontrivial=False)
            continue
        cname = ent.get("c") or ("fuse_" + snake(name))
        kind = ent.get("kind", "exact")
        if cname not in cstructs:
            ctx.violation("R1-layout", name, "wire struct %s has no kernel counterpart struct %s in the header "
                          "and is not listed as having none" % (name, cname), loc="%s:%s" % (s["file"], s["line"]))
            continue
        if "size" not in s:
            ctx.violation("R1-layout", name, "no layout for %s" % name)
            continue
        base = 0
        if kind == "split":
            # this struct tiles the kernel struct starting at the end of its predecessors
            for prev in ent.get("after", []):
                ps = F.structs.get(s["key"].rsplit("::", 1)[0] + "::" + prev)
                if ps is None:
                    raise core.Anchor("split predecessor %s" % prev)
                base += ps["size"]
            if ent.get("last", False):
                A.add("R1-layout/%s.size" % name, "sizeof(struct %s) == %d" % (cname, base + s["size"]),
                      "%s (+predecessors) total size" % name)
        elif kind == "prefix":
            A.add("R1-layout/%s.size" % name, "%s == %d" % (ent["size_const"], s["size"]),
                  "%s is the leading %s bytes of struct %s" % (name, ent["size_const"], cname))
        else:
            A.add("R1-layout/%s.size" % name, "sizeof(struct %s) == %d" % (cname, s["size"]), "%s size" % name)
        covered = 0
        nmembers = 0
        for f in s["fields"]:
            cf = fields_map.get("%s.%s" % (name, f["name"]), f["name"])
            if isinstance(cf, list):
                # one Rust field spans several consecutive kernel members
                nmembers += len(cf)
                A.add("R1-layout/%s.%s.offset" % (name, f["name"]),
                      "offsetof(struct %s, %s) == %d" % (cname, cf[0], base + f["offset"]),
                      "%s.%s offset (spans %s)" % (name, f["name"], "+".join(cf)))
                A.add("R1-layout/%s.%s.width" % (name, f["name"]),
                      "offsetof(struct %s, %s) + sizeof(((struct %s *)0)->%s) == %d"
                      % (cname, cf[-1], cname, cf[-1], base + f["offset"] + f["size"]),
                      "%s.%s end (spans %s)" % (name, f["name"], "+".join(cf)))
                covered += f["size"]
                continue
            nmembers += 1
            A.add("R1-layout/%s.%s.offset" % (name, f["name"]),
                  "offsetof(struct %s, %s) == %d" % (cname, cf, base + f["offset"]),
                  "%s.%s offset" % (name, f["name"]))
            A.add("R1-layout/%s.%s.width" % (name, f["name"]),
                  "sizeof(((struct %s *)0)->%s) == %d" % (cname, cf, f["size"]),
                  "%s.%s width" % (name, f["name"]))
            covered += f["size"]
        # the Rust fields tile the struct: no field of the kernel struct is left out
        ctx.check("R1-layout", name + ".tiles", covered == s["size"],
                  "%s: fields cover %d of %d bytes (implicit padding or missing field)" % (name, covered, s["size"]),
                  loc="%s:%s" % (s["file"], s["line"]))
        if kind == "exact":
            # same number of members as the kernel struct (flexible array members excluded)
            cfields = [f for f in cstructs[cname] if f[1] != "[]"]
            ctx.check("R1-layout", name + ".members", len(cfields) == nmembers,
                      "%s covers %d members, struct %s has %d" % (name, nmembers, cname, len(cfields)),
                      loc="%s:%s" % (s["file"], s["line"]))
        done.add(name)
    ctx.extra["structs_checked"] = len(done)
    floor = 55 if select is None else 25
    if len(done) < floor:
        ctx.violation("R1-layout", "struct-floor", "only %d wire structs found (floor %d)" % (len(done), floor))


BITFLAG_PREFIX = {
    "SetattrValid": "FATTR_", "OpenOptions": "FOPEN_", "FsOptions": "FUSE_",
    "IoctlFlags": "FUSE_", "SetupmappingFlags": "FUSE_SETUPMAPPING_FLAG_",
}


def r2_consts(ctx, F, table, names, A):
    tconst = table["consts"]
    n = 0
    for k, c in sorted(F.consts.items()):
        if not k.startswith(MODS) or "v" not in c:
            continue
        short = k.split("::", 2)[2]          # e.g. FATTR_MODE  or <abi::fuse_abi::FsOptions>::ASYNC_READ
        m = re.match(r"<abi::\w+::(\w+)>::(\w+)$", short)
        if m:
            ty, nm = m.group(1), m.group(2)
            disp = "%s::%s" % (ty, nm)
            cands = [BITFLAG_PREFIX.get(ty, "FUSE_") + nm]
        elif "::" in short or "<" in short:
            continue
        else:
            disp = short
            cands = ["FUSE_" + short, short]
        ent = tconst.get(disp)
        if isinstance(ent, dict) and "none" in ent:
            ctx.ok("R2-const", disp + ".no-counterpart", ent["none"], nontrivial=False)
            continue
        if isinstance(ent, dict) and "expr" in ent:
            A.add("R2-const/%s" % disp, ent["expr"].replace("$V", "%dULL" % c["v"]), "%s (%s)" % (disp, ent.get("why", "")))
            n += 1
            continue
        if isinstance(ent, str):
            cands = [ent]
        cn = next((x for x in cands if x in names), None)
        if cn is None:
            ctx.violation("R2-const", disp, "constant %s = %s has no kernel counterpart (%s) and is not listed as private"
                          % (disp, c["v"], " / ".join(cands)), loc="%s:%s" % (c["file"], c["line"]))
            continue
        v = c["v"]
        if v < 0:
            A.add("R2-const/%s" % disp, "(long long)(%s) == %dLL" % (cn, v), "%s value" % disp)
        else:
            A.add("R2-const/%s" % disp, "(unsigned long long)(%s) == %dULL" % (cn, v), "%s value" % disp)
        n += 1
    # enum discriminants
    for ek, pre in (("abi::fuse_abi::Opcode", "FUSE_"), ("abi::fuse_abi::NotifyOpcode", "FUSE_NOTIFY_")):
        e = F.enums.get(ek)
        if e is None:
            raise core.Anchor(ek)
        en = ek.rsplit("::", 1)[-1]
        for v in e["variants"]:
            disp = "%s::%s" % (en, v["name"])
            ent = tconst.get(disp)
            if isinstance(ent, dict) and "none" in ent:
                ctx.ok("R2-const", disp + ".no-counterpart", ent["none"], nontrivial=False)
                continue
            cands = [ent] if isinstance(ent, str) else [pre + upper_snake(v["name"]), pre + v["name"].upper()]
            cn = next((x for x in cands if x in names), None)
            if cn is None:
                ctx.violation("R2-const", disp, "variant %s = %s has no kernel counterpart (%s)" % (disp, v["discr"], "/".join(cands)))
                continue
            A.add("R2-const/%s" % disp, "(unsigned long long)(%s) == %dULL" % (cn, v["discr"]), "%s value" % disp)
    # every kernel opcode the header knows is either an enum variant or listed as unsupported
    txt = re.sub(r"/\*.*?\*/", "", open(HDR).read(), flags=re.S)
    m = re.search(r"enum\s+fuse_opcode\s*\{(.*?)\}", txt, flags=re.S)
    kernel_ops = re.findall(r"(FUSE_[A-Z0-9_]+)\s*=", m.group(1))
    have = set()
    e = F.enums["abi::fuse_abi::Opcode"]
    for v in e["variants"]:
        ent = tconst.get("Opcode::%s" % v["name"])
        for cnd in ([ent] if isinstance(ent, str) else ["FUSE_" + upper_snake(v["name"]), "FUSE_" + v["name"].upper()]):
            have.add(cnd)
    for op in kernel_ops:
        if op in have:
            ctx.ok("R2-const", "kernel-op/" + op, "", nontrivial=False)
        elif op in table.get("unsupported_kernel_opcodes", {}):
            ctx.ok("R2-const", "kernel-op/" + op + ".unsupported", table["unsupported_kernel_opcodes"][op], nontrivial=False)
        else:
            ctx.violation("R2-const", "kernel-op/" + op, "kernel opcode %s has no Opcode variant and is not listed as unsupported" % op)


def r3_opcode_map(ctx, F):
    """<Opcode as From<u32>>::from: the switch maps each discriminant value to the variant with that
    discriminant and every other value to MaxOpcode."""
    cands = [b for b in F.fns.values() if b.name == "from" and b.self_adt == "abi::fuse_abi::Opcode"
             and (b.trait or "").endswith("From")]
    if len(cands) != 1:
        raise core.Anchor("<Opcode as From<u32>>::from (%d candidates)" % len(cands))
    b = cands[0]
    ctx.fn_seen(b)
    e = F.enums["abi::fuse_abi::Opcode"]
    by_val = {v["discr"]: v["name"] for v in e["variants"]}
    sw = [bb for bb in b.reachable() if b.term(bb)[0] == "switch"]
    if len(sw) != 1 or sw[0] != 0:
        ctx.violation("R3-opcode-map", "shape", "decoder is not a single switch on the argument: shape not recognised",
                      loc=b.loc())
        return
    t = b.term(0)
    v = vf.VF(b)
    disc = v.operand(t[1], 0, len(b.stmts(0)))
    ctx.check("R3-opcode-map", "scrutinee", disc == ("P", 1), "switch does not test the u32 argument", loc=b.loc())

    def variant_of(bb):
        # follow gotos to the return; value of _0 there
        seen = set()
        cur = bb
        while True:
            if cur in seen:
                return None
            seen.add(cur)
            tt = b.term(cur)
            if tt[0] == "goto":
                cur = tt[1]
                continue
            if tt[0] == "ret":
                r = v.local_at(0, cur, len(b.stmts(cur)))
                if r[0] == "PHI":
                    # value along this path: evaluate at the arm block
                    r = v.local_at(0, bb, len(b.stmts(bb)))
                if r[0] == "A":
                    return r[2]
                return None
            return None

    seen_vals = set()
    for (val, tgt) in [(a[0], a[1]) for a in t[2]]:
        var = variant_of(tgt)
        seen_vals.add(val)
        exp = by_val.get(val)
        if exp is None:
            ctx.violation("R3-opcode-map", "value-%d" % val, "number %d is decoded to %s but no variant has that value" % (val, var), loc=b.loc())
        elif exp in ("MaxOpcode",) or exp.endswith("BswapReserved"):
            ctx.check("R3-opcode-map", "value-%d" % val, var in (exp, "MaxOpcode"), "number %d decodes to %s, expected %s" % (val, var, exp), loc=b.loc())
        else:
            ctx.check("R3-opcode-map", "value-%d" % val, var == exp,
                      "number %d decodes to Opcode::%s but the variant with that value is Opcode::%s" % (val, var, exp), loc=b.loc())
    other = variant_of(t[3])
    ctx.check("R3-opcode-map", "otherwise", other == "MaxOpcode",
              "unlisted numbers decode to %s, not to the unsupported marker MaxOpcode" % other, loc=b.loc())
    # every real opcode is listed (a missing arm silently turns a supported opcode into 'unsupported')
    for val, name in sorted(by_val.items()):
        if name == "MaxOpcode" or name.endswith("BswapReserved"):
            continue
        ctx.check("R3-opcode-map", "listed-%s" % name, val in seen_vals,
                  "Opcode::%s (%d) is missing from the decoder and decodes to MaxOpcode" % (name, val), loc=b.loc())
    ctx.extra["opcode_range"] = "all 2^32 values: %d listed arms + otherwise" % len(seen_vals)


def _conv_fn(F, self_suffix, from_sub):
    out = []
    for b in F.fns.values():
        if b.name == "from" and (b.trait or "").endswith("From") and (b.self_ty or "").endswith(self_suffix) \
                and from_sub in b.key:
            out.append(b)
    return out


def r4_conversions(ctx, F, table, floor=True):
    conv = table["conversions"]
    for name, spec in sorted(conv.items()):
        b = None
        if spec.get("method"):
            b = F.method(spec["adt"], spec["method"])
        else:
            c = [x for x in F.fns.values() if x.name == "from" and (x.trait or "").endswith("From")
                 and (x.self_ty or "") == spec["self_ty"] and spec["from"] in x.key]
            if len(c) != 1:
                raise core.Anchor("conversion %s (%d candidates)" % (name, len(c)))
            b = c[0]
        ctx.fn_seen(b)
        v = vf.VF(b)
        r = v.ret()
        if r[0] != "A" and not (r[0] == "WITH" or r[0] == "UPD" or r[0] == "C"):
            pass
        got = flatten_struct(r)
        if got is None:
            ctx.violation("R4-conv", name, "shape not recognised: result is not a field-wise construction (%s)"
                          % vf.render(r, b, short=True)[:200], loc=b.loc())
            continue
        for fld, want in sorted(spec["fields"].items()):
            have = got.get(fld)
            txt = vf.render(strip(have), b, short=True) if have is not None else "<not set>"
            ok = vf.same_text(txt, want)
            ctx.check("R4-conv", "%s.%s" % (name, fld), ok,
                      "%s: field %s is fed from `%s`, the ABI conversion requires `%s`" % (name, fld, txt, want),
                      loc=b.loc(), detail=txt)
        for fld in got:
            if fld not in spec["fields"] and fld not in spec.get("ignore", []):
                ctx.violation("R4-conv", "%s.%s" % (name, fld), "%s: field %s is written but not in the conversion table" % (name, fld), loc=b.loc())
        ctx.sample({"conversion": name, "fields": {k: vf.render(strip(x), b, short=True) for k, x in list(got.items())[:4]}})
        if os.environ.get("FBR_DEBUG"):
            print(name, json.dumps({k: vf.render(strip(x), b, short=True) for k, x in got.items()}, indent=1))
    if floor:
        ctx.floor("R4-conv", 50)


def strip(e):
    return vf.strip_casts(e)


def layout_subset(ctx, F, select):
    """R1-layout restricted to the wire structs `select` accepts (shared with C03: reply structs)."""
    import tempfile
    table = json.load(open(TABLE))
    names, cstructs = header_names()
    A = Asserts()
    r1_layouts(ctx, F, table, names, cstructs, A, select=select)
    os.makedirs(os.path.join(VERIF, ".cache"), exist_ok=True)
    workdir = tempfile.mkdtemp(prefix="c13-", dir=os.path.join(VERIF, ".cache"))
    try:
        cc, cmd, failed, stray = A.run(ctx, workdir)
    finally:
        shutil.rmtree(workdir, ignore_errors=True)
    for ln, (key, expr, what) in sorted(A.keys.items()):
        rule, k = key.split("/", 1)
        if ln in failed:
            ctx.violation(rule, k, "%s: kernel ABI disagrees: %s  (%s)" % (what, expr, failed[ln]), loc=what_loc(F, k), assertion=expr)
        else:
            ctx.ok(rule, k, expr)
    for s_ in stray:
        ctx.violation("R1-layout", "cc-unattributed", "C front end error not tied to an obligation: %s" % s_)


def flatten_struct(e):
    """{field: expr} for a struct built as an aggregate and/or by field assignments on a default/zeroed value."""
    if e[0] == "A":
        return dict(e[3])
    if e[0] == "WITH":
        base = flatten_struct(e[1])
        if base is None:
            return None
        if len(e[2]) == 1:
            base[e[2][0]] = e[3]
        else:
            base[".".join(e[2])] = e[3]
        return base
    if e[0] == "C":
        # Default::default() / MaybeUninit::zeroed().assume_init()
        return {}
    if e[0] == "UPD":
        return flatten_struct(e[1])
    if e[0] == "F" or e[0] == "V":
        return {}
    return None


def r5_repr(ctx, F, table):
    for s in wire_structs(F):
        name = s["key"].rsplit("::", 1)[-1]
        ctx.check("R5-repr", name, s["repr_c"] and not s["repr_packed"],
                  "%s is a wire struct but is not plain #[repr(C)]" % name, loc="%s:%s" % (s["file"], s["line"]))


META = {
    "level": "proof",
    "technique": "layout/constant facts from rustc + _Static_assert witnesses against vendored linux/fuse.h; MIR switch range analysis; field value-flow",
    "text": "Complete static decision: every ByteValued wire struct's size, field offsets and widths, every opcode/notify/flag "
            "constant, the total opcode decoder (all 2^32 values by switch range) and the four stat conversions are compared "
            "with the kernel header on every run; ~1100 obligations, all must discharge.",
    "note": "Trusts rustc's layout/const evaluation, the clang front end, the vendored linux/fuse.h (7.38) + abi/fuse_aux.h "
            "(7.40 items, libfuse compat thresholds) and the Rust-name->kernel-name table; x86_64 layout only; macOS ABI out of scope.",
}
META["text"] += " " + 'Also: Entry->EntryOut, the computed dirent record layout (C03.R4), INIT reply size per minor (C12.R3).'
