"""C05 — passthrough requests have the effect and result of the same host system call (structural clauses only).

R1 operation -> system call table with argument provenance (directory descriptors, names, masks, flags)
R2 credentials: creating calls run while the caller's credentials are switched in (gid before uid), guards restore
R3 special files are never (re)opened for I/O: is_safe_inode gates every non-O_PATH open
R4 every libc result is tested and converted with last_os_error() on the failing edge
R5 flag algebra: writeback open flags, O_DIRECT handling, fd-flag refresh
R6 field-wise coherence: utimens slot selection in setattr, statx -> stat64 conversion, the CAP_FSETID guard
R4 (cont.) errno is read exactly on the failure edge (`res < 0`, `res != 0` for 0-on-success calls)
R2 (cont.) every switch site passes (ctx.uid, ctx.gid) in that order
R7 decision table in guard normal form: where CAP_FSETID is dropped, size probe vs value of the xattr getters, access() permission paths, open options per cache policy, the xattr configuration switch
R8 toggle use: request handlers read the negotiated mode, never the configured value (shared with C12)
R6 (cont.) do_lookup's Entry takes each validity from its own configured timeout; futimens/utimensat run exactly when ATIME or MTIME is requested
"""
import json
import os
import re

from pyfbr import core, vf
from rules import common
from rules import c08

PFS = c08.PFS
TABLE = os.path.join(core.VERIF, "tables", "passthrough_ops.json")


def live_calls(b):
    r = b.reachable()
    return [c for c in b.calls() if c.bb in r and not b.is_cleanup(c.bb)]


def abbreviate(t):
    t = re.sub(r"InodeFile::as_raw_fd\(InodeData::get_file\(InodeMap::get\(self\.inode_map, (\w+)\)\?\)\?\)", r"fd(\1)", t)
    t = re.sub(r"CStr::as_ptr\(CStr::from_bytes_with_nul_unchecked\(k\(api::vfs::EMPTY_CSTR\)\)\)", "\"\"", t)
    t = re.sub(r"CStr::as_ptr\((\w+)\)", r"\1", t)
    t = re.sub(r"BorrowedFd::as_raw_fd\(HandleData::borrow_fd\(HandleMap::get\(self\.handle_map, (?:some\()?(\w+)\)?, (\w+)\)\?\)\)", r"hfd(\1,\2)", t)
    t = re.sub(r"BorrowedFd::as_raw_fd\(HandleData::borrow_fd\(PassthroughFs::get_data\(self, (\w+), (\w+), (\w+)\)\?\)\)", r"hfd(\1,\2)", t)
    return t


def syscalls_of(F, b):
    v = vf.VF(b, inline_depth=0)
    out = []
    for c in live_calls(b):
        if (c.fn or "").startswith("libc::") and c.name not in ("__errno_location",):
            a = [abbreviate(vf.render(x, b, short=True, vfx=v)) for x in v.call_args(c)]
            nm = c.name
            if nm == "syscall":
                nm = a[0]
                a = a[1:]
            out.append((nm, a, c))
    return out, v


def run(ctx):
    ctx.explanation = (
        "For every passthrough operation the system call(s) it issues and the provenance of each argument (which directory "
        "descriptor, which name, which mask/flag expression) are extracted by value-flow and compared with a hand-confirmed table; "
        "the credential guards' liveness across creating calls, the special-file gate in front of every non-O_PATH open, the "
        "error conversion of every libc result and the open-flag algebra are checked as dominance / value-flow rules.")
    F = ctx.facts("S") or ctx.facts("D")
    if F is None:
        return
    table = json.load(open(TABLE))
    vf.NOUPD[0] = True
    vf.NOCAST[0] = True
    try:
        ctx.run_rule("R1-syscall-table", r1_table, F, table)
        ctx.run_rule("R2-credentials", r2_creds, F)
        ctx.run_rule("R3-special-files", r3_special, F)
        ctx.run_rule("R4-error-conversion", r4_errors, F)
        ctx.run_rule("R6-field-coherence", r6_fields, F)
        ctx.run_rule("R7-decisions", r7_decisions, F, table)
        ctx.run_rule("R9-fd-lifetime", r9_fd_lifetime, F)
        from rules import c02
        fl_ = (vf.NOUPD[0], vf.NOCAST[0])
        ctx.run_rule("R8-conversions", c02.r8_conversions, F)        # SetattrIn -> stat64 feeds the attributes the setattr calls apply (shared with C02/C13)
        vf.NOUPD[0], vf.NOCAST[0] = fl_
        from rules import c12
        ctx.run_rule("R8-toggle-use", c12.configured_toggle_readers, F, "R8-toggle-use")      # handlers consult the negotiated mode (shared with C12)
        ctx.run_rule("R5-flag-algebra", r5_flags, F, table)
        A_ = ctx.facts("A", required=False)
        if A_ is not None:
            from rules import c20
            ctx.run_rule("R5-passthrough-delegation", c20.r5_pfs, A_)     # the async entry points hand the request's arguments to the sync ones unchanged
    finally:
        vf.NOUPD[0] = False
        vf.NOCAST[0] = False
    ctx.assumptions += ["equality of results with the host over request histories and the configuration matrix is not decided (run-time quantities)"]


def r1_table(ctx, F, table):
    rows = table["ops"]
    gen = {}
    for nm, exp in sorted(rows.items()):
        if nm.startswith("_"):
            continue
        owner = exp.get("in", nm)
        cands = [x for x in F.find(name=owner, self_adt=PFS) if x.kind == "assoc"]
        if exp.get("fn"):
            cands = [F.fn(exp["fn"])]
        if len(cands) != 1:
            raise core.Anchor("PassthroughFs::%s (%d)" % (owner, len(cands)))
        b = cands[0]
        ctx.fn_seen(b)
        sc, v = syscalls_of(F, b)
        got = [[n, a] for (n, a, c) in sc]
        gen[nm] = got
        want = exp["calls"]
        ctx.check("R1-syscall-table", nm + "/calls", [g[0] for g in got] == [w[0] for w in want],
                  "%s issues %s, the operation is served by %s" % (owner, [g[0] for g in got], [w[0] for w in want]), loc=b.loc())
        for (g, w, (n_, a_, c)) in zip(got, want, sc):
            if g[0] != w[0]:
                continue
            for k, (ga, wa) in enumerate(zip(g[1], w[1])):
                if wa == "*":
                    continue
                if wa.startswith("from:"):
                    ok = all(x.strip() in ga for x in wa[5:].split("&"))
                else:
                    ok = vf.same_text(ga, wa)
                ctx.check("R1-syscall-table", "%s/%s/arg%d" % (nm, g[0], k), ok,
                          "%s: argument %d of %s is `%s`, the operation requires `%s`" % (owner, k, g[0], ga[:200], wa), loc=c.loc(), detail=ga[:100])
            ctx.check("R1-syscall-table", "%s/%s/arity" % (nm, g[0]), len(g[1]) == len(w[1]), "%s: %s takes %d arguments, table has %d" % (owner, g[0], len(g[1]), len(w[1])), loc=c.loc())
    # unlink / rmdir pass the right flag to do_unlink
    for nm, flag in (("unlink", "0"), ("rmdir", "AT_REMOVEDIR")):
        m = c08.pfs_method(F, nm)
        v = vf.VF(m, inline_depth=0)
        du = [c for c in live_calls(m) if c.name == "do_unlink"]
        ok = len(du) == 1
        if ok:
            a = [vf.render(x, m, short=True) for x in v.call_args(du[0])]
            ok = a[1:] == ["parent", "name", flag]
        ctx.check("R1-syscall-table", nm + "/do_unlink", ok, "%s does not call do_unlink(parent, name, %s)" % (nm, flag), loc=m.loc())
    if os.environ.get("FBR_GEN"):
        print("OPS", json.dumps(gen, indent=1))
    ctx.floor("R1-syscall-table", 60)


def r2_creds(ctx, F):
    creating = {"mkdir": "mkdirat", "mknod": "mknodat", "symlink": "symlinkat", "create": "create_file_excl"}
    for nm, sc in creating.items():
        m = c08.pfs_method(F, nm)
        ctx.fn_seen(m)
        v = vf.VF(m, inline_depth=0)
        sets = [c for c in live_calls(m) if c.name == "set_creds"]
        calls = [c for c in live_calls(m) if c.name == sc]
        if not ctx.check("R2-credentials", nm + "/shape", len(calls) == 1 and len(sets) >= 1, "%s: %d creating calls, %d credential switches" % (nm, len(calls), len(sets)), loc=m.loc()):
            continue
        s = [x for x in sets if m.dominates(x.bb, calls[0].bb)]
        if not ctx.check("R2-credentials", nm + "/switched", len(s) == 1,
                         "%s creates the object without switching to the caller's credentials first: it would be owned by the server's user" % nm, loc=calls[0].loc()):
            continue
        a = [vf.render(x, m, short=True) for x in v.call_args(s[0])]
        ctx.check("R2-credentials", nm + "/caller-ids", a == ["ctx.uid", "ctx.gid"], "%s switches to (%s), not to the caller's (uid, gid)" % (nm, ", ".join(a)), loc=s[0].loc())
        # the guards returned by set_creds stay alive until after the creating call: no drop / storage end of the
        # locals holding them on any path between
        res_local = s[0].dest[0]
        holders = {res_local}
        # locals the tuple is moved into (the `(_uid, _gid)` pattern) up to the creating call
        region = m.reach_set(s[0].bb, avoid={calls[0].bb})
        for bb in region:
            for st in m.stmts(bb):
                if st[0] == "=" and st[2][0] == "use" and st[2][1][0] in ("m", "c") and st[2][1][1][0] in holders:
                    holders.add(st[1][0])
        early = False
        for bb in region:
            if not m.can_reach(bb, calls[0].bb):
                continue
            t = m.term(bb)
            if t[0] == "drop" and t[1][0] in holders and len(t[1]) == 1 and m.local_ty(t[1][0]).find("Scoped") >= 0:
                early = True
            for st in m.stmts(bb):
                if st[0] == "dead" and st[1] in holders and m.local_ty(st[1]).find("Scoped") >= 0 and m.names.get(st[1]):
                    early = True
        ctx.check("R2-credentials", nm + "/guards-live", not early, "%s drops the credential guards before the creating call" % nm, loc=calls[0].loc())
    # every credential switch in the passthrough (also those in closures, e.g. re-opening an existing file in create): the guards
    # must outlive the next operation after the switch -- `let _ = set_creds(..)?` would restore root before it
    nsites = 0
    for k, m in sorted(F.fns.items()):
        if not k.startswith("passthrough::") or m.exp or "::tests::" in k or m.name == "set_creds":
            continue
        for s0 in [c for c in live_calls(m) if c.name == "set_creds" and (c.fn or "").endswith("passthrough::set_creds")]:
            nsites += 1
            owner = m.name if m.kind != "closure" else F.fns[m.owner].name + "/closure"
            # the ids switched in are the caller's, uid as uid and gid as gid
            mv = vf.VF(m, inline_depth=0)
            ids = [vf.render(x, m, short=True) for x in mv.call_args(s0)]
            ctx.check("R2-credentials", "site/%s#%d/ids" % (owner, nsites), [re.sub(r"^\^", "", t) for t in ids] == ["ctx.uid", "ctx.gid"],
                      "%s switches to (%s): the request context's (uid, gid) are required, in that order" % (owner, ", ".join(ids)), loc=s0.loc())
            # the first operation performed under the switched credentials
            after = [c for c in live_calls(m) if c is not s0 and c.name not in ("branch", "from_residual") and m.dominates(s0.bb, c.bb) and c.bb != s0.bb]
            after.sort(key=lambda c: len(m.reach_set(s0.bb, avoid={c.bb})))
            if not ctx.check("R2-credentials", "site/%s#%d/protects" % (owner, nsites), bool(after), "%s switches credentials and then does nothing under them" % owner, loc=s0.loc()):
                continue
            p0 = after[0]
            holders = {s0.dest[0]}
            region = m.reach_set(s0.bb, avoid={p0.bb})
            changed = True
            while changed:
                changed = False
                for bb in region:
                    for st in m.stmts(bb):
                        if st[0] == "=" and st[2][0] == "use" and st[2][1][0] in ("m", "c") and st[2][1][1][0] in holders and st[1][0] not in holders:
                            holders.add(st[1][0])
                            changed = True
                    t = m.term(bb)
                    if t[0] == "call" and t[1]["dest"] and t[1]["dest"][0] not in holders and any(a[0] != "k" and a[1][0] in holders for a in t[1].get("args", [])) \
                            and m.call_at(bb) is not None and m.call_at(bb).name == "branch":
                        holders.add(t[1]["dest"][0])
                        changed = True
            early = False
            for bb in region:
                if not m.can_reach(bb, p0.bb):
                    continue
                t = m.term(bb)
                if t[0] == "drop" and t[1][0] in holders and "Scoped" in m.local_ty(t[1][0]) and "Result" not in m.local_ty(t[1][0]) and "ControlFlow" not in m.local_ty(t[1][0]):
                    early = True
            ctx.check("R2-credentials", "site/%s#%d/guards-live" % (owner, nsites), not early,
                      "%s drops the credential guards right after switching, before `%s` runs: the operation is performed with the server's credentials" % (owner, p0.name), loc=s0.loc())
    ctx.check("R2-credentials", "sites", nsites >= 5, "only %d credential switches found in the passthrough" % nsites)
    # set_creds: gid first, then uid; both with the given ids
    b = F.fn("passthrough::set_creds")
    ctx.fn_seen(b)
    v = vf.VF(b, inline_depth=0)
    g = [c for c in live_calls(b) if c.name == "new" and "ScopedGid" in (c.fn or "")]
    ok = len(g) == 1 and v.call_args(g[0])[0] == ("P", b.param_index("gid"))
    cl = F.closures_of(b.key)
    u = []
    for x in cl:
        xv = vf.VF(x, inline_depth=0)
        for c in live_calls(x):
            if c.name == "new" and "ScopedUid" in (c.fn or ""):
                u.append(vf.render(xv.call_args(c)[0], x, short=True))
    ctx.check("R2-credentials", "set_creds/order", ok and u == ["^uid"], "set_creds does not switch the gid first and then the uid (gid call ok=%s, uid switches in continuation: %s)" % (ok, u), loc=b.loc())
    # the switch happens for every caller: no shortcut depending on the other id
    early = [x for x in b.reachable() if b.term(x)[0] == "switch"]
    ctx.check("R2-credentials", "set_creds/no-shortcut", not early, "set_creds branches before switching credentials (a caller could keep the server's gid/uid)", loc=b.loc())
    # Scoped*: new() issues setres*id(-1, val, -1); drop() restores 0; None only for id 0
    for ty, sysno in (("ScopedUid", "SYS_setresuid"), ("ScopedGid", "SYS_setresgid")):
        nw = [x for x in F.fns.values() if x.name == "new" and (x.self_adt or "").endswith(ty)]
        dr = [x for x in F.fns.values() if x.name == "drop" and (x.self_adt or "").endswith(ty)]
        if len(nw) != 1 or len(dr) != 1:
            raise core.Anchor("%s::new/drop" % ty)
        sc, v = syscalls_of(F, nw[0])
        ctx.check("R2-credentials", ty + "/new", [(n, a) for (n, a, c) in sc] == [(sysno, ["-1", "val", "-1"])], "%s::new issues %s" % (ty, [(n, a) for (n, a, c) in sc]), loc=nw[0].loc())
        r = vf.render(v.ret(), nw[0], short=True, vfx=v)
        ctx.check("R2-credentials", ty + "/skip-only-root", "Eq(0, val) => Ok(None)" in r or "Eq(val, 0) => Ok(None)" in r, "%s::new skips the switch for ids other than 0" % ty, loc=nw[0].loc())
        sc, v = syscalls_of(F, dr[0])
        ctx.check("R2-credentials", ty + "/drop", [(n, a) for (n, a, c) in sc] == [(sysno, ["-1", "0", "-1"])], "%s::drop issues %s; it must switch back to 0" % (ty, [(n, a) for (n, a, c) in sc]), loc=dr[0].loc())
    # CapFsetid::drop raises the capability again; every drop_cap_fsetid() result is bound until after the guarded call
    cd = [x for x in F.fns.values() if x.name == "drop" and (x.self_adt or "").endswith("CapFsetid")]
    ok = len(cd) == 1 and any(c.name == "raise" for c in live_calls(cd[0]))
    ctx.check("R2-credentials", "CapFsetid/drop", ok, "CapFsetid::drop no longer raises CAP_FSETID", loc=cd[0].loc() if cd else "")


def r9_fd_lifetime(ctx, F):
    """A descriptor obtained with get_file() (an O_PATH fd, or under inode_file_handles a freshly opened one that closes when the
    value is dropped) stays alive until the system calls that use it - directly or through its /proc/self/fd path - have run: no
    drop of the holder may be followed by a libc call of the same function."""
    n = 0
    for k, b in sorted(F.fns.items()):
        if not k.startswith("passthrough::") or "async_io" in k:
            continue
        holders = [i for i in range(len(b.locals)) if "InodeFile" in b.local_ty(i) and not b.local_ty(i).startswith("&")
                   and "Result" not in b.local_ty(i) and "ControlFlow" not in b.local_ty(i)]
        if not holders:
            continue
        libc = [c for c in live_calls(b) if (c.fn or "").startswith("libc::") and c.name not in ("__errno_location", "close")]
        if not libc:
            continue
        n += 1
        drops = [bb for bb in b.reachable() if not b.is_cleanup(bb) and b.term(bb)[0] == "drop" and b.term(bb)[1][0] in holders and len(b.term(bb)[1]) == 1]
        bad = sorted(set(c.name for d in drops for c in libc if d != c.bb and b.can_reach(d, c.bb)))
        owner = b.name if b.kind != "closure" else F.fns[b.owner].name + "/closure"
        ctx.check("R9-fd-lifetime", owner, not bad, "%s drops the file it got from get_file() and calls %s afterwards: under inode_file_handles the descriptor "
                  "(and the /proc/self/fd path built from it) is closed by then" % (owner, bad), loc=b.loc())
    ctx.check("R9-fd-lifetime", "sites", n >= 10, "only %d functions holding an inode's file across system calls found" % n)


def decisions(F):
    """{site: sorted list of 'fact' / '!fact'} in guard normal form for the passthrough's request-dependent decisions."""
    got = {}

    def facts_at(b, v, bb, keep=lambda t: True):
        out = []
        for (x, l, u) in v.guards(bb):
            t = vf.render(x, b, short=True)
            if t.startswith("discr(") or not keep(t):
                continue
            out.append(t if l != 0 else "!" + t)
        return sorted(set(out))
    # 1. where CAP_FSETID is dropped (the kernel asked to kill suid/sgid and killpriv_v2 was negotiated)
    for k, b in sorted(F.fns.items()):
        if not k.startswith("passthrough::") or "async_io" in k:
            continue
        for c in live_calls(b):
            if c.name == "drop_cap_fsetid":
                v = vf.VF(b, inline_depth=0)
                owner = b.name if b.kind != "closure" else F.fns[b.owner].name      # (a closure counts with the function it lives in)
                got.setdefault("killpriv/" + owner, []).append([t.replace("^", "") for t in facts_at(b, v, c.bb)])
    # 2. size probe vs value for the xattr getters
    for nm in ("getxattr", "listxattr"):
        b = c08.pfs_method(F, nm)
        v = vf.VF(b, inline_depth=0)
        for bb in sorted(b.reachable()):
            for s in b.stmts(bb):
                if s[0] == "=" and s[2][0] == "agg" and isinstance(s[2][1], dict) and s[2][1].get("adt", "").endswith("xattrReply"):
                    got.setdefault("%s/%s" % (nm, s[2][1]["variant"]), []).append(facts_at(b, v, bb, lambda t: "size" in t and "libc::" not in t))
    # 3. the permission emulation of access()
    b = c08.pfs_method(F, "access")
    v = vf.VF(b, inline_depth=0)
    from rules import c18
    for c in live_calls(b):
        if c.name == "from_raw_os_error":
            got.setdefault("access/" + vf.render(v.call_args(c)[0], b, short=True), []).append(facts_at(b, v, c.bb))
            # the disjunctions (owner / group / other) are not dominating facts: record every path to the refusal
            paths = set()
            for pf in c18.path_facts(b, v, c.bb):
                paths.add(" & ".join(sorted(set((t if l != 0 else "!" + t) for (t, l) in pf if not t.startswith("discr(")))))
            got.setdefault("access-paths/" + vf.render(v.call_args(c)[0], b, short=True), []).append(sorted(paths))
    # 4. the open options by cache policy
    b = F.method(PFS, "do_open")
    v = vf.VF(b, inline_depth=0)
    r = v.ret()
    opts = None
    for x in vf.walk(r):
        if x[0] == "A" and x[2] == "Ok" and x[3] and x[3][0][1][0] == "ARR" if False else False:
            pass
    t = vf.render(r, b, short=True, vfx=v)
    m = re.search(r"Ok\(\(Some\(Atomic::fetch_add\(self\.next_handle, 1, Relaxed\)\), (.*), None\)\)\}$", t)
    got["do_open/options"] = [[m.group(1)]] if m else [["?"]]
    # 4b. ... and those of create
    b = c08.pfs_method(F, "create")
    v = vf.VF(b, inline_depth=0)
    ov = vf.def_value(v, b, "opts")
    t = vf.render(v.ret(), b, short=True, vfx=v)
    m = re.search(r"OpenOptions(?:\{bits: |::)(?:.(?!OpenOptions\{))*?cache_policy.*?(?=, None\)\)|\)\)\}$)", t)
    got["create/options"] = [[re.sub(r"\s+", " ", x)] for x in sorted(set(re.findall(r"discr\(self\.cfg\.cache_policy\)[^|}]*=> [^|}]*", t)))]
    # 5. every xattr entry point is switched by the configuration
    for nm in ("getxattr", "listxattr", "setxattr", "removexattr"):
        b = c08.pfs_method(F, nm)
        v = vf.VF(b, inline_depth=0)
        for c in live_calls(b):
            if (c.fn or "").startswith("libc::") and "xattr" in c.name:
                got.setdefault("xattr-enabled/" + nm, []).append(facts_at(b, v, c.bb, lambda t: "cfg.xattr" in t))
    return {k: sorted(v_) for k, v_ in got.items()}


def r7_decisions(ctx, F, table):
    """Request-dependent decisions of the passthrough, compared in guard normal form with the reviewed table: when CAP_FSETID is
    dropped, size probe vs value for xattr getters, the owner/group/other permission emulation of access(), open options per cache
    policy, the xattr configuration switch."""
    got = decisions(F)
    if os.environ.get("FBR_GEN"):
        print("DECISIONS", json.dumps(got, indent=1))
    want = table.get("decisions", {})

    def nv(x):
        """named integer constants by value (0o111 vs S_IXUSR|S_IXGRP|S_IXOTH, literal vs libc name), then re-sorted"""
        if isinstance(x, str):
            return re.sub(r"\b[A-Z][A-Z0-9_]{2,}\b", lambda m: str(vf.CONST_VALUES.get(m.group(0), m.group(0))), x)
        if isinstance(x, list):
            y = [nv(e) for e in x]
            if all(isinstance(e, str) for e in y) and len(y) == 1 and " & " in y[0]:
                return [" & ".join(sorted(y[0].split(" & ")))]
            try:
                return sorted(y, key=json.dumps)
            except TypeError:
                return y
        return x
    for k in sorted(set(got) | set(want)):
        g_, w_ = got.get(k), want.get(k)
        if k.startswith("access-paths/") and g_ and w_:
            g_ = [sorted(" & ".join(sorted(nv(p).split(" & "))) for p in site) for site in g_]
            w_ = [sorted(" & ".join(sorted(nv(p).split(" & "))) for p in site) for site in w_]
        ctx.check("R7-decisions", k, g_ == w_ or nv(g_) == nv(w_),
                  "%s is decided under %s; reviewed: %s" % (k, json.dumps(got.get(k))[:400], json.dumps(want.get(k))[:400]), loc="", detail=json.dumps(got.get(k))[:120])
    ctx.floor("R7-decisions", 12)


def r6_fields(ctx, F):
    rule = "R6-field-coherence"
    # ---- setattr: tvs[0] is the access time, tvs[1] the modification time; each slot is written only under its own flags
    b = c08.pfs_method(F, "setattr")
    v = vf.VF(b, inline_depth=0)
    seen = set()
    for bb in sorted(b.reachable()):
        for i, s in enumerate(b.stmts(bb)):
            if not (s[0] == "=" and len(s[1]) == 3 and isinstance(s[1][1], list) and s[1][1][0] == "[]" and s[1][2][0] == "."
                    and s[1][2][2] in ("tv_sec", "tv_nsec")):
                continue
            idx = vf.render(v.local_at(s[1][1][1], bb, i), b, short=True)
            fld = s[1][2][2]
            val = vf.render(v.rvalue(s[2], bb, i), b, short=True)
            g = [(vf.render(c, b, short=True), l) for (c, l, u) in v.guards(bb)]
            X = {"0": "A", "1": "M"}.get(idx)
            key = "utimens/tvs%s.%s=%s" % (idx, fld, val)
            if X is None:
                ctx.violation(rule, key, "setattr writes timespec slot `%s`; futimens/utimensat take exactly [atime, mtime]" % idx, loc=b.loc(s[3]))
                continue
            now = ("SetattrValid::contains(valid, %sTIME_NOW)" % X, "otherwise")
            notnow = ("SetattrValid::contains(valid, %sTIME_NOW)" % X, 0)
            expl = ("SetattrValid::contains(valid, %sTIME)" % X, "otherwise")
            tname = "st_%stime" % X.lower()
            if val == "UTIME_NOW":
                ok = fld == "tv_nsec" and now in g
            elif val == "attr." + tname:
                ok = fld == "tv_sec" and expl in g and now not in g
            elif val == "attr." + tname + "_nsec":
                ok = fld == "tv_nsec" and expl in g and now not in g
            else:
                ok = False
            seen.add((X, fld, "now" if val == "UTIME_NOW" else "explicit"))
            ctx.check(rule, key, ok,
                      "setattr stores `%s` into tvs[%s].%s under %s: slot %s is the %s time and takes %s/%s_nsec under %sTIME (UTIME_NOW under %sTIME_NOW) only"
                      % (val, idx, fld, [t for (t, l) in g if "TIME" in t and l != 0], idx, "access" if X == "A" else "modification", tname, tname, X, X),
                      loc=b.loc(s[3]), detail=str([t for (t, l) in g if "TIME" in t][-2:]))
    for c in live_calls(b):
        if c.name in ("futimens", "utimensat"):
            g = [(vf.render(x, b, short=True), l) for (x, l, u) in v.guards(c.bb)]
            ctx.check(rule, "utimens/%s/requested" % c.name, ("SetattrValid::intersects(valid, SetattrValid::bitor(ATIME, MTIME))", "otherwise") in g
                      or ("SetattrValid::intersects(valid, SetattrValid::bitor(MTIME, ATIME))", "otherwise") in g,
                      "setattr calls %s under %s; the times are set exactly when ATIME or MTIME is requested" % (c.name, [t for (t, l) in g if "TIME" in t]), loc=c.loc())
    need = {(X, f, k) for X in "AM" for (f, k) in (("tv_nsec", "now"), ("tv_sec", "explicit"), ("tv_nsec", "explicit"))}
    ctx.check(rule, "utimens/all-six-stores", need <= seen, "setattr no longer fills %s" % sorted(need - seen), loc=b.loc())
    # ---- the Entry built by do_lookup: each validity comes from its own configured timeout (directory variants for directories)
    lb = F.method(PFS, "do_lookup")
    lv = vf.VF(lb, inline_depth=0)
    ents = []
    for bb in sorted(lb.reachable()):
        for i, s in enumerate(lb.stmts(bb)):
            if s[0] == "=" and s[2][0] == "agg" and isinstance(s[2][1], dict) and s[2][1].get("adt", "").endswith("filesystem::Entry"):
                ents.append(dict(lv.rvalue(s[2], bb, i)[3]))
    if ctx.check(rule, "entry/literal", len(ents) == 1, "do_lookup builds %d Entry values" % len(ents), loc=lb.loc()):
        e = ents[0]
        for fld, plain, dirv in (("attr_timeout", "self.cfg.attr_timeout", "self.dir_attr_timeout"), ("entry_timeout", "self.cfg.entry_timeout", "self.dir_entry_timeout")):
            t = vf.render(e[fld], lb, short=True, vfx=lv)
            ok = re.fullmatch(r"phi\{!util::is_dir\((.*)\) => %s \| util::is_dir\((.*)\) => %s\}" % (re.escape(plain), re.escape(dirv)), t) is not None
            ctx.check(rule, "entry/" + fld, ok, "do_lookup's Entry.%s is `%s`; required %s for files and %s for directories" % (fld, t[-120:], plain, dirv), loc=lb.loc())
        ctx.check(rule, "entry/generation", vf.render(e["generation"], lb, short=True) == "0", "do_lookup's Entry.generation is not 0", loc=lb.loc())
    # ---- statx -> stat64: every field comes from its namesake
    cands = [x for x in F.fns.values() if x.name == "stat64" and "statx" in x.key and x.kind == "assoc"]
    if len(cands) != 1:
        raise core.Anchor("SafeStatXAccess::stat64 (%d)" % len(cands))
    sb = cands[0]
    ctx.fn_seen(sb)
    sv = vf.VF(sb, inline_depth=0)
    want = {
        "st_dev": "makedev(self.stx_dev_major, self.stx_dev_minor)", "st_rdev": "makedev(self.stx_rdev_major, self.stx_rdev_minor)",
        "st_ino": "self.stx_ino", "st_mode": "self.stx_mode", "st_nlink": "self.stx_nlink", "st_uid": "self.stx_uid", "st_gid": "self.stx_gid",
        "st_size": "self.stx_size", "st_blksize": "self.stx_blksize", "st_blocks": "self.stx_blocks",
        "st_atime": "self.stx_atime.tv_sec", "st_atime_nsec": "self.stx_atime.tv_nsec", "st_mtime": "self.stx_mtime.tv_sec",
        "st_mtime_nsec": "self.stx_mtime.tv_nsec", "st_ctime": "self.stx_ctime.tv_sec", "st_ctime_nsec": "self.stx_ctime.tv_nsec",
    }
    got = {}
    for bb in sorted(sb.reachable()):
        for i, s in enumerate(sb.stmts(bb)):
            if s[0] == "=" and len(s[1]) == 2 and isinstance(s[1][1], list) and s[1][1][0] == "." and str(s[1][1][2]).startswith("st_"):
                t = vf.render(vf.strip_casts(sv.rvalue(s[2], bb, i)), sb, short=True)
                t = re.sub(r"\b[\w:]*makedev\(", "makedev(", t)
                got[s[1][1][2]] = t
    mk = [x for x in F.fns.values() if x.name == "makedev" and x.key.startswith("passthrough::statx::")]
    if mk:
        mr = vf.render(vf.VF(mk[0], inline_depth=0).ret(), mk[0], short=True)
        ctx.check(rule, "statx/makedev-helper", mr == "libc::makedev(maj, min)", "statx.rs makedev(maj, min) computes `%s`" % mr, loc=mk[0].loc())
    for f, w in sorted(want.items()):
        ctx.check(rule, "statx/" + f, got.get(f) == w, "statx conversion fills %s from `%s`; the stat64 a client sees must carry `%s`" % (f, got.get(f), w), loc=sb.loc(), detail=got.get(f) or "")
    # ---- the CAP_FSETID guard tests, drops and restores the same capability in the same (effective) set
    capc = []
    for k, x in F.fns.items():
        if not k.startswith("passthrough::"):
            continue
        for c in live_calls(x):
            if (c.callee or "").startswith("caps::") and c.name in ("has_cap", "drop", "raise"):
                xv = vf.VF(x, inline_depth=0)
                a = [vf.render(y, x, short=True) for y in xv.call_args(c)]
                capc.append((x.name if x.kind != "closure" else F.fns[x.owner].name, c.name, a, c))
    for (owner, nm, a, c) in capc:
        ctx.check(rule, "capfsetid/%s/%s" % (owner, nm), len(a) == 3 and a[0] == "None" and a[1].endswith("Effective") and a[2].endswith("CAP_FSETID"),
                  "%s calls caps::%s(%s): the guard must test, drop and restore CAP_FSETID in the calling thread's *effective* set" % (owner, nm, ", ".join(a)), loc=c.loc())
    names = sorted(nm for (_, nm, _, _) in capc)
    ctx.check(rule, "capfsetid/triple", names == ["drop", "has_cap", "raise"], "capability calls in passthrough: %s (expected one test, one drop, one restore)" % names)


def r3_special(ctx, F):
    b = F.method(PFS, "open_inode")
    ctx.fn_seen(b)
    v = vf.VF(b, inline_depth=0)
    of = [c for c in live_calls(b) if c.name == "open_file"]
    ok = len(of) == 1
    if ok:
        g = [(vf.render(cond, b, short=True), lab) for (cond, lab, u) in v.guards(of[0].bb)]
        ok = any(t.startswith("Not(util::is_safe_inode(") and ".mode" in t and lab == 0 for (t, lab) in g) or \
            any(t.startswith("util::is_safe_inode(") and ".mode" in t and lab != 0 for (t, lab) in g)
    ctx.check("R3-special-files", "open_inode/gate", ok, "open_inode reopens an inode for I/O without the is_safe_inode(mode) test: a FIFO or device node would be opened by the server", loc=b.loc())
    # every non-O_PATH open of a client-named object goes through open_inode (reopen via /proc) or creates exclusively
    opens = {}
    for k, x in F.fns.items():
        if not k.startswith("passthrough::") or "async_io" in k:
            continue
        xv = None
        for c in live_calls(x):
            if c.name in ("openat", "open_file_restricted", "open_file", "create_file_excl") and c.local:
                xv = xv or vf.VF(x, inline_depth=0)
                a = [vf.render(y, x, short=True) for y in xv.call_args(c)]
                owner = x.name if x.kind != "closure" else F.fns[x.owner].name
                opens.setdefault(owner, []).append((c.name, a))
    exp = {
        "create_file_excl": [("openat", "O_CREAT|O_EXCL forced")],
        "open_file": [("openat", "")],
        "open_file_restricted": [("openat", "O_NOFOLLOW|O_CLOEXEC forced")],
        "open_file_and_handle": [("open_file_restricted", "O_PATH")],
        "reopen_fd_through_proc": [("openat", "proc")],
        "create": [("create_file_excl", "")],
    }
    for owner, cs in sorted(opens.items()):
        for (nm, a) in cs:
            key = "%s->%s" % (owner, nm)
            if owner == "create_file_excl":
                ok = "O_CREAT" in a[2] and "O_EXCL" in a[2]
                ctx.check("R3-special-files", key, ok, "create_file_excl opens `%s` with flags `%s`: only an exclusive create may bypass the special-file gate" % (a[1], a[2]), loc="")
            elif owner == "open_file_restricted":
                ctx.check("R3-special-files", key, "O_NOFOLLOW" in a[2] or "131072" in a[2] or "655360" in a[2] or "BitOr(" in a[2], "open_file_restricted does not force O_NOFOLLOW (`%s`)" % a[2])
            elif owner == "open_file_and_handle":
                ctx.check("R3-special-files", key, a[3] == "O_PATH", "lookup opens the object with `%s`, not O_PATH" % a[3])
            elif owner == "reopen_fd_through_proc":
                ctx.check("R3-special-files", key, a[0] == "proc_self_fd", "reopen_fd_through_proc opens relative to `%s`" % a[0])
            elif owner == "new" and nm in ("open_file", "openat"):
                ctx.check("R3-special-files", key, "PROC_SELF_FD" in a[1], "PassthroughFs::new opens `%s`; only /proc/self/fd may be opened by absolute path" % a[1])
            elif owner == "open_inode" and nm == "open_file":
                ctx.ok("R3-special-files", key, "InodeData::open_file behind the is_safe_inode gate", nontrivial=False)
            elif (owner, nm) in (("create", "create_file_excl"), ("open_file", "openat"), ("open_file", "open_file")):
                ctx.ok("R3-special-files", key, "", nontrivial=False)
            else:
                ctx.violation("R3-special-files", key, "%s opens a file with %s(%s) outside the gated open paths" % (owner, nm, ", ".join(a)[:160]))
    # who calls reopen_fd_through_proc: InodeData::open_file (behind open_inode), the file-handle/mount-fd openers
    callers = set()
    for k, x in F.fns.items():
        for c in live_calls(x):
            if c.name == "reopen_fd_through_proc":
                callers.add(x.name if x.kind != "closure" else F.fns[x.owner].name)
    ctx.check("R3-special-files", "reopen-callers", callers <= {"open_file", "to_openable_handle", "open"}, "reopen_fd_through_proc is called by %s" % sorted(callers))


def r4_errors(ctx, F, only=None):
    n = 0
    for k, b in sorted(F.fns.items()):
        if not k.startswith("passthrough::") or "async_io" in k or b.kind not in ("assoc", "fn"):
            continue
        if b.self_adt != PFS and not k.startswith("passthrough::util::") and not ((b.self_adt or "").startswith("passthrough::Scoped") and b.name == "new"):
            continue
        if only is not None and b.name not in only:
            continue
        v = None
        for c in live_calls(b):
            if not (c.fn or "").startswith("libc::") or c.name in ("__errno_location", "umask", "makedev", "close"):
                continue
            v = v or vf.VF(b, inline_depth=0)
            res = v.call_expr(c)
            tested = False
            for u in b.reachable():
                t = b.term(u)
                if t[0] == "switch":
                    cond = v.operand(t[1], u, len(b.stmts(u)))
                    if any(x == res for x in vf.walk(cond)):
                        tested = True
            conv = any(x.name == "last_os_error" for x in live_calls(b))
            n += 1
            # direction of the test: errno is read exactly where the call reported failure (`res < 0`, or `res != 0` for calls that
            # return 0 on success) - `<= 0` or a swapped `== 0` turn successes into errors and errors into successes
            rt = vf.render(res, b, short=True, vfx=v)
            fail_sites, odd = 0, []
            for e in live_calls(b):
                if e.name != "last_os_error":
                    continue
                mine = [(vf.render(x, b, [(res, "RES")], short=True, vfx=v), l) for (x, l, u) in v.guards(e.bb) if any(y == res for y in vf.walk(x))]
                if not mine:
                    continue
                t, l = mine[-1]
                if t == "RES" and l != 0:
                    fail_sites += 1     # `match res { 0 => Ok(..), _ => Err(last_os_error()) }`
                elif l != 0 and (re.fullmatch(r"Lt\(.*RES.*, 0\)", t) or re.fullmatch(r"Ne\(0, .*RES.*\)", t) or re.fullmatch(r"Eq\(-1, .*RES.*\)", t)):
                    fail_sites += 1
                elif l != 0 and re.fullmatch(r"Le\(0, .*RES.*\)", t):
                    pass        # inside the success branch of this call: the site belongs to a later call
                else:
                    odd.append((t[:80], l))
            if tested and conv:
                ctx.check("R4-error-conversion", "%s/%s/direction" % (b.name, c.name if c.name != "syscall" else vf.render(v.call_args(c)[0], b, short=True)),
                          fail_sites >= 1 and not odd,
                          "%s: errno of %s is read under %s; it must be read exactly on the failure edge (`res < 0`, or `res != 0` for 0-on-success calls)"
                          % (b.name, c.name, odd or "no failure test of this result"), loc=c.loc())
            ctx.check("R4-error-conversion", "%s/%s" % (b.name, c.name if c.name != "syscall" else vf.render(v.call_args(c)[0], b, short=True)), tested and conv,
                      "%s: the result of %s is %s" % (b.name, c.name, "not tested" if not tested else "not converted with last_os_error()"), loc=c.loc())
    if only is None:
        ctx.check("R4-error-conversion", "count", n >= 25, "only %d libc call results inspected" % n)


def r5_flags(ctx, F, table):
    exp = table["flag_algebra"]
    b = F.method(PFS, "get_writeback_open_flags")
    ctx.fn_seen(b)
    v = vf.VF(b, inline_depth=0)
    r = vf.render(v.ret(), b, short=True, vfx=v)
    if os.environ.get("FBR_GEN"):
        print("WB", json.dumps(r))
    ctx.check("R5-flag-algebra", "writeback-open-flags", r == exp["get_writeback_open_flags"], "get_writeback_open_flags computes `%s`; required `%s`" % (r[:500], exp["get_writeback_open_flags"][:200]), loc=b.loc(), detail=r[:200])
    b = F.method(PFS, "open_inode")
    v = vf.VF(b, inline_depth=0)
    of = [c for c in live_calls(b) if c.name == "open_file"]
    if of:
        t = vf.render(v.call_args(of[0])[1], b, short=True, vfx=v)
        if os.environ.get("FBR_GEN"):
            print("OI", json.dumps(t))
        ctx.check("R5-flag-algebra", "open_inode-flags", t == exp["open_inode"], "open_inode opens with `%s`; required `%s`" % (t[:400], exp["open_inode"][:200]), loc=of[0].loc(), detail=t[:200])
    handle_flag_tracking(ctx, F, "R5-flag-algebra")


def handle_flag_tracking(ctx, F, rule):
    """The flags word cached in a handle tracks the descriptor's real status flags (shared with C18: the O_APPEND test of the
    size seal reads the request's flags, which are only as good as this cache)."""
    b = F.method(PFS, "check_fd_flags")
    v = vf.VF(b, inline_depth=0)
    sc = [c for c in live_calls(b) if c.name == "fcntl"]
    st = [c for c in live_calls(b) if c.name == "set_flags"]
    ok = len(sc) == 1 and len(st) == 1 and b.dominates(sc[0].bb, st[0].bb)
    if ok:
        g = [(vf.render(cond, b, short=True), lab) for (cond, lab, u) in v.guards(sc[0].bb)]
        ok = ("Ne(HandleData::get_flags(data), flags)", "otherwise") in g or ("Ne(flags, HandleData::get_flags(data))", "otherwise") in g
        ok = ok and [vf.render(x, b, short=True) for x in v.call_args(sc[0])] == ["fd", "F_SETFL", "flags"] and vf.render(v.call_args(st[0])[1], b, short=True) == "flags"
    # the accessors read and write the one cached word
    hd = "passthrough::HandleData"
    gf, sf = F.method(hd, "get_flags"), F.method(hd, "set_flags")
    gr = vf.render(vf.VF(gf, inline_depth=0).ret(), gf, short=True)
    sc_ = [c for c in live_calls(sf) if c.name == "store"]
    sa = [vf.render(x, sf, short=True) for x in vf.VF(sf, inline_depth=0).call_args(sc_[0])] if len(sc_) == 1 else []
    ctx.check(rule, "handle-flags/accessors", gr.startswith("Atomic::load(self.open_flags") and sa[:2] == ["self.open_flags", "flags"],
              "HandleData::get_flags/set_flags no longer load/store self.open_flags (get: %s, set: %s)" % (gr[:80], sa), loc=sf.loc())
    ctx.check(rule, "check_fd_flags", ok, "check_fd_flags is not `if stored != flags { fcntl(fd, F_SETFL, flags); store(flags) }`", loc=b.loc())
    # do_open stores the request's flags in the handle (so that the refresh above compares against them)
    b = F.method(PFS, "do_open")
    v = vf.VF(b, inline_depth=0)
    nw = [c for c in live_calls(b) if c.name == "new" and "HandleData" in (c.fn or "")]
    ok = len(nw) == 1
    if ok:
        a = [vf.render(x, b, short=True) for x in v.call_args(nw[0])]
        ok = a[0] == "inode" and a[2] == "flags" and "open_inode(self, inode, flags)" in a[1]
    ctx.check(rule, "do_open/handle-flags", ok, "do_open does not record (inode, file opened with the request's flags, the request's flags) in the handle", loc=b.loc())
    # create records the request's flags as well (not the rewritten open flags): check_fd_flags compares them with each WRITE's flags
    b = c08.pfs_method(F, "create")
    v = vf.VF(b, inline_depth=0)
    nw = [c for c in live_calls(b) if c.name == "new" and "HandleData" in (c.fn or "")]
    ok = len(nw) == 1
    if ok:
        a = [vf.render(x, b, short=True) for x in v.call_args(nw[0])]
        ok = a[0].endswith("?.inode") and "do_lookup(self, parent, name)" in a[0] and a[2] == "args.flags"
    ctx.check(rule, "create/handle-flags", ok,
              "create records `%s` as the handle's flags; like do_open it must record the request's flags (args.flags), otherwise the first WRITE "
              "re-applies flags the open deliberately cleared (O_APPEND under writeback)" % (vf.render(v.call_args(nw[0])[2], b, short=True)[:120] if nw else "?"), loc=b.loc())


META = {
    "technique": "MIR value-flow of system-call arguments vs. frozen operation table; liveness of credential guards; dominance of the special-file gate; result-tested rule for libc calls",
    "text": "Decides structural necessary conditions only: each operation issues the tabled system call with the tabled directory descriptor, name and "
            "mask/flag expressions; creating calls run under set_creds(ctx.uid, ctx.gid) with live guards (gid first), guards restore 0; every "
            "non-O_PATH open is gated by is_safe_inode or is an exclusive create; each libc result is tested and converted; writeback/O_DIRECT/"
            "F_SETFL flag algebra is the tabled one.",
    "note": "Not decided (run-time quantities, declared not applicable for this technique): equality of replies and resulting tree with the host's "
            "over all request histories and the configuration matrix.",
}
META["text"] += " " + 'Also: errno read on the failure edge only; ids at every credential switch; utimens slot selection, statx->stat64 field map, CAP_FSETID effective-set pairing; a decision table (kill-priv sites, xattr size probe, access() paths, open options, xattr switch).'
