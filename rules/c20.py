"""C20 — the asynchronous request path behaves exactly like the synchronous one (cfg A).

R1 dispatch agreement: same opcodes, same handler or its async_ sibling; same pre-dispatch refusals
R2 handler agreement: filesystem call, arguments, reply sites and refusals of each async handler equal its sync sibling
R3 reply helper agreement (reply_ok / do_reply_error / handle_attr_result) and Arc<FS> async forwarding
R4 VFS siblings: each async method of the VFS multiplexer performs the same gating, routing and id/inode translation steps as its sync sibling
R5 passthrough delegation: each async method of PassthroughFs calls its own sync method with the same arguments
R3 (cont.) the async reply helpers propagate the result of every write (shared with C01.R6)
"""
import json
import os
import re

from pyfbr import core, vf
from rules import common

REPLY = {"reply_ok", "reply_error", "reply_error_explicit", "do_reply_error", "handle_attr_result"}
WRITES = {"write_all", "commit", "write", "write_vectored", "async_write", "async_write2", "async_write3", "async_write_all", "async_commit"}


def live_calls(b):
    r = b.reachable()
    return [c for c in b.calls() if c.bb in r and not b.is_cleanup(c.bb)]


def norm(t):
    """Normalise an async rendering to the sync vocabulary."""
    t = t.replace("^", "")
    t = t.replace("reply_error_explicit(", "reply_error(")
    t = t.replace("AsyncFileSystem::async_", "FileSystem::")
    t = re.sub(r"\basync_", "", t)
    while "await(" in t:
        i = t.index("await(")
        # remove the wrapper, keeping the balanced inner text
        d, j = 0, i + 6
        while j < len(t):
            if t[j] == "(":
                d += 1
            elif t[j] == ")":
                if d == 0:
                    break
                d -= 1
            j += 1
        t = t[:i] + t[i + 6:j] + t[j + 1:]
    return t


def async_frame(F, fn):
    """(coroutine body, VF with the coroutine's captures bound to the parent's parameters)."""
    parent = fn
    pv = vf.VF(parent, inline_depth=0)
    r = pv.ret()
    cl = None
    for x in vf.walk(r):
        if x[0] == "CL" and x[1] in F.built:
            cl = x
            break
    if cl is None:
        raise core.Anchor("coroutine of %s" % fn.key)
    body = F.built[cl[1]]
    v = vf.VF(body, params={1: cl})
    v.render_body = parent
    return body, v


def run(ctx):
    ctx.explanation = (
        "The async dispatcher, the ten async handlers, the async reply helpers and the Arc<FS> async forwarding are reduced, "
        "from the pre-state-machine MIR of their coroutine bodies with `.await` normalised away, to the same summaries as the "
        "sync path (opcode -> handler, filesystem call and argument provenance, reply sites with their field provenance, "
        "refusal conditions) and compared pairwise; any difference is reported with both renderings.")
    A = ctx.facts("A")
    if A is None:
        return
    vf.NOUPD[0] = True
    vf.NOCAST[0] = True
    try:
        ctx.run_rule("R1-dispatch-agreement", r1_dispatch, A)
        ctx.run_rule("R2-handler-agreement", r2_handlers, A)
        ctx.run_rule("R3-helper-agreement", r3_helpers, A)
        ctx.run_rule("R4-vfs-siblings", r4_vfs, A)
        ctx.run_rule("R5-passthrough-delegation", r5_pfs, A)
    finally:
        vf.NOUPD[0] = False
        vf.NOCAST[0] = False
    ctx.assumptions += ["the sync path is the reference (C01-C03)", "executor scheduling effects are not examined"]


# ------------------------------------------------------------------ R4: the VFS multiplexer's async methods vs. their sync siblings

VFS_EVENTS = ("validate_path_component", "contains", "from_raw_os_error", "get_real_rootfs", "lookup_pseudo", "remap_attr_id",
              "convert_backend_entry", "convert_attr", "convert_inode", "remap_ctx_ids")


def vfs_events(F, fn, body, v, render_body):
    """sorted [(event, args...)] of the routing / gating / translation steps of one VFS method (its closures included)."""
    ev = []

    def txt(x, b, vv):
        t = norm(vf.render(x, b, short=True, vfx=vv))
        t = t.replace(".0@Right.0.0.pointer", ".0@Right.0").replace("SLASH_ASCII", "47")
        t = re.sub(r"\b__self\b", "self", t)          # async_trait renames the receiver inside the coroutine
        return t
    bodies = [(body, v, render_body)]
    for c in F.fns.values():
        if c.kind == "closure" and c.key.startswith(fn.key + "::") :
            bodies.append((c, vf.VF(c, inline_depth=0), c))
    for (b, vv, rb) in bodies:
        for c in live_calls(b):
            nm = re.sub(r"^async_", "", c.name)
            backend = c.trait in (common.FS_TRAIT, common.AFS_TRAIT)
            if not backend and c.name not in VFS_EVENTS:
                continue
            args = [txt(a, rb, {b.key: vv} if b is not rb else vv) for a in vv.call_args(c)]
            if c.name == "from_raw_os_error" and not args[0].isupper():
                continue
            ev.append((("backend:" if backend else "") + nm,) + tuple(args))
    return sorted(ev)


def r4_vfs(ctx, A):
    VFS = "api::vfs::Vfs"
    n = 0
    for nm in ("lookup", "getattr", "setattr", "open", "create", "read", "write", "fsync", "fallocate", "fsyncdir"):
        s = [x for x in A.find(name=nm, self_adt=VFS) if x.trait == common.FS_TRAIT]
        a = [x for x in A.find(name="async_" + nm, self_adt=VFS) if x.trait == common.AFS_TRAIT]
        if len(s) != 1 or len(a) != 1:
            raise core.Anchor("Vfs::%s / Vfs::async_%s (%d/%d)" % (nm, nm, len(s), len(a)))
        n += 1
        ctx.fn_seen(s[0])
        ctx.fn_seen(a[0])
        sv = vf.VF(s[0], inline_depth=0)
        es = vfs_events(A, s[0], s[0], sv, s[0])
        parent = a[0]
        pv = vf.VF(parent, inline_depth=0)
        cl = [x for x in vf.walk(pv.ret()) if x[0] == "CL" and x[1] in A.built]
        if not cl:
            raise core.Anchor("coroutine of %s" % parent.key)
        body = A.built[cl[0][1]]
        av = vf.VF(body, inline_depth=0, params={1: cl[0]})
        av.render_body = parent
        ea = vfs_events(A, parent, body, av, parent)
        # the pseudo (Left) arm of an async method calls the sync method of the pseudo fs; read/write on the pseudo fs are ENOSYS on the
        # async path (no AsyncZeroCopy adapter for it) -- reviewed difference, listed explicitly
        if nm in ("read", "write"):
            es = [e for e in es if not (e[0] == "backend:" + nm and "@Left" in e[1])]
            ea = [e for e in ea if not (e[0] == "from_raw_os_error" and e[1] == "ENOSYS")]
        only_s = [e for e in es if e not in ea]
        only_a = [e for e in ea if e not in es]
        ctx.check("R4-vfs-siblings", nm, not only_s and not only_a,
                  "Vfs::async_%s differs from Vfs::%s in its routing/gating/translation steps: only sync %s; only async %s" % (nm, nm, only_s[:3], only_a[:3]),
                  loc=a[0].loc(), detail="%d steps" % len(es))
    ctx.floor("R4-vfs-siblings", 10)


def r5_pfs(ctx, A):
    """PassthroughFs implements every async method by calling its own sync method with the same arguments in the same order."""
    PFS = "passthrough::PassthroughFs"
    for nm in ("lookup", "getattr", "setattr", "open", "create", "read", "write", "fsync", "fallocate", "fsyncdir"):
        a = [x for x in A.find(name="async_" + nm, self_adt=PFS) if x.trait == common.AFS_TRAIT]
        if len(a) != 1:
            raise core.Anchor("PassthroughFs::async_%s (%d)" % (nm, len(a)))
        parent = a[0]
        ctx.fn_seen(parent)
        pv = vf.VF(parent, inline_depth=0)
        cl = [x for x in vf.walk(pv.ret()) if x[0] == "CL" and x[1] in A.built]
        if not cl:
            raise core.Anchor("coroutine of %s" % parent.key)
        body = A.built[cl[0][1]]
        av = vf.VF(body, inline_depth=0, params={1: cl[0]})
        av.render_body = parent
        calls = [c for c in live_calls(body) if c.name == nm and (c.trait == common.FS_TRAIT or (c.res or c.fn or "").endswith("::" + nm))]
        others = [c for c in live_calls(body) if c.trait in (common.FS_TRAIT, common.AFS_TRAIT) and c not in calls]
        ok = len(calls) == 1 and not others
        got = []
        if ok:
            got = [re.sub(r"\b__self\b", "self", vf.render(x, parent, short=True, vfx={body.key: av})) for x in av.call_args(calls[0])]
            want = [parent.local_name(i) for i in range(1, parent.argc + 1)]
            ok = got == want
        ctx.check("R5-passthrough-delegation", nm, ok,
                  "PassthroughFs::async_%s must call self.%s with its own parameters in order; it calls %s(%s)%s" %
                  (nm, nm, calls[0].name if calls else "nothing", ", ".join(got), (" and also " + str([c.name for c in others])) if others else ""), loc=parent.loc())
    ctx.floor("R5-passthrough-delegation", 10)


# ------------------------------------------------------------------ summaries

def summarise(F, body, v, parent):
    """{fs: [(method, [args])], replies: multiset of text, refusals: set of guard texts of the fs call}"""
    roots = common.request_roots(v, body)
    # context roots in the parent's frame (after capture substitution P2 is the SrvContext)
    roots += common.ctx_roots(parent)
    fs = []
    fsroots = []
    for c in live_calls(body):
        if c.trait in (common.FS_TRAIT, common.AFS_TRAIT):
            e = v.call_expr(c)
            res = ("AW", e) if c.trait == common.AFS_TRAIT else e
            fsroots.append((vf.field(("V", res, "Ok"), "0", 0), "Res"))
            fsroots.append((vf.field(("V", res, "Err"), "0", 0), "Err"))
            fsroots.append((res, "FsResult"))
    allroots = roots + fsroots
    refusals = set()
    for c in live_calls(body):
        if c.trait in (common.FS_TRAIT, common.AFS_TRAIT):
            args = [norm(vf.render(a, parent, roots, short=True, vfx={body.key: v})) for a in v.call_args(c)[1:]]
            fs.append((re.sub(r"^async_", "", c.name), args))
            for (u, lab) in body.edge_guards(c.bb):
                t = norm(v.guard_text(u, lab, allroots, vfx={body.key: v}, body=parent))
                if t.startswith("discr(") or "poll(" in t or "Poll" in t:
                    continue
                refusals.add(t)
    replies = []

    def scan(b, vv):
        for c in live_calls(b):
            nm = re.sub(r"^async_", "", c.name or "")
            if nm == "reply_error_explicit":
                nm = "reply_error"       # `explicit` only selects the log level
            if (nm in REPLY and c.self_adt == common.SRVCTX) or (nm in ("write_all", "commit") and (c.self_adt or "").endswith("Writer") or
                                                                  (nm in ("write_all",) and c.trait == "std::io::Write")):
                flds = {}
                for k, a in enumerate(vv.call_args(c)[1:]):
                    inner = a
                    if inner[0] == "A" and inner[1].endswith("Option") and inner[2] == "Some":
                        inner = inner[3][0][1]
                    while inner[0] == "C" and len(inner[3]) == 1 and inner[1].endswith("as_slice"):
                        inner = inner[3][0]
                    for (fn_, t) in flat_render(inner, parent, allroots, {b.key: vv}).items():
                        flds["arg%d.%s" % (k, fn_)] = norm(t)
                replies.append((nm, flds))
    scan(body, v)
    for cl in F.closures_of(body.key) + (F.closures_of(parent.key) if parent is not body else []):
        if cl.key in F.built or cl.raw.get("is_coroutine"):
            continue
        # closures (map_err error arms): captured variables are the parent's
        cv = vf.VF(cl)
        for c in live_calls(cl):
            nm = re.sub(r"^async_", "", c.name or "")
            if nm == "reply_error_explicit":
                nm = "reply_error"
            if nm in REPLY and c.self_adt == common.SRVCTX:
                flds = {"arg%d.." % k: norm(vf.render(a, cl, [], short=True)) for k, a in enumerate(cv.call_args(c)[1:])}
                replies.append((nm, flds))
    return {"fs": fs, "replies": sorted(replies, key=lambda r: (r[0], sorted(r[1].items()))), "refusals": refusals}


def flat_render(e, body, roots, vfx, prefix=""):
    out = {}
    if e[0] == "A" and not e[1].endswith("Option") and e[3]:
        for (k, x) in e[3]:
            if x[0] == "A" and not x[1].endswith("Option") and x[3]:
                out.update(flat_render(x, body, roots, vfx, prefix + k + "."))
            else:
                out[prefix + k] = vf.render(x, body, roots, short=True, vfx=vfx)
        return out
    out[prefix.rstrip(".") or "."] = vf.render(e, body, roots, short=True, vfx=vfx)
    return out


def compare_replies(ctx, rule, n, rs, ra, loc):
    """Pair the reply sites of the sync and async handler and report field-level differences."""
    rs, ra = list(rs), list(ra)
    for (kind, fa) in list(ra):
        # best sync partner: same kind and field names, fewest differing fields
        best, bd = None, None
        for cand in rs:
            if cand[0] != kind or set(cand[1]) != set(fa):
                continue
            d = [k for k in fa if not vf.same_text(fa[k], cand[1][k])]
            if bd is None or len(d) < len(bd):
                best, bd = cand, d
        if best is None:
            continue
        rs.remove(best)
        ra.remove((kind, fa))
        if not bd:
            ctx.ok(rule, "%s/%s" % (n, kind), "same reply")
        for k in bd:
            ctx.violation(rule, "%s/%s/%s" % (n, kind, k.replace("arg0.", "").replace("arg1.", "data.")),
                          "async_%s replies %s with `%s`, %s with `%s`" % (n, k, fa[k][:200], n, best[1][k][:200]), loc=loc)
    for (kind, fa) in ra:
        ctx.violation(rule, "%s/extra-in-async/%s(%s)" % (n, kind, re.sub(r"[^A-Za-z0-9]+", "_", "; ".join(fa.values()))[:50]),
                      "async_%s has a reply the sync handler lacks: %s(%s)" % (n, kind, "; ".join(fa.values())[:200]), loc=loc)
    for (kind, f) in rs:
        ctx.violation(rule, "%s/missing-in-async/%s(%s)" % (n, kind, re.sub(r"[^A-Za-z0-9]+", "_", "; ".join(f.values()))[:50]),
                      "%s replies %s(%s); async_%s has no such reply" % (n, kind, "; ".join(f.values())[:200], n), loc=loc)


def r2_handlers(ctx, A):
    pairs = []
    for b in A.fns.values():
        if b.self_adt == common.SERVER and b.name.startswith("async_") and b.key in A.async_fns and b.argc >= 2 \
                and b.local_ty(2).startswith("api::server::SrvContext<"):
            sync = [h for h in A.find(name=b.name[len("async_"):], self_adt=common.SERVER) if h.kind == "assoc"]
            if len(sync) == 1:
                pairs.append((sync[0], b))
    for (hs, ha) in sorted(pairs, key=lambda p: p[0].line):
        ctx.fn_seen(hs)
        ctx.fn_seen(ha)
        vs = vf.VF(hs)
        ss = summarise(A, hs, vs, hs)
        body, va = async_frame(A, ha)
        sa = summarise(A, body, va, ha)
        n = hs.name
        ctx.check("R2-handler-agreement", n + "/fs-method", [f[0] for f in ss["fs"]] == [f[0] for f in sa["fs"]],
                  "async_%s calls fs.%s, %s calls fs.%s" % (n, [f[0] for f in sa["fs"]], n, [f[0] for f in ss["fs"]]), loc=ha.loc())
        for (fs_s, fs_a) in zip(ss["fs"], sa["fs"]):
            pn = c02_param_names(A, fs_s[0])
            for k, (x, y) in enumerate(zip(fs_s[1], fs_a[1])):
                if x.startswith("Zc") or y.startswith("Zc") or "closure(" in x or "AsyncZc" in y:
                    continue        # reader/writer adapters differ by construction
                ctx.check("R2-handler-agreement", "%s/arg-%s" % (n, pn[k] if k < len(pn) else k), vf.same_text(x, y),
                          "async_%s passes `%s` as %s, %s passes `%s`" % (n, y[:200], pn[k] if k < len(pn) else k, n, x[:200]), loc=ha.loc())
            ctx.check("R2-handler-agreement", n + "/arity", len(fs_s[1]) == len(fs_a[1]), "argument count differs for %s" % n, loc=ha.loc())
        if n not in ("read", "write"):
            compare_replies(ctx, "R2-handler-agreement", n, ss["replies"], sa["replies"], ha.loc())
        else:
            # data-carrying opcodes use different writer primitives; compare the number and kind of error/ok replies
            ks = sorted(set(x[0] for x in ss["replies"] if x[0] in REPLY))
            ka = sorted(set(x[0] for x in sa["replies"] if x[0] in REPLY))
            ctx.check("R2-handler-agreement", n + "/reply-kinds", ks == ka, "async_%s reply kinds %s differ from %s's %s" % (n, ka, n, ks), loc=ha.loc())
        extra = sorted(sa["refusals"] - ss["refusals"])
        missing = sorted(ss["refusals"] - sa["refusals"])
        ctx.check("R2-handler-agreement", n + "/refusals", not extra and not missing,
                  "async_%s reaches the filesystem under different conditions than %s: extra in async %s; missing in async %s"
                  % (n, n, [x[:120] for x in extra], [x[:120] for x in missing]), loc=ha.loc())
        if len(ctx.samples) < 4:
            ctx.sample({"pair": n, "fs": sa["fs"][0][0] if sa["fs"] else None, "replies": [(k, dict(list(f.items())[:3])) for (k, f) in sa["replies"][:3]]})
    # version-dependent reply arms are taken under the same protocol-version facts as in the sync handlers (shared with C03)
    from rules import c03
    frames = []
    for (hs, ha) in pairs:
        body, va = async_frame(A, ha)
        frames.append((hs.name, body, va, ha))
    c03.version_arms(ctx, A, "R2-handler-agreement", None, frames=frames)
    ctx.check("R2-handler-agreement", "pairs", len(pairs) >= 10, "only %d async/sync handler pairs found" % len(pairs))
    ctx.floor("R2-handler-agreement", 60)


def c02_param_names(F, method):
    from rules.c02 import fs_param_names
    return fs_param_names(F, method)


# ------------------------------------------------------------------ R1

def refusal_table(b, v, site_bb, start_bb, roots, parent):
    """Boolean function 'the early refusal site is reached' over the boolean switch conditions (atoms)
    between start_bb and site_bb: returns (atoms, eval(assign) -> bool)."""
    atoms = {}
    for u in b.reachable():
        t = b.term(u)
        if t[0] != "switch" or t[4] != "bool" or not b.dominates(start_bb, u) or not b.can_reach(u, site_bb):
            continue
        c = v.operand(t[1], u, len(b.stmts(u)))
        txt = norm(vf.render(c, parent, roots, short=True, vfx={b.key: v}))
        if common.is_log_text(txt):
            continue            # the level test of a log macro on the way to the refusal decides nothing about the reply
        atoms[u] = txt

    def ev(assign):
        seen = set()
        st = [start_bb]
        while st:
            x = st.pop()
            if x == site_bb:
                return True
            if x in seen:
                continue
            seen.add(x)
            if x in atoms and atoms[x] in assign:
                val = assign[atoms[x]]
                for (lab, tgt) in b.switch_edges(x):
                    if (lab == 0) == (not val):
                        st.append(tgt)
            else:
                for s0 in b.succ[x]:
                    if s0 == site_bb or b.can_reach(s0, site_bb):
                        st.append(s0)
        return False
    return set(atoms.values()), ev


def r1_dispatch(ctx, A):
    bs, vs, ds, _ = common.dispatch_table(A)
    ha = A.method(common.SERVER, "async_handle_message")
    body, va = async_frame(A, ha)
    ctx.fn_seen(bs)
    ctx.fn_seen(ha)
    da = {}
    for c in live_calls(body):
        if c.self_adt != common.SERVER:
            continue
        pos, neg = common.opcode_guards(va, c.bb)
        if pos:
            da.setdefault(pos[-1], []).append(c.name)
    for op in sorted(set(ds) | set(da)):
        s = sorted(set(x[0] for x in ds.get(op, [])))
        a = sorted(set(da.get(op, [])))
        ok = len(s) == 1 and len(a) == 1 and a[0] in (s[0], "async_" + s[0])
        ctx.check("R1-dispatch-agreement", op, ok, "opcode %s: sync dispatches to %s, async to %s" % (op, s, a), loc=ha.loc(), detail="%s / %s" % (s, a))
    # pre-dispatch refusals: conditions deciding the early reply
    def first_refusal(b, v, names):
        for c in live_calls(b):
            if c.name in names and c.self_adt == common.SRVCTX:
                pos, neg = common.opcode_guards(v, c.bb)
                if not pos and "Lookup" not in neg:
                    return c
        return None
    cs = first_refusal(bs, vs, ("reply_error_explicit", "do_reply_error", "reply_error"))
    ca = first_refusal(body, va, ("async_reply_error_explicit", "async_do_reply_error", "async_reply_error"))
    if cs is None or ca is None:
        raise core.Anchor("pre-dispatch refusal site (sync %s, async %s)" % (cs, ca))
    rs = common.request_roots(vs, bs)
    ra = common.request_roots(va, body)
    rem_s = [c for c in live_calls(bs) if c.name == "remap_ctx_ids"][0]
    rem_a = [c for c in live_calls(body) if c.name == "remap_ctx_ids"][0]
    at_s, ev_s = refusal_table(bs, vs, cs.bb, rem_s.bb, rs, bs)
    at_a, ev_a = refusal_table(body, va, ca.bb, rem_a.bb, ra, ha)
    atoms = sorted(at_s | at_a)
    import itertools
    diffs = []
    for vals in itertools.product([False, True], repeat=len(atoms)):
        asg = dict(zip(atoms, vals))
        if ev_s({k: x for k, x in asg.items() if k in at_s}) != ev_a({k: x for k, x in asg.items() if k in at_a}):
            diffs.append(asg)
    ctx.check("R1-dispatch-agreement", "pre-dispatch/atoms", len(atoms) <= 8 and len(atoms) >= 1, "pre-dispatch refusal: %d conditions (shape not recognised)" % len(atoms), loc=ca.loc())
    # attribute each difference to the conditions that matter
    blamed = set()
    for asg in diffs:
        # smallest explanation: atoms private to one side that are true, else all true atoms
        priv = [k for k in atoms if (k in at_a) != (k in at_s) and asg[k]]
        blamed.add(tuple(priv) if priv else tuple(k for k in atoms if asg[k]))
    for bl in sorted(blamed):
        side = "async only" if all(k in at_a and k not in at_s for k in bl) else ("sync only" if all(k in at_s and k not in at_a for k in bl) else "both")
        key = "pre-dispatch/differs/" + re.sub(r"[^A-Za-z0-9:]+", "_", "+".join(bl))[:80]
        ctx.violation("R1-dispatch-agreement", key,
                      "before dispatch the async path answers ENOMEM under different conditions than the sync path when %s (%s)" % (" and ".join(bl)[:300], side), loc=ca.loc())
    if not diffs:
        ctx.ok("R1-dispatch-agreement", "pre-dispatch/same", "refusal reached under the same conditions over atoms %s" % atoms)
    for x in atoms:
        ctx.ok("R1-dispatch-agreement", "pre-dispatch/atom/%s" % re.sub(r"[^A-Za-z0-9:]+", "_", x)[:60], x, nontrivial=False)
    ctx.floor("R1-dispatch-agreement", 45)


# ------------------------------------------------------------------ R3

def header_fields(F, b, v, parent):
    """Fields of the OutHeader built in a reply helper."""
    for x in ("header",):
        e = vf.def_value(v, b, x)
        if e is not None and e[0] == "A":
            # parameters are the only named roots: local variable names must not matter
            roots = [(("P", i), parent.local_name(i)) for i in range(1, parent.argc + 1)]
            def n2(t):
                # an empty-slice literal is a promoted constant in optimised MIR and a plain `[]` before promotion
                t = re.sub(r"k\([^()]*(?:\([^()]*\)[^()]*)*promoted\[\d+\]\)", "<empty>", t)
                return t.replace("=> [] |", "=> <empty> |").replace("=> []}", "=> <empty>}")
            return {k: n2(norm(vf.render(val, parent, roots, short=True, vfx={b.key: v}))) for (k, val) in e[3]}
    return None


def r3_helpers(ctx, A):
    from rules import c01
    c01.write_results_propagate(ctx, A, "R3-helper-agreement", want_async=True)
    _r3_helpers(ctx, A)


def _r3_helpers(ctx, A):
    for nm in ("reply_ok", "do_reply_error", "handle_attr_result"):
        s = [x for x in A.fns.values() if x.name == nm and x.self_adt == common.SRVCTX and x.kind == "assoc"]
        a = [x for x in A.fns.values() if x.name == "async_" + nm and x.self_adt == common.SRVCTX and x.kind == "assoc"]
        if len(s) != 1 or len(a) != 1:
            raise core.Anchor("reply helper pair %s (%d/%d)" % (nm, len(s), len(a)))
        hs, ha = s[0], a[0]
        ctx.fn_seen(hs)
        ctx.fn_seen(ha)
        vs = vf.VF(hs)
        body, va = async_frame(A, ha)
        if nm in ("reply_ok", "do_reply_error"):
            fs_ = header_fields(A, hs, vs, hs)
            fa_ = header_fields(A, body, va, ha)
            if fs_ is None or fa_ is None:
                ctx.violation("R3-helper-agreement", nm + "/shape", "shape not recognised: header of %s (sync %s, async %s)" % (nm, fs_ is not None, fa_ is not None), loc=ha.loc())
                continue
            for k in sorted(set(fs_) | set(fa_)):
                ctx.check("R3-helper-agreement", "%s/header.%s" % (nm, k), fs_.get(k) == fa_.get(k),
                          "async_%s builds header.%s = `%s`, %s builds `%s`" % (nm, k, (fa_.get(k) or "")[:300], nm, (fs_.get(k) or "")[:300]), loc=ha.loc(),
                          detail=(fa_.get(k) or "")[:120])
        else:
            ss = summarise(A, hs, vs, hs)
            sa = summarise(A, body, va, ha)
            compare_replies(ctx, "R3-helper-agreement", nm, ss["replies"], sa["replies"], ha.loc())
    # FuseDevWriter::commit vs async_commit: device writes happen under the same conditions
    FDW = "transport::fusedev::FuseDevWriter"
    cs = A.method(FDW, "commit")
    ca = A.method(FDW, "async_commit")
    vs = vf.VF(cs)
    body, va = async_frame(A, ca)

    def dev_write_guards(b, v, parent):
        out = []
        for c in live_calls(b):
            if (c.fn or "").startswith("nix::") and c.name in ("write", "writev", "pwrite"):
                g = sorted(norm(v.guard_text(u, lab, None, vfx={b.key: v}, body=parent)) for (u, lab) in b.edge_guards(c.bb))
                out.append([x for x in g if "buffered" in x])
        return out
    gs, ga = dev_write_guards(cs, vs, cs), dev_write_guards(body, va, ca)
    ctx.check("R3-helper-agreement", "commit/buffered-guard", all(g for g in gs) == all(g for g in ga) and len(gs) == len(ga),
              "FuseDevWriter::async_commit issues device writes without the `buffered` test of commit (sync guards %s, async %s): "
              "an unbuffered writer that already wrote its reply writes a second, bogus message" % (gs, ga), loc=ca.loc())
    # Arc<FS> forwards every async method to the same-named async method
    impl = [i for i in A.impls if i.get("trait") == common.AFS_TRAIT and i["self_ty"].startswith("std::sync::Arc<")]
    if len(impl) != 1:
        raise core.Anchor("impl AsyncFileSystem for Arc<FS>")
    tr = A.traits[common.AFS_TRAIT]
    have = {m["name"]: m["key"] for m in impl[0]["items"] if m["kind"] == "Fn"}
    for m in tr["items"]:
        if m["kind"] != "Fn":
            continue
        n = m["name"]
        if not ctx.check("R3-helper-agreement", "Arc/%s/override" % n, n in have, "Arc<FS> does not forward AsyncFileSystem::%s" % n):
            continue
        b = A.fn(have[n])
        if b.key in A.async_fns:
            body, v = async_frame(A, b)
        else:
            body, v = b, vf.VF(b, inline_depth=0)
        fc = [c for c in live_calls(body) if c.trait == common.AFS_TRAIT]
        if not ctx.check("R3-helper-agreement", "Arc/%s/callee" % n, len(fc) == 1 and fc[0].name == n,
                         "Arc<FS>::%s forwards to %s" % (n, [c.name for c in fc]), loc=b.loc()):
            continue
        args = v.call_args(fc[0])
        bad = [k for k in range(1, len(args)) if args[k] != ("P", k + 1)]
        ctx.check("R3-helper-agreement", "Arc/%s/args" % n, not bad and len(args) == b.argc,
                  "Arc<FS>::%s does not pass its parameters through in order (positions %s)" % (n, bad), loc=fc[0].loc())
    ctx.floor("R3-helper-agreement", 30)


META = {
    "technique": "sibling agreement: MIR value-flow summaries of async coroutine bodies (await normalised) vs. their sync counterparts",
    "text": "Decides that the async dispatcher handles the same opcodes with the same or the async_-sibling handler and refuses before dispatch on "
            "the same conditions; that each of the ten async handlers calls the same filesystem operation with the same argument provenance, "
            "has the same reply sites with the same field provenance and reaches the filesystem under the same conditions; that the async reply "
            "helpers build the same header; that Arc<FS> forwards every async method unchanged; that the VFS multiplexer's async methods gate, route "
            "and translate exactly like their sync siblings (pseudo-fs read/write being ENOSYS on the async path is a reviewed difference); and that "
            "PassthroughFs's async methods delegate to its sync methods argument for argument.",
    "note": "Requires the async-io configuration to type-check. Not decided: scheduling effects of the executor; byte movement of the async "
            "read/write data path (compared by reply kinds only).",
}
