"""C11 — overlay disk state matches the live view across restart; copy-up preserves files (structural clauses).

R1 mkdir over whiteout   the whiteout in the upper layer is deleted first, and the directory replacing ANY whiteout is made opaque
R2 rm whiteout           the whiteout decision consults the parent's lower layers for the removed name (not just the node's own
                         backing inodes); it is cleared only for an opaque upper parent; whiteouts are removed before rmdir
R3 copy-up fidelity      directories: mkdir with the original st_mode (explicit mode only for the directory being created, never
                         for missing parents); files: create with st_mode, copy until a read returns 0 with accumulating offsets,
                         then release; symlinks: readlink -> symlink; what replaces the lower inodes
R4 marker agreement      what create_whiteout / set_opaque write is what is_whiteout / is_opaque recognise after a restart
R5 shared with C10       every mutation goes to the upper layer (C10.R1) and the union rules that re-read the markers (C10.R4)
R2 (cont.)              the helper asks every lower layer before it answers or moves on
R6 live tree             created nodes are registered (inode table, parent's children) on every path after creation; removed nodes are unregistered after the upper entry is gone
R7 preconditions         polarity table of the tests in front of the modifying steps (set_opaque/is_opaque on directories only, create_upper_dir recursion, copy-up parent creation, no creation below a whiteout, link source/target)
R4 (cont.)              create_whiteout reaches mknod only on paths that established a free name; is_opaque answers for a one-byte y/Y only
R6 (cont.)              add_upper_inode takes over the upper copy's whiteout state and keeps the lower inodes unless asked to clear them
"""
import json
import re

from pyfbr import core, vf
from rules import common
from rules import c10
from rules.c10 import OFS, OIN, RIN, FS, LAYER, live_calls, R, loop_switches, closure_passed_to, overlay_fns

MIB4 = 4 * 1024 * 1024


def run(ctx):
    ctx.explanation = (
        "Structural necessary conditions for the persistent overlay markers, read off the MIR: which blocks set the opaque / whiteout "
        "decision variables and whether every path to the mutation passes through them; that the whiteout decision's value depends on a "
        "lookup of the removed name in the parent's lower layers (call-graph reachability + argument provenance); copy-up argument "
        "provenance and loop-exit/step structure; agreement between the writers and the recognisers of whiteout and opaque markers.")
    F = ctx.facts("S") or ctx.facts("D")
    if F is None:
        return
    vf.NOUPD[0] = True
    vf.NOCAST[0] = True
    try:
        ctx.run_rule("R1-mkdir-over-whiteout", r1_mkdir, F)
        ctx.run_rule("R2-rm-whiteout", r2_rm, F)
        ctx.run_rule("R3-copy-up", r3_copy_up, F)
        ctx.run_rule("R4-marker-agreement", r4_markers, F)
        ctx.run_rule("R6-live-tree", r6_live_tree, F)
        ctx.run_rule("R7-preconditions", r7_preconditions, F)
        ctx.run_rule("R5-upper-only-mutation", c10.r1_sinks, F)
        ctx.run_rule("R5-union-rereads-markers", c10.r4_union, F)
    finally:
        vf.NOUPD[0] = False
        vf.NOCAST[0] = False
    ctx.assumptions += ["layers persist what they are asked to (whiteout device nodes, xattrs, file data)",
                        "crash points inside one operation (partial copy-up) are not examined: the code makes no atomicity claim there"]


def local_named(b, name):
    for l in range(len(b.locals)):
        if b.local_name(l) == name:
            return l
    raise core.Anchor("variable %s in %s" % (name, b.name))


def const_assign_blocks(b, l, value):
    out = []
    for d in b.defs.get(l, []):
        if d[2] == "assign" and d[4][0] == "use" and d[4][1][0] == "k" and d[4][1][1].get("v") == value and d[0] in b.reachable():
            out.append(d[0])
    return out


# ------------------------------------------------------------------------------------------- R1
def r1_mkdir(ctx, F):
    rule = "R1-mkdir-over-whiteout"
    b = F.method(OFS, "do_mkdir")
    ctx.fn_seen(b)
    v = vf.VF(b, inline_depth=0)
    so = local_named(b, "set_opaque")
    dw = local_named(b, "delete_whiteout")
    cu = [c for c in live_calls(b) if c.name == "copy_node_up"]
    if len(cu) != 1:
        raise core.Anchor("copy_node_up in do_mkdir")
    # the arm on which an existing node was found and is a whiteout
    arm = None
    for u in b.reachable():
        t = b.term(u)
        if t[0] == "switch":
            c = R(v.operand(t[1], u, len(b.stmts(u))), b, v)
            if c.startswith("Atomic::load(some(OverlayFs::lookup_node_ignore_enoent(self, ctx, parent_node.inode, name)?).whiteout"):
                arm = [tgt for (lab, tgt) in b.switch_edges(u) if lab == "otherwise"]
    if not arm:
        raise core.Anchor("whiteout test of the existing node in do_mkdir")
    T = arm[0]
    sets = set(const_assign_blocks(b, so, 1))
    ctx.check(rule, "opaque-when-replacing", bool(sets) and cu[0].bb not in b.reach_set(T, avoid=sets),
              "do_mkdir: a directory that replaces a whiteout is not always made opaque (there is a path from `existing node is a whiteout` to the "
              "creation that does not set set_opaque): once the whiteout is gone the lower directory's content shows through after a restart", loc=b.loc())
    # set_opaque is false when nothing was found (a plain new directory needs no marker) -- and only then
    clears = set(const_assign_blocks(b, so, 0))
    ctx.check(rule, "opaque-initially-false", len(clears) == 1 and b.dominates(list(clears)[0], T), "do_mkdir: set_opaque has %d `false` assignments" % len(clears), loc=b.loc())
    dsets = set(const_assign_blocks(b, dw, 1))
    up = "OverlayInode::in_upper_layer(some(OverlayFs::lookup_node_ignore_enoent(self, ctx, parent_node.inode, name)?))"
    ok = len(dsets) == 1
    if ok:
        g = [(R(x, b, v), l) for (x, l, u) in v.guards(list(dsets)[0])]
        ok = (up, "otherwise") in g
    elif not dsets:
        # or assigned the test's value directly on the whiteout arm
        vals = []
        for d in b.defs.get(dw, []):
            if d[0] in b.reachable() and d[0] in b.reach_set(T) and d[2] in ("assign", "call"):
                vals.append(R(v.rvalue(d[4], d[0], d[1]), b, v) if d[2] == "assign" else R(v.call_expr(d[4]), b, v))
        ok = vals == [up]
    ctx.check(rule, "delete-upper-whiteout", ok, "do_mkdir must delete the whiteout exactly when it lives in the upper layer", loc=b.loc())
    # in the closure: delete_whiteout -> mkdir -> set_opaque(child)
    cls = [c for c in F.closures_of(b.key) if closure_passed_to(F, c, "handle_upper_inode_locked")]
    if not ctx.check(rule, "closure", len(cls) == 1, "do_mkdir: %d closures run under the upper parent" % len(cls), loc=b.loc()):
        return
    cl = cls[0]
    cv = vf.VF(cl, inline_depth=0)
    d = [c for c in live_calls(cl) if c.name == "delete_whiteout"]
    m = [c for c in live_calls(cl) if c.name == "mkdir"]
    s = [c for c in live_calls(cl) if c.name == "set_opaque"]
    ok = len(d) == 1 and len(m) == 1 and len(s) == 1
    if ok:
        gd = [(R(x, cl, cv), l) for (x, l, u) in cv.guards(d[0].bb)]
        gs = [(R(x, cl, cv), l) for (x, l, u) in cv.guards(s[0].bb)]
        ok = ("^delete_whiteout", "otherwise") in gd and ("^set_opaque", "otherwise") in gs
        ok = ok and cl.can_reach(d[0].bb, m[0].bb) and cl.dominates(m[0].bb, s[0].bb)
        am = [R(x, cl, cv) for x in cv.call_args(m[0])]
        as_ = [R(x, cl, cv) for x in cv.call_args(s[0])]
        ad = [R(x, cl, cv) for x in cv.call_args(d[0])]
        ok = ok and am[2:] == ["^name", "^mode", "^umask"] and as_[2] == "RealInode::mkdir(some(parent_real_inode), ^ctx, ^name, ^mode, ^umask)?.inode"
        ok = ok and ad[2] == "some(parent_real_inode).inode" and "^name" in ad[3]
        # the mkdir is unconditional once the parent is there; its failure is propagated
        rt = R(cv.ret(), cl, cv)
        ok = ok and "residual(RealInode::mkdir(" in rt and "residual(Layer::set_opaque(" in rt
    ctx.check(rule, "closure/order", ok, "do_mkdir: under the upper parent the order must be delete whiteout (if any) -> mkdir(name, mode, umask) -> set_opaque(new dir), with failures propagated", loc=cl.loc())
    # the other creators replace the whiteout node's backing inodes wholesale (nothing of the hidden lower entry stays attached)
    for nm in ("do_mknod", "do_create", "do_symlink", "do_link"):
        fb = F.method(OFS, nm)
        ctx.fn_seen(fb)
        n = 0
        okc = True
        for c in F.closures_of(fb.key):
            ccv = vf.VF(c, inline_depth=0)
            for cc in live_calls(c):
                if cc.name == "add_upper_inode":
                    n += 1
                    a = [R(x, c, ccv) for x in ccv.call_args(cc)]
                    okc = okc and a[2] == "1"
                    dl = [x for x in live_calls(c) if x.name == "delete_whiteout"]
                    okc = okc and len(dl) == 1 and ("OverlayInode::in_upper_layer(^n)", "otherwise") in [(R(x, c, ccv), l) for (x, l, u) in ccv.guards(dl[0].bb)]
        ctx.check(rule, "%s/replaces-whiteout" % nm, n == 1 and okc, "%s: creating over a whiteout must delete the upper whiteout and replace all backing inodes of the node" % nm, loc=fb.loc())


# ------------------------------------------------------------------------------------------- R2
def reaches(F, start_key, target_suffix, limit=6):
    """does function start_key (transitively, within the crate) call a function whose key ends with target_suffix?"""
    seen = set()
    st = [(start_key, 0)]
    while st:
        k, d = st.pop()
        if k in seen or d > limit:
            continue
        seen.add(k)
        b = F.fns.get(k)
        if b is None:
            continue
        for c in live_calls(b):
            t = c.res or c.fn or ""
            if t.endswith(target_suffix):
                return True
            if t in F.fns:
                st.append((t, d + 1))
    return False


def r2_rm(ctx, F):
    rule = "R2-rm-whiteout"
    b = F.method(OFS, "do_rm")
    ctx.fn_seen(b)
    v = vf.VF(b, inline_depth=0)
    nw = local_named(b, "need_whiteout")
    # (a) the decision's value depends on a lookup of the removed name below the parent's lower layers
    e = vf.def_value(v, b, "need_whiteout")
    consults = []
    if e is not None:
        for x in vf.walk(e):
            if x[0] == "C" and x[1] in F.fns and reaches(F, x[1], "RealInode>::lookup_child"):
                args = [R(a, b, v) for a in x[3]]
                consults.append((x[1].rsplit("::", 1)[-1], args))
    okc = False
    for (nm, args) in consults:
        if any("copy_node_up(self, ctx, OverlayFs::lookup_node(self, ctx, parent, k(\"\"))?)?" in a or a == "OverlayFs::lookup_node(self, ctx, parent, k(\"\"))?" for a in args) and \
                any("to_string_lossy(name)" in a for a in args):
            okc = True
    ctx.check(rule, "decision-consults-lower", okc,
              "do_rm decides whether to leave a whiteout without looking the removed name up in the parent's lower layers (it depends on: %s): "
              "a node that only lives in the upper layer (copied up, or re-created over a whiteout) is removed without a whiteout and the "
              "lower entry of the same name reappears after a restart" % ([c[0] for c in consults] or "the node's own backing inodes only"), loc=b.loc())
    # (b) assignments of `false` in the body: none; in the closure: only under the upper parent's opaque flag
    body_clears = const_assign_blocks(b, nw, 0)
    ctx.check(rule, "no-node-based-clear", not body_clears, "do_rm clears need_whiteout in %d places of its body (a property of the node itself cannot make the whiteout unnecessary)" % len(body_clears), loc=b.loc())
    cls = [c for c in F.closures_of(b.key) if closure_passed_to(F, c, "handle_upper_inode_locked")]
    rmcl = [c for c in cls if [x for x in live_calls(c) if x.name in ("rmdir", "unlink")]]
    wcl = [c for c in cls if [x for x in live_calls(c) if x.name == "create_whiteout"]]
    if not ctx.check(rule, "closures", len(rmcl) == 1 and len(wcl) == 1, "do_rm: %d removing / %d whiteout-creating closures under the upper parent" % (len(rmcl), len(wcl)), loc=b.loc()):
        return
    rc = rmcl[0]
    rv = vf.VF(rc, inline_depth=0)
    clears = []
    for u in rc.reachable():
        for i, s in enumerate(rc.stmts(u)):
            if s[0] == "=" and "*" in json.dumps(s[1]) and s[2][0] == "use" and s[2][1][0] == "k" and s[2][1][1].get("ty") == "bool":
                g = [(R(x, rc, rv), l) for (x, l, w) in rv.guards(u)]
                clears.append((s[2][1][1].get("v"), g))
    ok = all(val == 0 and any(t.endswith("?.opaque") and "parent_upper_inode" in t and l == "otherwise" for (t, l) in g) for (val, g) in clears) and len(clears) <= 1
    ctx.check(rule, "clear-only-for-opaque-parent", ok, "do_rm: need_whiteout may be cleared only because the upper parent directory is opaque (found: %s)" % [(val, [t[:60] for (t, l) in g][-2:]) for (val, g) in clears], loc=rc.loc())
    # (c) removal in the upper layer only if the node has an upper inode; dir -> rmdir, else unlink; name = the request's name
    hl = [c for c in live_calls(b) if c.name == "handle_upper_inode_locked"]
    g0 = g1 = None
    for c in hl:
        a = v.call_args(c)[1]
        ck = [x for x in vf.walk(a) if x[0] == "CL"]
        if ck and ck[0][1] == rc.key:
            g0 = [(R(x, b, v), l) for (x, l, u) in v.guards(c.bb)]
            c_rm = c
        if ck and ck[0][1] == wcl[0].key:
            g1 = [(R(x, b, v), l) for (x, l, u) in v.guards(c.bb)]
            c_w = c
    node = 'OverlayFs::lookup_node(self, ctx, parent, String::as_str(T::to_string(CStr::to_string_lossy(name))))?'
    ctx.check(rule, "remove-if-upper", g0 is not None and ("OverlayInode::in_upper_layer(%s)" % node, "otherwise") in g0, "do_rm must remove the upper entry exactly when the node has one", loc=b.loc())
    for c in live_calls(rc):
        if c.name in ("rmdir", "unlink"):
            a = [R(x, rc, rv) for x in rv.call_args(c)]
            g = [(R(x, rc, rv), l) for (x, l, u) in rv.guards(c.bb)]
            ctx.check(rule, "remove/" + c.name, a[3] == "^name" and a[2].endswith("?.inode") and ("^dir", "otherwise" if c.name == "rmdir" else 0) in g,
                      "do_rm: %s(%s) under guards %s" % (c.name, a[2:], [x for x in g if "dir" in x[0]]), loc=c.loc())
    # (d) the whiteout is created after the removal, guarded by the decision, with the removed name, and registered in the live tree
    ok = g1 is not None and g0 is not None and b.can_reach(c_rm.bb, c_w.bb) and not b.can_reach(c_w.bb, c_rm.bb)
    wv = vf.VF(wcl[0], inline_depth=0)
    cw = [c for c in live_calls(wcl[0]) if c.name == "create_whiteout"]
    # the name handed to create_whiteout is the removed name: resolve the closure's capture in do_rm (local names are irrelevant)
    cle = None
    for c_ in live_calls(b):
        for a_ in v.call_args(c_):
            for x_ in vf.walk(a_):
                if x_[0] == "CL" and x_[1] == wcl[0].key:
                    cle = x_
    if cle is not None and len(cw) == 1:
        bv_ = vf.VF(wcl[0], inline_depth=0, params={1: cle})
        bv_.render_body = b
        wname = vf.render(bv_.call_args(cw[0])[2], b, short=True, vfx={wcl[0].key: bv_, b.key: v})
    else:
        wname = None
    ok = ok and len(cw) == 1 and wname == "String::as_str(T::to_string(CStr::to_string_lossy(name)))"
    ok = ok and [c for c in live_calls(wcl[0]) if c.name == "insert_child"] and [c for c in live_calls(wcl[0]) if c.name == "insert_inode"]
    # guarded by need_whiteout: the switch that dominates the call reads the local
    sw_ok = False
    if g1 is not None:
        for (x, l, u) in v.guards(c_w.bb):
            t = b.term(u)
            if t[0] == "switch" and t[1][0] in ("m", "c") and nw in c10.local_chain(b, t[1][1][0]) and l != 0:
                sw_ok = True
    ctx.check(rule, "whiteout-after-removal", ok and sw_ok, "do_rm: the whiteout must be created after the upper entry is gone, only if needed, under the removed name, and be entered into the live tree", loc=b.loc())
    # (e) directories: ENOTEMPTY for visible entries, upper whiteouts emptied before rmdir
    en = [c for c in live_calls(b) if c.name == "empty_node_directory"]
    ok = len(en) == 1 and b.can_reach(en[0].bb, c_rm.bb)
    if ok:
        g = [(R(x, b, v), l) for (x, l, u) in v.guards(en[0].bb)]
        ok = any(t.startswith("Lt(0, OverlayInode::count_entries_and_whiteout(") and t.endswith("?.1)") and l == "otherwise" for (t, l) in g) and \
            any(t.startswith("Le(OverlayInode::count_entries_and_whiteout(") and t.endswith("?.0, 0)") and l == "otherwise" for (t, l) in g) and \
            ("OverlayInode::in_upper_layer(%s)" % node, "otherwise") in g and ("dir", "otherwise") in g
    ctx.check(rule, "rmdir/empties-whiteouts-first", ok, "do_rm(dir): visible entries -> ENOTEMPTY; leftover upper whiteouts must be deleted before rmdir of the upper directory", loc=b.loc())
    # (f) the helper that consults the lower layers
    hb = F.fns.get("overlayfs::<overlayfs::OverlayInode>::lower_layers_have_child")
    if ctx.check(rule, "helper/exists", hb is not None, "OverlayInode::lower_layers_have_child is gone; the whiteout decision helper is not reviewed", loc=b.loc()):
        ctx.fn_seen(hb)
        hv = vf.VF(hb, inline_depth=0, opaque_loops=True)
        lk = [c for c in live_calls(hb) if c.name == "lookup_child"]
        ok = len(lk) == 1
        if ok:
            g = [(R(x, hb, hv), l) for (x, l, u) in hv.guards(lk[0].bb)]
            a = [R(x, hb, hv) for x in hv.call_args(lk[0])]
            ok = ("some(Iter::next(loop(iter))).in_upper_layer", 0) in g and a == ["some(Iter::next(loop(iter)))", "ctx", "name"]
            rt = R(hv.ret(), hb, hv)
            ok = ok and "Ok(Not(some(RealInode::lookup_child(some(Iter::next(loop(iter))), ctx, name)?).whiteout))" in rt and "=> Ok(0)" in rt
            it = [c for c in live_calls(hb) if c.name == "iter"]
            ok = ok and len(it) == 1 and "self.real_inodes" in R(hv.call_args(it[0])[0], hb, hv)
        # no answer for a lower layer before that layer was asked: inside the loop every way out of an iteration
        # (return, or back to the loop head) passes the lookup, except the `continue` for the upper inode
        early = None
        if len(lk) == 1:
            nx = [c for c in live_calls(hb) if c.name == "next"]
            head = nx[0].bb if len(nx) == 1 else None
            if head is None:
                early = "loop head not found"
            else:
                rs = hb.reach_set(lk[0].bb, avoid=(head,))     # blocks of an iteration after the lookup
                some = [s for s in hb.succs(hb.succs(head)[0]) if hb.can_reach(s, lk[0].bb, avoid=(head,))]
                for s0 in some:
                    pre = hb.reach_set(s0, avoid=(lk[0].bb, head))
                    for u in sorted(pre):
                        if hb.term(u)[0] == "ret":
                            early = "bb%d returns before lookup_child was called for this layer" % u
                        if head in hb.succs(u):
                            gg = [(R(x, hb, hv), l) for (x, l, w) in hv.guards(u)]
                            if ("some(Iter::next(loop(iter))).in_upper_layer", "otherwise") not in gg:
                                early = "bb%d skips a layer that is not the upper one (guards %s)" % (u, [t[:50] for (t, l) in gg][-3:])
                if not some:
                    early = "iteration entry not found"
        ctx.check(rule, "helper/asks-before-answering", early is None, "lower_layers_have_child: %s; each lower layer, opaque or not, provides its own entries and must be asked before the walk ends" % early, loc=hb.loc())
        ctx.check(rule, "helper/semantics", ok, "lower_layers_have_child must walk self.real_inodes top-down, skip upper inodes, and answer with the first lower layer that knows the name (true unless it is a whiteout), false if none does", loc=hb.loc())


# ------------------------------------------------------------------------------------------- R3
def r3_copy_up(ctx, F):
    rule = "R3-copy-up"
    # ---- directories
    b = F.method(OIN, "create_upper_dir")
    ctx.fn_seen(b)
    v = vf.VF(b, inline_depth=0)
    rec = [c for c in live_calls(b) if c.name == "create_upper_dir"]
    ok = len(rec) == 1
    if ok:
        a = [R(x, b, v) for x in v.call_args(rec[0])]
        g = [(R(x, b, v), l) for (x, l, u) in v.guards(rec[0].bb)]
        ok = a[2] == "None" and a[0] == "some(Weak::upgrade(Result::unwrap(Mutex::lock(self.parent))))" and ("OverlayInode::in_upper_layer(%s)" % a[0], 0) in g
    ctx.check(rule, "dir/parents-keep-own-mode", ok,
              "create_upper_dir must create missing parents with `None` (each takes its own lower st_mode); it passes `%s`" % (R(v.call_args(rec[0])[2], b, v)[:120] if rec else "?"), loc=b.loc())
    cls = [c for c in F.closures_of(b.key) if closure_passed_to(F, c, "handle_upper_inode_locked")]
    ok = len(cls) == 1
    if ok:
        cl = cls[0]
        cv = vf.VF(cl, inline_depth=0)
        mk = [c for c in live_calls(cl) if c.name == "mkdir"]
        got = set()
        for c in mk:
            a = [R(x, cl, cv) for x in cv.call_args(c)]
            g = [(R(x, cl, cv), l) for (x, l, u) in cv.guards(c.bb)]
            arm = [l for (t, l) in g if t == "discr(^mode_umask)"]
            got.add((tuple(a[2:]), arm[0] if arm else None))
        want = {(("String::as_str(^self.name)", "some(^mode_umask).0", "some(^mode_umask).1"), 1), (("String::as_str(^self.name)", "^st.st_mode", "0"), 0)}
        ok = got == want
    ctx.check(rule, "dir/mode", ok, "create_upper_dir must mkdir(self.name, mode, umask) with the caller's (mode, umask) if given, else the lower directory's full st_mode and umask 0; got %s" % (sorted(got) if cls else "?"), loc=b.loc())
    # st is the node's own stat
    st = vf.def_value(v, b, "st")
    ctx.check(rule, "dir/st", st is not None and R(st, b, v) == "OverlayInode::stat64(self, ctx)?", "create_upper_dir: `st` is not the directory's own attributes", loc=b.loc())
    au = [c for c in live_calls(b) if c.name == "add_upper_inode"]
    ctx.check(rule, "dir/keeps-lowers", len(au) == 1 and R(v.call_args(au[0])[2], b, v) == "0", "create_upper_dir must keep the lower directories attached (merged directory)", loc=b.loc())

    # ---- regular files
    b = F.method(OFS, "copy_regfile_up")
    ctx.fn_seen(b)
    v = vf.VF(b, inline_depth=0, opaque_loops=True)
    args = vf.def_value(v, b, "args")
    t = R(args, b, v) if args is not None else ""
    ctx.check(rule, "file/create-args", t == "CreateIn{flags: O_WRONLY, mode: OverlayInode::stat64(node, ctx)?.st_mode, umask: 0, fuse_flags: 0}",
              "copy_regfile_up creates the upper file with `%s`; required flags O_WRONLY, the lower file's st_mode, umask 0" % t[:200], loc=b.loc(), detail=t[:160])
    cls = [c for c in F.closures_of(b.key) if closure_passed_to(F, c, "handle_upper_inode_locked")]
    ok = len(cls) == 1
    if ok:
        cv = vf.VF(cls[0], inline_depth=0)
        cr = [c for c in live_calls(cls[0]) if c.name == "create"]
        ok = len(cr) == 1 and [R(x, cls[0], cv) for x in cv.call_args(cr[0])][2:] == ["String::as_str(^node.name)", "^args"]
    ctx.check(rule, "file/create-name", ok, "copy_regfile_up must create (node.name, args) under the upper parent", loc=b.loc())
    lower = "OverlayInode::first_layer_inode(node).0.0.pointer"
    rd = [c for c in live_calls(b) if c.name == "read" and c.trait == FS]
    wr = [c for c in live_calls(b) if c.name == "write" and c.trait == FS]
    op = [c for c in live_calls(b) if c.name == "open" and c.trait == FS]
    if not ctx.check(rule, "file/shape", len(rd) == 1 and len(wr) == 1 and len(op) == 1, "copy_regfile_up: %d reads / %d writes / %d opens" % (len(rd), len(wr), len(op)), loc=b.loc()):
        return
    ao = [R(x, b, v) for x in v.call_args(op[0])]
    ctx.check(rule, "file/source", ao[0] == lower and ao[2] == "OverlayInode::first_layer_inode(node).2" and ao[3] == "O_RDONLY", "copy_regfile_up must read the node's first (lower) inode opened O_RDONLY", loc=op[0].loc())
    for (c, what) in ((rd[0], "read"), (wr[0], "write")):
        hs = [h for h in v.loop_headers() if b.dominates(h, c.bb) and b.can_reach(c.bb, h)]
        if not ctx.check(rule, "file/%s-loop" % what, len(hs) == 1, "copy_regfile_up: the %s is not in a loop" % what, loc=c.loc()):
            continue
        h = hs[0]
        a = [R(x, b, v) for x in v.call_args(c)]
        call_t = R(v.call_expr(c), b, v)
        size_i, off_i = (5, 6)
        ctx.check(rule, "file/%s-args" % what, a[off_i] == "loop(offset)" and a[size_i].isdigit() and int(a[size_i]) >= 4096,
                  "copy_regfile_up: %s(size=%s, offset=%s)" % (what, a[size_i], a[off_i][:60]), loc=c.loc())
        # the offset steps by what was transferred
        ol = [l for l in range(len(b.locals)) if b.local_name(l) == "offset"]
        stepped = False
        for l in ol:
            init, step = v.loop_def(l, h)
            ii = [R(x, b, v) for (p, x) in init]
            ss = [R(x, b, v) for (p, x) in step]
            if ss and all(s in ("Add(%s?, loop(offset))" % call_t, "Add(loop(offset), %s?)" % call_t) for s in ss) and ii and all(i == "0" for i in ii):
                stepped = True
        ctx.check(rule, "file/%s-offset" % what, stepped, "copy_regfile_up: the %s offset must start at 0 and advance by the number of bytes the %s returned" % (what, what), loc=c.loc())
        # the loop ends only when the transfer returned 0 (or failed)
        sws = loop_switches(b, v, h)
        exits = [(cond, lab) for (cond, edges, u, g) in sws for (lab, kind) in edges.items() if kind == "exit" and lab != "otherwise" or (kind == "exit" and lab == "otherwise" and not cond.startswith("discr("))]
        allowed = []
        bad = []
        for (cond, edges, u, g) in sws:
            for (lab, kind) in edges.items():
                if kind != "exit":
                    continue
                if cond == "Eq(0, %s?)" % call_t and lab == "otherwise":
                    allowed.append("zero")
                elif cond == "discr(Result::branch(%s))" % call_t and lab in (1, "otherwise"):
                    allowed.append("error")
                elif cond in ("variant(None)", "discr(None)") or cond.startswith("discr(phi") or cond.startswith("variant("):
                    allowed.append("no-upper-inode")
                else:
                    bad.append((cond[:100], lab))
        ctx.check(rule, "file/%s-until-zero" % what, "zero" in allowed and not bad,
                  "copy_regfile_up: the %s loop may stop only when a %s returns 0 (a short transfer is not the end of the file); other exits: %s" % (what, what, bad[:2]), loc=c.loc())
    # release of the lower handle happens after the read loop; the temp file is rewound before writing
    sk = [c for c in live_calls(b) if c.name == "seek"]
    ok = len(sk) == 1 and R(v.call_args(sk[0])[1], b, v) == "SeekFrom::Start{0: 0}" and b.dominates(rd[0].bb, sk[0].bb) and b.dominates(sk[0].bb, wr[0].bb)
    ctx.check(rule, "file/rewind", ok, "copy_regfile_up must rewind the bounce file between reading and writing", loc=b.loc())
    au = [c for c in live_calls(b) if c.name == "add_upper_inode"]
    ctx.check(rule, "file/replaces-lowers", len(au) == 1 and R(v.call_args(au[0])[2], b, v) == "1" and b.dominates(wr[0].bb, au[0].bb) or (len(au) == 1 and R(v.call_args(au[0])[2], b, v) == "1" and b.can_reach(wr[0].bb, au[0].bb)),
              "copy_regfile_up must switch the node to the upper file only after the data was written", loc=b.loc())
    # the bounce File copies `count` bytes per call (no hidden cap that the caller's loops would not notice)
    for (tr, meth, inner) in (("api::filesystem::ZeroCopyReader", "read_to", "read_volatile"), ("api::filesystem::ZeroCopyWriter", "write_from", "read_at_volatile")):
        ms = [x for x in F.fns.values() if x.name == meth and x.key.startswith("overlayfs::") and (x.trait or "").endswith(tr.rsplit("::", 1)[-1])]
        if not ctx.check(rule, "bounce/%s" % meth, len(ms) == 1, "overlay File::%s implementations: %d" % (meth, len(ms))):
            continue
        m = ms[0]
        ctx.fn_seen(m)
        mv = vf.VF(m, inline_depth=0)
        fr = [c for c in live_calls(m) if c.name == "from_raw_ptr"]
        lens = [R(mv.call_args(c)[1], m, mv) for c in fr]
        ctx.check(rule, "bounce/%s/count" % meth, bool(lens) and lens[0] == "count", "overlay File::%s transfers `%s` bytes per call instead of the requested count" % (meth, lens[:1]), loc=m.loc())

    # ---- symlinks
    b = F.method(OFS, "copy_symlink_up")
    ctx.fn_seen(b)
    v = vf.VF(b, inline_depth=0)
    rl = [c for c in live_calls(b) if c.name == "readlink"]
    ok = len(rl) == 1 and [R(x, b, v) for x in v.call_args(rl[0])][0] == lower and R(v.call_args(rl[0])[2], b, v) == "OverlayInode::first_layer_inode(node).2"
    ctx.check(rule, "symlink/source", ok, "copy_symlink_up must read the target from the node's first (lower) inode", loc=b.loc())
    cls = [c for c in F.closures_of(b.key) if closure_passed_to(F, c, "handle_upper_inode_locked")]
    ok = len(cls) == 1
    if ok:
        cv = vf.VF(cls[0], inline_depth=0)
        sy = [c for c in live_calls(cls[0]) if c.name == "symlink"]
        ok = len(sy) == 1 and [R(x, cls[0], cv) for x in cv.call_args(sy[0])][2:] == ["^path", "String::as_str(^node.name)"]
    ok = ok and any("str::from_utf8(FileSystem::readlink(%s, ctx, OverlayInode::first_layer_inode(node).2)?)" % lower in R(v.call_args(c)[0], b, v) for c in live_calls(b) if c.name == "map_err")
    # the closure captures the converted string
    hl = [c for c in live_calls(b) if c.name == "handle_upper_inode_locked"]
    ok = ok and len(hl) == 1 and "str::from_utf8(FileSystem::readlink(" in json.dumps(R(v.call_args(hl[0])[1], b, v)) or ok and len(hl) == 1 and captured_contains(v, b, hl[0], "from_utf8")
    ctx.check(rule, "symlink/target", ok, "copy_symlink_up must create symlink(target read from the lower link, node.name) under the upper parent", loc=b.loc())
    au = [c for c in live_calls(b) if c.name == "add_upper_inode"]
    ctx.check(rule, "symlink/replaces-lowers", len(au) == 1 and R(v.call_args(au[0])[2], b, v) == "1", "copy_symlink_up must replace the lower inode", loc=b.loc())
    # ---- dispatch
    b = F.method(OFS, "copy_node_up")
    ctx.fn_seen(b)
    v = vf.VF(b, inline_depth=0)
    got = {}
    for c in live_calls(b):
        if c.name in ("create_upper_dir", "copy_symlink_up", "copy_regfile_up"):
            g = [(R(x, b, v), l) for (x, l, u) in v.guards(c.bb)]
            got[c.name] = [(t, l) for (t, l) in g if t.startswith(("utils::is_dir(", "Eq(BitAnd(", "Ne(BitAnd("))]
            if c.name == "create_upper_dir":
                ctx.check(rule, "dispatch/dir-mode", R(v.call_args(c)[2], b, v) == "None", "copy_node_up must copy a directory up with its own mode", loc=c.loc())
    d = "utils::is_dir(OverlayInode::stat64(node, ctx)?)"
    lnk = "Eq(BitAnd(OverlayInode::stat64(node, ctx)?.st_mode, S_IFMT), S_IFLNK)"
    nlnk = "Ne(BitAnd(OverlayInode::stat64(node, ctx)?.st_mode, S_IFMT), S_IFLNK)"
    want = {"create_upper_dir": [(d, "otherwise")], "copy_symlink_up": [(d, 0), (lnk, "otherwise")], "copy_regfile_up": [(d, 0), (nlnk, "otherwise")]}
    got2 = {k: [(t.replace("BitAnd(S_IFMT, OverlayInode::stat64(node, ctx)?.st_mode)", "BitAnd(OverlayInode::stat64(node, ctx)?.st_mode, S_IFMT)"), l) for (t, l) in v_] for k, v_ in got.items()}
    ctx.check(rule, "dispatch", got2 == want, "copy_node_up dispatches %s; required dir -> create_upper_dir, S_IFLNK -> copy_symlink_up, else copy_regfile_up" % got2, loc=b.loc())
    ctx.floor(rule, 24)


def captured_contains(v, b, call, needle):
    for x in vf.walk(v.call_args(call)[1]):
        if x[0] == "CL":
            for cap in x[2]:
                if needle in vf.render(cap, b, short=True, vfx=v):
                    return True
    return False


# ------------------------------------------------------------------------------------------- R7
# (function, callee that does the work, facts that must hold at that call: (text prefix, truth))
PRECONDITIONS = [
    ("Layer::set_opaque", "setxattr", [("overlay::is_dir(FileSystem::getattr(self, ctx, inode, None)?.0)", True)], "only a directory is marked opaque"),
    ("Layer::is_opaque", "call", [("overlay::is_dir(FileSystem::getattr(self, ctx, inode, None)?.0)", True)], "only a directory is asked for the opaque mark"),
    ("OverlayInode::create_upper_dir", "handle_upper_inode_locked", [("utils::is_dir(OverlayInode::stat64(self, ctx)?)", True), ("OverlayInode::in_upper_layer(self)", False)],
     "a directory is created in the upper layer only for a directory that has no upper copy yet"),
    ("OverlayInode::create_upper_dir", "create_upper_dir", [("OverlayInode::in_upper_layer(self)", False), ("OverlayInode::in_upper_layer(some(Weak::upgrade(", False)],
     "the parent is created first exactly when it has no upper copy"),
    ("OverlayFs::empty_node_directory", "in_upper_layer", [("utils::is_dir(OverlayInode::stat64(node, ctx)?)", True)], "only a directory is emptied"),
    ("OverlayFs::copy_regfile_up", "create_upper_dir", [("OverlayInode::in_upper_layer(node)", False), ("OverlayInode::in_upper_layer(some(Weak::upgrade(", False)],
     "the parent directory is created in the upper layer exactly when it is missing there"),
    ("OverlayFs::copy_symlink_up", "create_upper_dir", [("OverlayInode::in_upper_layer(node)", False), ("OverlayInode::in_upper_layer(some(Weak::upgrade(", False)],
     "the parent directory is created in the upper layer exactly when it is missing there"),
    ("OverlayFs::do_mkdir", "copy_node_up", [("Atomic::load(parent_node.whiteout, Relaxed)", False)], "nothing is created below a deleted directory"),
    ("OverlayFs::do_create", "copy_node_up", [("Atomic::load(parent_node.whiteout, Relaxed)", False)], "nothing is created below a deleted directory"),
    ("OverlayFs::do_mknod", "copy_node_up", [("Atomic::load(parent_node.whiteout, Relaxed)", False)], "nothing is created below a deleted directory"),
    ("OverlayFs::do_symlink", "copy_node_up", [("Atomic::load(parent_node.whiteout, Relaxed)", False)], "nothing is created below a deleted directory"),
    ("OverlayFs::do_mkdir", "from_raw_os_error:EEXIST", [("Atomic::load(some(OverlayFs::lookup_node_ignore_enoent(", False)], "an existing name is refused exactly when it is not a whiteout"),
    ("OverlayFs::do_create", "from_raw_os_error:EEXIST", [("Atomic::load(some(OverlayFs::lookup_node_ignore_enoent(", False)], "an existing name is refused exactly when it is not a whiteout"),
    ("OverlayFs::do_mknod", "from_raw_os_error:EEXIST", [("Atomic::load(some(OverlayFs::lookup_node_ignore_enoent(", False)], "an existing name is refused exactly when it is not a whiteout"),
    ("OverlayFs::do_symlink", "from_raw_os_error:EEXIST", [("Atomic::load(some(OverlayFs::lookup_node_ignore_enoent(", False)], "an existing name is refused exactly when it is not a whiteout"),
    ("OverlayFs::do_link", "from_raw_os_error:EEXIST", [("Atomic::load(some(OverlayFs::lookup_node_ignore_enoent(", False)], "an existing name is refused exactly when it is not a whiteout"),
    ("OverlayInode::scan_childrens", "readdir", [("utils::is_dir(OverlayInode::stat64(self, ctx)?)", True)], "only a directory has children to scan"),
    ("OverlayFs::empty_node_directory", "empty_node_directory", [("utils::is_dir(OverlayInode::stat64(node, ctx)?)", True)], "sub-directories in the upper layer are emptied recursively before they are removed"),
    ("OverlayFs::do_rm", "load_directory", [("dir", True)], "a directory's children are loaded before its emptiness is judged"),
    ("OverlayFs::do_rm", "count_entries_and_whiteout", [("dir", True)], "emptiness is judged for directories"),
    ("OverlayFs::do_link", "copy_node_up", [("Atomic::load(src_node.whiteout, Relaxed)", False), ("Atomic::load(new_parent.whiteout, Relaxed)", False), ("utils::is_dir(OverlayInode::stat64(src_node, ctx)?)", False)],
     "a link is made from a live non-directory into a live directory"),
]


def r7_load_before_count(ctx, F):
    b = F.method(OFS, "do_rm")
    ld = [c for c in live_calls(b) if c.name == "load_directory"]
    ce = [c for c in live_calls(b) if c.name == "count_entries_and_whiteout"]
    ctx.check("R7-preconditions", "OverlayFs::do_rm/load-before-count", len(ld) == 1 and len(ce) == 1 and b.dominates(ld[0].bb, ce[0].bb),
              "do_rm must load the directory's children before counting them: an unloaded directory looks empty and is removed with its content", loc=b.loc())


def r7_preconditions(ctx, F):
    r7_load_before_count(ctx, F)
    """Polarity of the precondition tests in front of the overlay's modifying steps: each step runs exactly when its precondition
    holds (a negated test turns every legitimate call into a refusal, or the reverse, and the trees diverge at once)."""
    rule = "R7-preconditions"
    for (fn, callee, need, why) in PRECONDITIONS:
        adt, nm = fn.split("::")
        if adt == "Layer":
            bs = [x for x in F.fns.values() if x.name == nm and "overlay::Layer" in x.key]
            if len(bs) != 1:
                raise core.Anchor(fn)
            b = bs[0]
        else:
            b = F.method(OFS if adt == "OverlayFs" else OIN, nm)
        ctx.fn_seen(b)
        v = vf.VF(b, inline_depth=0)
        if ":" in callee:
            cn, carg = callee.split(":")
            cs = [c for c in live_calls(b) if c.name == cn and R(v.call_args(c)[0], b, v) == carg]
        else:
            cs = [c for c in live_calls(b) if c.name == callee]
        if not ctx.check(rule, "%s/%s/present" % (fn, callee), bool(cs), "%s no longer calls %s" % (fn, callee), loc=b.loc()):
            continue
        for (pref, truth) in need:
            ok = True
            for c in cs:
                g = [(R(x, b, v), l) for (x, l, u) in v.guards(c.bb)]
                ok = ok and any(t.startswith(pref) and ((l != 0) == truth) for (t, l) in g)
            ctx.check(rule, "%s/%s/%s%s" % (fn, callee, "" if truth else "not-", re.sub(r"[^A-Za-z_]+", "_", pref)[:40]), ok,
                      "%s: %s must run only when `%s` is %s (%s)" % (fn, callee, pref[:70], "true" if truth else "false", why), loc=cs[0].loc())


# ------------------------------------------------------------------------------------------- R6
def r6_live_tree(ctx, F):
    """The running instance's tree follows what was done on disk (otherwise it differs from a restarted one): a node created in
    the upper layer is registered in the inode table and in its parent's children on every path that goes on; a removed
    node is taken out of both, unconditionally, after the upper entry is gone."""
    rule = "R6-live-tree"
    for nm in ("do_create", "do_link", "do_mkdir", "do_mknod", "do_symlink"):
        b = F.method(OFS, nm)
        ctx.fn_seen(b)
        v = vf.VF(b, inline_depth=0)
        arcs = [c for c in live_calls(b) if c.name == "new" and "Arc" in (c.fn or "") and b.local_ty(c.dest[0]).endswith("Arc<overlayfs::OverlayInode>")]
        if not ctx.check(rule, nm + "/new-node", len(arcs) == 1, "%s creates %d new overlay nodes (one expected: the `name does not exist yet` arm)" % (nm, len(arcs)), loc=b.loc()):
            continue
        node = R(v.call_expr(arcs[0]), b, v)
        for call, want in (("insert_inode", [node + ".inode", node]), ("insert_child", ["name", node])):
            cs = [c for c in live_calls(b) if c.name == call]
            region = b.reach_set(arcs[0].target, avoid=set(c.bb for c in cs)) if arcs[0].target is not None else set()
            skipped = [r for r in b.return_blocks() if r in region]
            args_ok = bool(cs) and all([R(x, b, v) for x in v.call_args(c)[1:]] == want for c in cs)
            ctx.check(rule, "%s/%s" % (nm, call), bool(cs) and not skipped and args_ok,
                      "%s: the node created in the upper layer must be entered with %s(%s) on every path after its creation (calls: %s; a return is reachable without it: %s)"
                      % (nm, call, ", ".join(want)[:80], [[R(x, b, v)[:40] for x in v.call_args(c)[1:]] for c in cs], bool(skipped)), loc=b.loc())
    # a node that gains an upper copy takes over that copy's whiteout state (a directory made over a whiteout is alive again)
    au = F.method(OIN, "add_upper_inode")
    ctx.fn_seen(au)
    av = vf.VF(au, inline_depth=0)
    st = [c for c in live_calls(au) if c.name == "store"]
    ok = len(st) == 1 and [R(x, au, av) for x in av.call_args(st[0])][:2] == ["self.whiteout", "ri.whiteout"] and not [1 for (x, l, u) in av.guards(st[0].bb) if not R(x, au, av).startswith("discr(")]
    ctx.check(rule, "add_upper_inode/takes-whiteout-state", ok, "OverlayInode::add_upper_inode must set the node's whiteout flag from the new upper inode, unconditionally", loc=au.loc())
    ex = [c for c in live_calls(au) if c.name == "extend"]
    gl = [[(R(x, au, av), l) for (x, l, u) in av.guards(c.bb) if not R(x, au, av).startswith("discr(")] for c in ex]
    ctx.check(rule, "add_upper_inode/keeps-lowers-unless-asked", sorted(map(str, gl)) == sorted(map(str, [[("clear_lowers", 0)], []])),
              "OverlayInode::add_upper_inode must put the new inode first and keep the lower ones exactly when clear_lowers is false (extends under %s)" % gl, loc=au.loc())
    b = F.method(OFS, "do_rm")
    v = vf.VF(b, inline_depth=0)
    node = 'OverlayFs::lookup_node(self, ctx, parent, String::as_str(T::to_string(CStr::to_string_lossy(name))))?'
    ri = [c for c in live_calls(b) if c.name == "remove_inode"]
    rc = [c for c in live_calls(b) if c.name == "remove_child"]
    ok = len(ri) == 1 and len(rc) == 1
    if ok:
        a1 = [R(x, b, v) for x in v.call_args(ri[0])]
        a2 = [R(x, b, v) for x in v.call_args(rc[0])]
        g1 = [(R(x, b, v), l) for (x, l, u) in v.guards(ri[0].bb) if not R(x, b, v).startswith("discr(")]
        g2 = [(R(x, b, v), l) for (x, l, u) in v.guards(rc[0].bb) if not R(x, b, v).startswith("discr(")]
        base = [c for c in live_calls(b) if c.name == "lower_layers_have_child"]
        g0 = [(R(x, b, v), l) for (x, l, u) in v.guards(base[0].bb)] if base else []
        g1 = [x for x in g1 if x not in g0]     # entry refusals (read-only overlay, whiteout-ed parent or node) apply to the whole operation
        g2 = [x for x in g2 if x not in g0]
        ok = a1[1] == node + ".inode" and a2[1] == "String::as_str(%s.name)" % node and "copy_node_up(" in a2[0] and not g1 and not g2 and bool(base)
    ctx.check(rule, "do_rm/unregisters", ok, "do_rm must take the removed node out of the inode table and out of its parent's children, unconditionally", loc=b.loc())
    if ok:
        hu = [c for c in live_calls(b) if c.name == "handle_upper_inode_locked"]
        ctx.check(rule, "do_rm/after-removal", bool(hu) and b.can_reach(hu[0].bb, ri[0].bb) and not b.can_reach(ri[0].bb, hu[0].bb),
                  "do_rm must unregister the node after the upper entry was removed (a failed removal leaves the node in place)", loc=b.loc())
    b = F.method(OFS, "empty_node_directory")
    ctx.fn_seen(b)
    v = vf.VF(b, inline_depth=0, opaque_loops=True)
    ri = [c for c in live_calls(b) if c.name == "remove_inode"]
    rc = [c for c in live_calls(b) if c.name == "remove_child"]
    ok = len(ri) == 1 and len(rc) == 1 and b.dominates(ri[0].bb, rc[0].bb)
    if ok:
        a1 = [R(x, b, v) for x in v.call_args(ri[0])]
        a2 = [R(x, b, v) for x in v.call_args(rc[0])]
        ch = a1[1][:-len(".inode")] if a1[1].endswith(".inode") else None
        ok = ch is not None and a2[0] == "node" and a2[1] == "String::as_str(%s.name)" % ch
        g0 = [(R(x, b, v), l) for (x, l, u) in v.guards(ri[0].bb)]
        ok = ok and not [1 for (t, l) in g0 if "in_upper_layer" in t and l == 0 and False]
    ctx.check(rule, "empty_node_directory/unregisters-each-child", ok, "empty_node_directory must drop every child it deleted from the inode table and from the directory's children", loc=b.loc())


# ------------------------------------------------------------------------------------------- R4
def r4_markers(ctx, F):
    rule = "R4-marker-agreement"
    # Layer default methods (trait provided bodies)
    def prov(name):
        k = "api::filesystem::overlay::Layer::%s" % name
        b = F.fns.get(k)
        if b is None:
            cands = [x for x in F.fns.values() if x.name == name and "overlay::Layer" in x.key]
            if len(cands) == 1:
                return cands[0]
            raise core.Anchor("Layer::%s default body" % name)
        return b
    b = prov("create_whiteout")
    ctx.fn_seen(b)
    v = vf.VF(b, inline_depth=0)
    mk = [c for c in live_calls(b) if c.name == "mknod"]
    ok = len(mk) == 1
    if ok:
        a = [R(x, b, v) for x in v.call_args(mk[0])]
        ok = a[3] == "name" and a[4] in ("BitOr(S_IFCHR, 511)", "BitOr(511, S_IFCHR)", "8703") and a[5] in ("libc::makedev(0, 0)", "0") and a[6] == "0"
    ctx.check(rule, "whiteout/writer", ok, "Layer::create_whiteout must create a character device 0/0 (S_IFCHR) named `name`: mknod%s" % ([R(x, b, v) for x in v.call_args(mk[0])][3:] if mk else "?"), loc=b.loc())
    rt = R(v.ret(), b, v)
    ctx.check(rule, "whiteout/writer-existing", "overlay::is_whiteout(FileSystem::lookup(" in "".join(R(x, b, v) for (x, l, u) in [g for c in live_calls(b) for g in v.guards(c.bb)]) and "EEXIST" in "".join(R(v.call_args(c)[0], b, v) for c in live_calls(b) if c.name == "from_raw_os_error"),
              "Layer::create_whiteout must accept an existing whiteout and refuse (EEXIST) any other existing entry", loc=b.loc())
    # the device node is made exactly when the name is free: the lookup found nothing (inode 0) or failed with ENOENT
    if len(mk) == 1:
        from rules import c18
        paths = [[(t_, l_) for (t_, l_) in pf if not t_.startswith("discr(Result::branch")] for pf in c18.path_facts(b, v, mk[0].bb)]
        free = lambda pf: any(t_.startswith("Eq(0, FileSystem::lookup(self, ctx, parent, name)?.inode)") and l_ != 0 for (t_, l_) in pf) or \
            any(t_.startswith("Eq(ENOENT, some(Error::raw_os_error(FileSystem::lookup(self, ctx, parent, name)") and l_ != 0 for (t_, l_) in pf) or \
            any(t_.startswith("PartialEq::ne(Error::raw_os_error(FileSystem::lookup(self, ctx, parent, name)") and l_ == 0 for (t_, l_) in pf) or \
            any(t_.startswith("PartialEq::eq(Error::raw_os_error(FileSystem::lookup(self, ctx, parent, name)") and l_ != 0 for (t_, l_) in pf)
        ctx.check(rule, "whiteout/writer-only-free-names", bool(paths) and all(free(pf) for pf in paths) and len(paths) == 2,
                  "Layer::create_whiteout reaches mknod on %d paths; each must have established that the name is free (lookup gave inode 0, or failed with ENOENT): %s"
                  % (len(paths), [[(t_[:40], l_) for (t_, l_) in pf][-2:] for pf in paths]), loc=mk[0].loc())
    b = prov("is_whiteout")
    v = vf.VF(b, inline_depth=0)
    t = R(v.ret(), b, v)
    ctx.check(rule, "whiteout/reader", "Ok(overlay::is_whiteout(FileSystem::getattr(self, ctx, inode, None)?.0))" in t, "Layer::is_whiteout computes `%s`" % t[:200], loc=b.loc())
    # (the predicate itself -- chardev && major == 0 && minor == 0 -- is C10.R4 `recogniser/is_whiteout`)
    b = prov("delete_whiteout")
    ctx.fn_seen(b)
    v = vf.VF(b, inline_depth=0)
    ul = [c for c in live_calls(b) if c.name == "unlink"]
    ok = len(ul) == 1 and any(t.startswith("overlay::is_whiteout(") and l == "otherwise" for (t, l) in [(R(x, b, v), l) for (x, l, u) in v.guards(ul[0].bb)])
    ctx.check(rule, "whiteout/delete-only-whiteouts", ok, "Layer::delete_whiteout must unlink the name only if it is a whiteout", loc=b.loc())
    b = prov("set_opaque")
    ctx.fn_seen(b)
    v = vf.VF(b, inline_depth=0)
    sx = [c for c in live_calls(b) if c.name == "setxattr"]
    wname = None
    ok = len(sx) == 1
    if ok:
        a = [R(x, b, v) for x in v.call_args(sx[0])]
        m = re.search(r"to_cstring\(k\(([\w:]+)\)\)", a[3]) or re.search(r"to_cstring\((\w+)\)", a[3])
        wname = m.group(1) if m else a[3]
        val = a[4]
        ok = "OPAQUE_XATTR" in a[3] and ('"y"' in val or "b\"y\"" in val or "[121]" in val or "k(b\"y\")" in val)
    ctx.check(rule, "opaque/writer", ok, "Layer::set_opaque must set xattr OPAQUE_XATTR = \"y\": setxattr%s" % ([R(x, b, v)[:60] for x in v.call_args(sx[0])][3:5] if sx else "?"), loc=b.loc())
    b = prov("is_opaque")
    ctx.fn_seen(b)
    v = vf.VF(b, inline_depth=0)
    names = set()
    for c in live_calls(b):
        for a in v.call_args(c):
            t = R(a, b, v)
            for m in re.findall(r"(?:\w+::)*((?:UN)?(?:PRIVILEGED_)?OPAQUE_XATTR)\b", t):
                names.add(m)
    ctx.check(rule, "opaque/reader-knows-writer", "OPAQUE_XATTR" in names, "Layer::is_opaque checks %s; it must recognise the attribute set_opaque writes (OPAQUE_XATTR)" % sorted(names), loc=b.loc())
    ctx.check(rule, "opaque/reader-names", names >= {"OPAQUE_XATTR", "PRIVILEGED_OPAQUE_XATTR", "UNPRIVILEGED_OPAQUE_XATTR"}, "Layer::is_opaque no longer recognises all three opaque attributes: %s" % sorted(names), loc=b.loc())
    cls = F.closures_of(b.key)
    okv = False
    for cl in cls:
        cv = vf.VF(cl, inline_depth=0)
        t = R(cv.ret(), cl, cv)
        if "eq_ignore_ascii_case" in t and "Eq(1, " in t.replace("Eq(impl [T]::len(", "Eq(1, impl [T]::len(").replace(", 1)", ")") or ("eq_ignore_ascii_case" in t and "len(" in t):
            okv = True
    oke = False
    for cl in cls:
        cv = vf.VF(cl, inline_depth=0)
        arms = R(cv.ret(), cl, cv).split(" | ")
        hit = [a_ for a_ in arms if "Eq(ENODATA, some(Error::raw_os_error(" in a_ and a_.rstrip("}").endswith("=> Ok(0)")]
        wrong = [a_ for a_ in arms if "Ne(ENODATA, " in a_ and a_.rstrip("}").endswith("=> Ok(0)")]
        if hit and not wrong:
            oke = True
    ctx.check(rule, "opaque/reader-absent-attribute", oke, "Layer::is_opaque must read a missing attribute (ENODATA) as `not opaque` and pass every other error on", loc=b.loc())
    okx = False
    for cl in cls:
        cv = vf.VF(cl, inline_depth=0)
        for a_ in R(cv.ret(), cl, cv).split(" | "):
            if a_.rstrip("}").endswith("=> Ok(1)") and "Eq(1, Vec::len(" in a_ and "impl u8::eq_ignore_ascii_case(" in a_ and ", 121)" in a_ and "Ne(1, Vec::len(" not in a_:
                okx = True
    ctx.check(rule, "opaque/reader-value-exact", okx, "Layer::is_opaque must answer `opaque` exactly for a one-byte value equal to y/Y (length == 1 and the byte compares equal)", loc=b.loc())
    ctx.check(rule, "opaque/reader-value", okv, "Layer::is_opaque must accept exactly the one-byte value y/Y", loc=b.loc())
    # constants
    for (nm, val) in (("OPAQUE_XATTR", b"user.fuseoverlayfs.opaque"), ("PRIVILEGED_OPAQUE_XATTR", b"trusted.overlay.opaque"), ("UNPRIVILEGED_OPAQUE_XATTR", b"user.overlay.opaque")):
        c = F.consts.get("api::filesystem::overlay::" + nm)
        ctx.check(rule, "const/" + nm, c is not None and c.get("bytes") == list(val), "%s is %r" % (nm, bytes(c.get("bytes") or []) if c else None))
    ctx.floor(rule, 10)


META = {
    "technique": "must-pass-through (all paths from the whiteout arm set the opaque flag), value-dependence of the whiteout decision on a lower-layer "
                 "lookup (call-graph reachability + argument provenance), copy-up argument provenance and loop exit/step structure, writer/recogniser agreement of the on-disk markers",
    "text": "Decides: a directory replacing a whiteout is always made opaque and the upper whiteout is deleted first; do_rm's whiteout decision "
            "consults the parent's lower layers for the removed name and is cleared only for an opaque upper parent; whiteouts are emptied before "
            "rmdir; the helper asks every lower layer (opaque or not) before it answers or moves on; copy-up creates with the original st_mode (parents with their own), copies until a transfer returns 0 with accumulating offsets, "
            "symlinks by readlink->symlink; create_whiteout/set_opaque write what is_whiteout/is_opaque recognise; plus C10's sink and union rules.",
    "note": "Not decided: equality of the restarted view with the live view over all histories and crash points (run-time quantities); copy-up of "
            "timestamps/xattrs (the code itself marks these as not implemented).",
}
META["text"] += " " + 'Also: live-tree registration/unregistration around create and remove, a polarity table of the preconditions of the modifying steps, ENODATA read as not-opaque.'
