"""C07 — the VFS routes every request to the one mount owning the inode, and only to it.

R1 routing: each Vfs operation calls the same-named backend operation on the filesystem returned by
   get_real_rootfs(<its inode parameter>), with that mount's own inode number and the other parameters unchanged
R2 conversion: entries / attributes / directory inode numbers coming back from a backend pass convert_* with
   the routing inode's mount index (mount crossings: with the mount point's index and root inode)
R3 cross-mount rename/link are refused before any backend is touched
R4 a vacant slot fails before any backend is touched
R5 mount-slot writers keep superblocks / mountpoints in step (also used by C14)
R6 inode-number codec: one shift, one mask, refusal of numbers that do not fit
R7 the set of operations the VFS does not implement is the tabled one
R5 (cont.) clone-modify-store: every modified private copy of a mount table is stored back on every normal return
R8 path walkers: PseudoFs::mount and PseudoFs::path_walk take the same step per component kind (`..` -> parent, name -> child)
R9 index allocator: allocate_fs_idx skips the pseudo index and occupied slots, returns a free one, gives up only on the second visit of its start
R5 (cont.) umount cannot fail between unlinking the mount point and vacating its slot
"""
import json
import os

import re
from pyfbr import core, vf
from rules import common

VFS = "api::vfs::Vfs"
VINODE = "api::vfs::VfsInode"
NOT_IMPLEMENTED = {
    "lseek": "answered ENOSYS by the trait default (kernel falls back to generic llseek)",
    "getlk": "locks are handled by the kernel when the server does not implement them",
    "setlk": "as getlk", "setlkw": "as getlk", "ioctl": "ENOSYS", "bmap": "ENOSYS", "poll": "ENOSYS",
    "notify_reply": "ENOSYS", "flock": "ENOSYS",
}
ENTRY_OPS = ("lookup", "symlink", "mknod", "mkdir", "link", "create")
ATTR_OPS = ("getattr", "setattr")


def live_calls(b):
    r = b.reachable()
    return [c for c in b.calls() if c.bb in r and not b.is_cleanup(c.bb)]


def vfs_methods(F):
    return sorted([b for b in F.fns.values() if b.self_adt == VFS and b.trait == common.FS_TRAIT and b.kind == "assoc"],
                  key=lambda b: b.line)


def inode_params(b):
    return [i for i in range(2, b.argc + 1) if b.local_ty(i) == VINODE]


def rootfs_roots(b, v):
    """[(expr, name)] naming ok(get_real_rootfs(self, P_i)) as R<i>, plus its parts."""
    roots = []
    for c in live_calls(b):
        if c.name == "get_real_rootfs":
            a = v.call_args(c)
            if len(a) == 2 and a[1][0] == "P":
                e = v.call_expr(c)
                ok = vf.field(("V", e, "Ok"), "0", 0)
                nm = "R[%s]" % b.local_name(a[1][1])
                roots.append((vf.field(ok, "1", 1), nm + ".idata"))
                roots.append((vf.field(ok, "0", 0), nm + ".fs"))
                roots.append((ok, nm))
                # match form: `match self.get_real_rootfs(x) { Ok(r) => .. }`
                okm = vf.field(("V", e, "Ok"), "0", 0)
    return roots


def run(ctx):
    ctx.explanation = (
        "Every FileSystem method of Vfs is reduced by value-flow to: which backend object receives the call (must be the "
        "filesystem get_real_rootfs returned for the method's own inode parameter), which inode number it is given (that "
        "mount's own number), and where its result goes (through convert_backend_entry / convert_attr / convert_inode with "
        "the same routing inode); cross-mount refusals, slot vacancy, the slot writers and the number codec's constants are "
        "checked as dominance / table-coherence / constant relations.")
    F = ctx.facts("S") or ctx.facts("D")
    if F is None:
        return
    vf.NOUPD[0] = True
    try:
        ctx.run_rule("R1-routing", r1_routing, F)
        ctx.run_rule("R2-conversion", r2_conversion, F)
        ctx.run_rule("R3-cross-mount", r3_cross_mount, F)
        ctx.run_rule("R4-vacancy", r4_vacancy, F)
        ctx.run_rule("R5-slot-writers", r5_slots, F, ctx.pid)
        ctx.run_rule("R6-codec", r6_codec, F)
        ctx.run_rule("R7-not-implemented", r7_overrides, F)
        ctx.run_rule("R8-path-walkers", r8_walkers, F)
        ctx.run_rule("R9-index-allocator", r9_allocator, F)
        A_ = ctx.facts("A", required=False)
        if A_ is not None:
            from rules import c20
            fl_ = (vf.NOUPD[0], vf.NOCAST[0])
            vf.NOUPD[0], vf.NOCAST[0] = True, True          # the rendering C20's rules were written under
            ctx.run_rule("R4-vfs-siblings", c20.r4_vfs, A_)        # the async Vfs operations route and convert like their sync siblings (shared with C20)
            vf.NOUPD[0], vf.NOCAST[0] = fl_
    finally:
        vf.NOUPD[0] = False
    ctx.assumptions += ["backends number their own inodes consistently", "stale inode numbers after slot reuse are not examined"]


def r1_routing(ctx, F):
    n_methods = 0
    for b in vfs_methods(F):
        ips = inode_params(b)
        if not ips or b.name.startswith("id_remap"):
            continue
        n_methods += 1
        ctx.fn_seen(b)
        v = vf.VF(b, inline_depth=0)
        roots = rootfs_roots(b, v)
        calls = [c for c in live_calls(b) if c.trait == common.FS_TRAIT and c.name == b.name]
        other = [c for c in live_calls(b) if c.trait == common.FS_TRAIT and c.name != b.name]
        ctx.check("R1-routing", b.name + "/same-operation", not other and len(calls) in (1, 2),
                  "Vfs::%s calls backend operations %s" % (b.name, sorted(set(c.name for c in calls + other))), loc=b.loc())
        first = b.local_name(ips[0])
        for c in calls:
            args = v.call_args(c)
            recv = vf.render(args[0], b, roots, short=True, vfx=v)
            arm = "Right" if "@Right" in recv else ("Left" if "@Left" in recv else "?")
            okrecv = recv.startswith("R[%s].fs@%s" % (first, arm)) or recv.startswith("(R[%s].fs@%s" % (first, arm))
            ctx.check("R1-routing", "%s/%s/receiver" % (b.name, arm), okrecv and arm != "?",
                      "Vfs::%s sends the request to `%s`, not to the filesystem owning its `%s` parameter" % (b.name, recv[:160], first), loc=c.loc(), detail=recv[:100])
            for k in range(1, len(args)):
                pidx = k + 1
                t = vf.render(args[k], b, roots, short=True, vfx=v)
                pname = b.local_name(pidx) if pidx <= b.argc else "?"
                if pidx in ips:
                    want = "VfsInode::ino(R[%s].idata)" % pname
                    ctx.check("R1-routing", "%s/%s/%s" % (b.name, arm, pname), t == want,
                              "Vfs::%s passes `%s` as the backend inode for `%s`; it must be the owning mount's own number `%s`" % (b.name, t[:160], pname, want),
                              loc=c.loc(), detail=t[:100])
                elif t.startswith("closure("):
                    ctx.ok("R1-routing", "%s/%s/%s" % (b.name, arm, pname), "wrapped callback (checked by R2)", nontrivial=False)
                elif b.name == "setattr" and pname == "attr" and arm == "Right":
                    ctx.check("R1-routing", "%s/%s/%s" % (b.name, arm, pname), vf.strip_upd(args[k]) == ("P", pidx),
                              "Vfs::setattr passes `%s` as attr" % t[:120], loc=c.loc())
                else:
                    ctx.check("R1-routing", "%s/%s/%s" % (b.name, arm, pname), vf.strip_upd(args[k]) == ("P", pidx),
                              "Vfs::%s passes `%s` for parameter `%s`" % (b.name, t[:160], pname), loc=c.loc(), detail=t[:100])
    ctx.check("R1-routing", "methods", n_methods >= 30, "only %d inode-routed Vfs methods found" % n_methods)
    ctx.floor("R1-routing", 250)


def closure_bodies(F, b):
    return [c for c in F.closures_of(b.key)]


def r2_conversion(ctx, F):
    ms = {b.name: b for b in vfs_methods(F)}
    for nm in ENTRY_OPS:
        b = ms.get(nm)
        if b is None:
            raise core.Anchor("Vfs::%s" % nm)
        ctx.fn_seen(b)
        # the Right-arm result is consumed by and_then/map with a closure that converts it with the routing idata
        v = vf.VF(b, inline_depth=0)
        roots = rootfs_roots(b, v)
        conv = []
        for body in [b] + closure_bodies(F, b):
            bv = vf.VF(body, inline_depth=0)
            for c in live_calls(body):
                if c.name in ("convert_backend_entry", "convert_entry"):
                    a = bv.call_args(c)
                    conv.append((body, c, vf.render(a[1], body, roots, short=True)))
        ips = inode_params(b)
        want_param = b.local_name(ips[-1]) if nm == "link" else b.local_name(ips[0])
        ok = len(conv) == 1
        if ok:
            t = conv[0][2]
            ok = t in ("^idata", "^idata_new", "R[%s].idata" % want_param)
        ctx.check("R2-conversion", nm + "/entry", ok,
                  "Vfs::%s: the backend's entry is not converted exactly once with the routing inode's mount (%s)" % (nm, [x[2] for x in conv]),
                  loc=b.loc(), detail=str([x[2] for x in conv]))
        # the unconverted backend result must not be returned directly on the Right arm
        r = vf.render(v.ret(), b, roots, short=True, vfx=v)
        direct = "=> FileSystem::%s((R[" % nm in r or ("=> FileSystem::%s(R[%s].fs@Right" % (nm, want_param)) in r
        ctx.check("R2-conversion", nm + "/not-raw", not direct, "Vfs::%s returns the backend's entry unconverted" % nm, loc=b.loc())
    for nm in ATTR_OPS:
        b = ms[nm]
        ctx.fn_seen(b)
        conv = []
        for body in closure_bodies(F, b):
            bv = vf.VF(body, inline_depth=0)
            for c in live_calls(body):
                if c.name == "convert_attr":
                    conv.append(vf.render(bv.call_args(c)[1], body, short=True))
        ctx.check("R2-conversion", nm + "/attr", conv == ["^idata"], "Vfs::%s: backend attributes are not passed through convert_attr(idata, ..) (%s)" % (nm, conv), loc=b.loc())
    # directory listings
    for nm in ("readdir", "readdirplus"):
        b = ms[nm]
        ctx.fn_seen(b)
        cls = closure_bodies(F, b)
        seen = []
        for body in cls:
            bv = vf.VF(body, inline_depth=0)
            for c in live_calls(body):
                if c.name == "convert_inode":
                    a = bv.call_args(c)
                    seen.append((vf.render(a[1], body, short=True, vfx=bv), vf.render(a[2], body, short=True, vfx=bv)))
        seen = sorted(seen)
        want_backend = ("VfsInode::fs_idx(^idata)", "dir_entry.ino" if nm == "readdir" else "entry.inode")
        ctx.check("R2-conversion", nm + "/backend-ino", want_backend in seen,
                  "Vfs::%s: backend directory entries are not renumbered with convert_inode(idata.fs_idx(), ..): %s" % (nm, seen), loc=b.loc(), detail=str(seen))
        cross = [s for s in seen if "fs_idx" in s[0] and "mnt" in s[0] or s[0].endswith(".fs_idx") and "mountpoints" in s[0] or ".fs_idx" in s[0] and "idata" not in s[0]]
        ctx.check("R2-conversion", nm + "/mount-crossing", any(".ino" in s[1] and "idata" not in s[0] for s in seen),
                  "Vfs::%s: entries that are mount points are not renumbered with the mount's index and root inode: %s" % (nm, seen), loc=b.loc())
        ctx.check("R2-conversion", nm + "/pseudo-ino", ("VfsInode::fs_idx(^idata)", "dir_entry.ino") in seen,
                  "Vfs::%s: pseudo entries are not renumbered" % nm, loc=b.loc())
        # every path of each closure to add_entry passes a convert_inode
        for body in cls:
            adds = [c for c in live_calls(body) if c.name in ("call_mut", "call") or (c.fn is None)]
            cvs = [c for c in live_calls(body) if c.name == "convert_inode"]
            for a in adds:
                reach_wo = body.reach_set(0, avoid=set(c.bb for c in cvs))
                ctx.check("R2-conversion", "%s/%s/always" % (nm, body.key.rsplit("::", 1)[-1]), a.bb not in reach_wo,
                          "Vfs::%s: a path delivers a directory entry without renumbering its inode" % nm, loc=a.loc())
    # convert_attr sets st_ino from idata and remaps ids outward
    b = F.method(VFS, "convert_attr")
    v = vf.VF(b, inline_depth=0)
    r = vf.render(v.ret(), b, short=True)
    ctx.check("R2-conversion", "convert_attr/st_ino", "st_ino := into<u64>(idata)" in r or "st_ino := idata" in r, "convert_attr does not set st_ino from the VFS inode: %s" % r[:200], loc=b.loc())
    b = F.method(VFS, "lookup_pseudo")
    v = vf.VF(b, inline_depth=0)
    cv = [c for c in live_calls(b) if c.name == "convert_entry"]
    texts = sorted((vf.render(v.call_args(c)[1], b, short=True), vf.render(v.call_args(c)[2], b, short=True)) for c in cv)
    ctx.check("R2-conversion", "lookup_pseudo/pseudo", any(t[0] == "VfsInode::fs_idx(idata)" for t in texts), "lookup_pseudo: plain pseudo entries are not converted with the pseudo index: %s" % texts, loc=b.loc())
    # a mount point is answered with the stored (already converted) root entry of the mount
    r = vf.render(v.ret(), b, short=True, vfx=v)
    ctx.check("R2-conversion", "lookup_pseudo/crossing", ".root_entry)" in r and "=> Ok(" in r,
              "lookup_pseudo: a mount point is not answered with the mount's root entry: %s" % r[:300], loc=b.loc())
    ctx.floor("R2-conversion", 25)


def r3_cross_mount(ctx, F):
    ms = {b.name: b for b in vfs_methods(F)}
    for nm in ("rename", "link"):
        b = ms[nm]
        v = vf.VF(b, inline_depth=0)
        roots = rootfs_roots(b, v)
        ips = [b.local_name(i) for i in inode_params(b)]
        calls = [c for c in live_calls(b) if c.trait == common.FS_TRAIT and c.name == nm]
        want = vf.fact("Eq(VfsInode::fs_idx(R[%s].idata), VfsInode::fs_idx(R[%s].idata))" % (ips[0], ips[1]))
        for c in calls:
            g = [(vf.render(cond, b, roots, short=True), lab) for (cond, lab, u) in v.guards(c.bb)]
            ctx.check("R3-cross-mount", "%s/gate@%s" % (nm, "Left" if "Left" in vf.render(v.call_args(c)[0], b, roots, short=True) else "Right"), (want, "otherwise") in g,
                      "Vfs::%s reaches a backend without having compared the two mounts (`%s` on the false edge); guards: %s" % (nm, want, [x for x in g if "fs_idx" in x[0]]),
                      loc=c.loc())
        # the true edge of the comparison returns Err(EINVAL) without reaching any backend
        sw = None
        tgt = None
        ne = vf.neg_fact(want)
        for u in b.reachable():
            if b.term(u)[0] == "switch":
                for (lab, x) in b.switch_edges(u):
                    c_, l_ = v.switch_cond(u, lab)
                    if vf.render(c_, b, roots, short=True) == ne and l_ != 0:
                        sw, tgt = u, x
        ok = False
        if sw is not None:
            region = b.reach_set(tgt)
            nocall = not any(c.bb in region for c in calls)
            err = False
            for bb in region:
                for i2, s2 in enumerate(b.stmts(bb)):
                    if s2[0] == "=" and s2[1] == [0]:
                        e = vf.render(v.rvalue(s2[2], bb, i2), b, short=True)
                        if e == "Err(Error::from_raw_os_error(EINVAL))":
                            err = True
            ok = nocall and err
        ctx.check("R3-cross-mount", nm + "/refuses", ok, "Vfs::%s does not refuse an operation spanning two mounts with EINVAL before touching a backend" % nm, loc=b.loc())
        # both inodes are resolved
        n = len([c for c in live_calls(b) if c.name == "get_real_rootfs"])
        ctx.check("R3-cross-mount", nm + "/both-resolved", n == 2, "Vfs::%s resolves %d of its 2 inode parameters" % (nm, n), loc=b.loc())


def r4_vacancy(ctx, F):
    b = F.method(VFS, "get_fs_by_idx")
    ctx.fn_seen(b)
    v = vf.VF(b, inline_depth=0)
    r = vf.render(v.ret(), b, short=True, vfx=v)
    ctx.check("R4-vacancy", "get_fs_by_idx", "=> Err(Error::from_raw_os_error(ENOENT))" in r and "==1 => Ok(some(" in r and r.count("=> Ok(") == 1,
              "get_fs_by_idx does not fail for a vacant slot: %s" % r[:300], loc=b.loc())
    b = F.method(VFS, "get_real_rootfs")
    ctx.fn_seen(b)
    v = vf.VF(b, inline_depth=0)
    # every Right(..) construction uses the Ok payload of get_fs_by_idx (propagated with ?)
    n = 0
    for bb in b.reachable():
        for i, s in enumerate(b.stmts(bb)):
            if s[0] == "=" and s[2][0] == "agg" and s[2][1].get("variant") == "Right":
                n += 1
                e = v.rvalue(s[2], bb, i)
                t = vf.render(e, b, short=True)
                ctx.check("R4-vacancy", "get_real_rootfs/right#%d" % n, "Vfs::get_fs_by_idx(" in t and ")?" in t,
                          "get_real_rootfs builds Right(`%s`) without going through the vacancy check" % t[:160], loc=b.loc(s[3]))
    ctx.check("R4-vacancy", "get_real_rootfs/rights", n == 2, "get_real_rootfs has %d Right(..) constructions, expected 2" % n, loc=b.loc())
    # the three results: backend inode -> (Right(slot of its index), inode); pseudo -> (Left(root), inode);
    # root mount -> (Right(slot of mnt.fs_idx), VfsInode::new(mnt.fs_idx, mnt.ino))
    m = None
    for c in live_calls(b):
        if c.name == "cloned":
            m = v.call_expr(c)
    rr = [(vf.field(("V", m, "Some"), "0", 0), "mnt")] if m is not None else []
    rt = vf.render(v.ret(), b, rr, short=True, vfx=v)
    for key, want in (("backend", "Ok((Either::Right{0: Vfs::get_fs_by_idx(self, VfsInode::fs_idx(inode))?}, inode))"),
                      ("pseudo", "Ok((Either::Left{0: self.root}, inode))"),
                      ("root-mount", "Ok((Either::Right{0: Vfs::get_fs_by_idx(self, mnt.fs_idx)?}, VfsInode::new(mnt.fs_idx, mnt.ino)))")):
        ctx.check("R4-vacancy", "get_real_rootfs/result-" + key, want in rt,
                  "get_real_rootfs no longer returns `%s` for the %s case" % (want, key), loc=b.loc())
    ctx.check("R4-vacancy", "get_real_rootfs/root-mount-guard", "Eq(ROOT_ID, VfsInode::ino(inode)) && VfsInode::is_pseudo_fs(inode)" in rt,
              "get_real_rootfs: the root-mount case is not limited to the pseudo root inode", loc=b.loc())
    # the index used for a non-pseudo inode is the inode's own index; for the root mount the mount point's
    calls = [c for c in live_calls(b) if c.name == "get_fs_by_idx"]
    texts = sorted(vf.render(v.call_args(c)[1], b, short=True, vfx=v) for c in calls)
    ctx.check("R4-vacancy", "get_real_rootfs/index", texts == sorted(["VfsInode::fs_idx(inode)", texts[0] if "mnt" in texts[0] or ".fs_idx" in texts[0] else texts[-1]]) and
              any(t == "VfsInode::fs_idx(inode)" for t in texts) and any(t.endswith(".fs_idx") for t in texts),
              "get_real_rootfs looks filesystems up by %s" % texts, loc=b.loc(), detail=str(texts))


def index_writes(F, b):
    """[(table name, index text, guards frozenset, Call)] for `<clone of self.<table>>[idx] = ..` / .take() in b."""
    out = []
    v = vf.VF(b, inline_depth=0)
    for c in live_calls(b):
        if c.name == "index_mut" and c.trait == "std::ops::IndexMut":
            a = v.call_args(c)
            recv = vf.render(a[0], b, short=True)
            tbl = None
            for t in ("superblocks", "mount_id_mappings", "mountpoints"):
                if "self.%s" % t in recv:
                    tbl = t
            if tbl:
                idx = vf.render(vf.strip_casts(a[1]), b, short=True)
                out.append((tbl, idx, frozenset(b.edge_guards(c.bb)), c))
    return out, v


def r5_slots(ctx, F, pid="C07"):
    """Every function that changes superblocks[k] also changes mount_id_mappings[k] under the same conditions
    (directly, or in its caller with the argument bound to k)."""
    writers = {}
    for b in F.fns.values():
        if b.self_adt == VFS and b.kind == "assoc":
            w, v = index_writes(F, b)
            if w:
                writers[b.name] = (b, w, v)
    rule = "R5-slot-writers" if pid == "C07" else "R4-table-coherence"
    allowed = {"insert_mount_locked", "umount", "mount_with_id_mapping", "restore_from_bytes", "restore_mount"}
    for nm, (b, w, v) in sorted(writers.items()):
        ctx.fn_seen(b)
        ctx.check(rule, "writer/" + nm, nm in allowed, "Vfs::%s writes a mount table; only %s may" % (nm, sorted(allowed)), loc=b.loc())
    # a table is changed by clone - modify - store: every modification of the private copy is published (no path from the
    # write to a normal return avoids `self.<table>.store(..)`), otherwise the change is silently lost
    for nm, (b, w, v) in sorted(writers.items()):
        for tbl in sorted(set(x[0] for x in w)):
            sts = [c for c in live_calls(b) if c.name == "store" and "arc_swap" in (c.fn or "") and vf.render(v.call_args(c)[0], b, short=True) == "self.%s" % tbl]
            lost = []
            for x in [y for y in w if y[0] == tbl]:
                region = b.reach_set(x[3].bb, avoid=set(c.bb for c in sts))
                for r_ in b.return_blocks():
                    if r_ in region:
                        val = vf.render(v.local_at(0, r_, len(b.stmts(r_))), b, short=True)
                        if "Err(" not in val and "from_residual" not in val:
                            lost.append(x[1])
            ctx.check(rule, "publishes/%s/%s" % (nm, tbl), bool(sts) and not lost,
                      "Vfs::%s changes its copy of %s (index %s) and can return without storing it back" % (nm, tbl, sorted(set(lost)) or "-"), loc=b.loc())
    if pid == "C07":
        # superblocks[k] = Some(fs) is committed before the mount point that refers to it becomes visible
        b = F.method(VFS, "insert_mount_locked")
        st = [c for c in live_calls(b) if c.name == "store" and "arc_swap" in (c.fn or "")]
        v = vf.VF(b, inline_depth=0)
        order = [vf.render(v.call_args(c)[0], b, short=True) for c in st]
        order = [x for x in order if x in ("self.superblocks", "self.mountpoints")]
        ctx.check(rule, "publish-order", order == ["self.superblocks", "self.mountpoints"],
                  "insert_mount_locked publishes %s; the superblock must be stored before the mount point" % order, loc=b.loc())
        # umount: slot emptied (take) and backend destroyed
        b = F.method(VFS, "umount")
        tk = [c for c in live_calls(b) if c.name == "take"]
        ds = [c for c in live_calls(b) if c.name == "destroy"]
        ctx.check(rule, "umount/vacates", len(tk) == 1 and len(ds) == 1, "umount no longer empties the slot and destroys the backend", loc=b.loc())
        if len(tk) == 1:
            # ... unconditionally once the mount point is gone: no state test (session initialised, option, ...) may skip it
            uv = vf.VF(b, inline_depth=0)
            extra = [(vf.render(c_, b, short=True)[:80], l) for (c_, l, u) in uv.guards(tk[0].bb) if c_[0] != "D"]
            sts = [c for c in live_calls(b) if c.name == "store" and "arc_swap" in (c.fn or "") and vf.render(uv.call_args(c)[0], b, short=True) == "self.superblocks"]
            ok = not extra and len(sts) == 1 and b.dominates(tk[0].bb, sts[0].bb) and \
                not [1 for (c_, l, u) in uv.guards(sts[0].bb) if c_[0] != "D" and (u, l) not in [(u2, l2) for (_, l2, u2) in uv.guards(tk[0].bb)]]
            ctx.check(rule, "umount/vacates-always", ok,
                      "umount empties the mount's slot only under %s: otherwise the mount point is gone but its backend stays reachable through "
                      "inode numbers handed out earlier and the index is never freed" % (extra or "a condition on the publishing store"), loc=tk[0].loc())
        # ... and nothing can end the operation between removing the mount point and vacating its slot (no other `?`, no early return)
        if len(tk) == 1:
            uv = vf.VF(b, inline_depth=0)
            unlink_names = ("evict_inode", "remove", "store")
            starts = []      # (call in umount after which the mount point is gone, expression whose own `?` is harmless)
            for c in live_calls(b):
                if (c.name == "store" and "arc_swap" in (c.fn or "") and vf.render(uv.call_args(c)[0], b, short=True) == "self.mountpoints") or c.name == "evict_inode":
                    starts.append((c, None))
                else:
                    for a_ in uv.call_args(c):
                        x_ = vf.strip_casts(a_)
                        if x_[0] == "CL" and x_[1] in F.fns and any(y.name == "store" or y.name == "evict_inode" for y in live_calls(F.fns[x_[1]])):
                            starts.append((c, uv.call_expr(c)))
            leak = []
            for (c, own) in starts:
                if c.target is None:
                    continue
                region = b.reach_set(c.target, avoid={tk[0].bb})
                for d in live_calls(b):
                    if d.bb in region and d.name == "from_residual":
                        arg = uv.call_args(d)[0]
                        if own is None or not (any(x_ == own for x_ in vf.walk(arg)) or vf.render(own, b, short=True, vfx=uv) in vf.render(arg, b, short=True, vfx=uv)):
                            leak.append(d)
            ctx.check(rule, "umount/no-exit-between-unlink-and-vacate", bool(starts) and not leak,
                      "umount can fail%s after the mount point was removed (or its pseudo inode evicted) and before the slot is vacated: the backend stays reachable and is never destroyed"
                      % (" at line %s" % leak[0].line if leak else ""), loc=(leak[0].loc() if leak else b.loc()))
        # over-mount vacates the previous slot
        b, w, v = writers["insert_mount_locked"]
        sb = [x for x in w if x[0] == "superblocks"]
        ctx.check(rule, "overmount/vacates", any(".fs_idx" in x[1] and x[1] != "fs_idx" for x in sb) and any(x[1] == "fs_idx" for x in sb),
                  "insert_mount_locked does not vacate the slot of an over-mounted filesystem: writes %s" % [x[1] for x in sb], loc=b.loc())
        # ... and vacates it BEFORE the new occupant is stored: with the same index (restore_mount over a mounted path) the
        # other order would empty the slot that was just filled
        new = [x for x in sb if x[1] == "fs_idx"]
        vac = [x for x in sb if ".fs_idx" in x[1] and x[1] != "fs_idx"]
        ok = bool(new) and bool(vac) and not any(b.can_reach(n[3].bb, va[3].bb) and n[3].bb != va[3].bb for n in new for va in vac)
        ctx.check(rule, "overmount/vacate-then-fill", ok,
                  "insert_mount_locked stores the new backend in its slot and vacates the over-mounted slot afterwards: when both indices are equal "
                  "(restore_mount at a path that is already mounted with that index) the mount is left without a backend", loc=b.loc())
        return
    # ---- C14: mapping table coherence
    # (a) slot allocation: mount_with_id_mapping stores mappings[index] unconditionally before insert_mount_locked(.., index, ..)
    b, w, v = writers.get("mount_with_id_mapping", (None, [], None))
    if b is None:
        raise core.Anchor("mount_with_id_mapping writes no table")
    ins = [c for c in live_calls(b) if c.name == "insert_mount_locked"]
    if len(ins) != 1:
        raise core.Anchor("insert_mount_locked call in mount_with_id_mapping")
    idx_arg = vf.render(v.call_args(ins[0])[3], b, short=True)
    mw = [x for x in w if x[0] == "mount_id_mappings" and x[1] == idx_arg]
    ok = bool(mw) and any(x[2] <= frozenset(b.edge_guards(ins[0].bb)) and b.dominates(x[3].bb, ins[0].bb) for x in mw)
    ctx.check(rule, "mount/slot-mapping-always-set", ok,
              "mount_with_id_mapping allocates slot `%s` but stores its id mapping only conditionally: an unmapped mount inherits the "
              "mapping of the slot's previous occupant" % idx_arg, loc=(mw[0][3].loc() if mw else b.loc()))
    # (a'') what is stored is the caller's mapping itself: a per-mount mapping, even an identity or empty one, overrides the
    # global mapping, so rewriting it (filtering, defaulting) changes which translation the mount gets
    stored = []
    for x in mw:
        t = b.succs(x[3].bb)[0]
        for i, s in enumerate(b.stmts(t)):
            if s[0] == "=" and s[1] == [x[3].dest[0], "*"]:
                stored.append(vf.render(v.rvalue(s[2], t, i), b, short=True, vfx=v))
                break
    ctx.check(rule, "mount/stores-callers-mapping", stored == ["id_mapping"],
              "mount_with_id_mapping stores `%s` as the mount's id mapping instead of the `id_mapping` it was given" % (stored[0][:160] if stored else "nothing"),
              loc=(mw[0][3].loc() if mw else b.loc()), detail=";".join(stored)[:80])
    # (a3) restore_mount re-attaches a backend under a restored index: that slot's mapping was restored from the snapshot already
    rm_ = writers.get("restore_mount")
    if rm_ is not None:
        bad_ = [x for x in rm_[1] if x[0] == "mount_id_mappings"]
        ctx.check(rule, "restore_mount/keeps-restored-mapping", not bad_,
                  "Vfs::restore_mount writes mount_id_mappings[%s]: the per-mount mapping restored from the snapshot is overwritten" % (bad_[0][1] if bad_ else ""),
                  loc=(bad_[0][3].loc() if bad_ else rm_[0].loc()))
    # (a') the mapping stored for the new occupant is not overwritten while the mount is inserted
    b2, w2, v2 = writers["insert_mount_locked"]
    clobber = [x for x in w2 if x[0] == "mount_id_mappings" and x[1] == "fs_idx"]
    ctx.check(rule, "insert/keeps-new-mapping", not clobber,
              "insert_mount_locked overwrites mount_id_mappings[fs_idx], the mapping just stored for the mount being inserted", loc=(clobber[0][3].loc() if clobber else b2.loc()))
    # (b) every superblocks[k] := None has a mount_id_mappings[k] := None under the same guards
    for nm in ("insert_mount_locked", "umount"):
        b, w, v = writers[nm]
        for x in [y for y in w if y[0] == "superblocks"]:
            if nm == "insert_mount_locked" and x[1] == "fs_idx":
                continue        # the new occupant: covered by (a)
            partner = [y for y in w if y[0] == "mount_id_mappings" and y[1] == x[1]]
            ok = any(True for y in partner)
            label = "overmounted.fs_idx" if "mountpoints" in x[1] else x[1]
            ctx.check(rule, "%s/vacate[%s]" % (nm, label), ok,
                      "Vfs::%s vacates superblocks[%s] but leaves mount_id_mappings[%s]: the next mount in that slot inherits the stale mapping" % (nm, x[1], x[1]),
                      loc=x[3].loc())


def r6_codec(ctx, F):
    shift = F.const("api::vfs::VFS_INDEX_SHIFT")
    mx = F.const("api::vfs::VFS_MAX_INO")
    ctx.check("R6-codec", "mask-shift", mx == (1 << shift) - 1, "VFS_MAX_INO (%#x) is not (1 << VFS_INDEX_SHIFT) - 1 with shift %d" % (mx, shift))
    ctx.check("R6-codec", "index-width", 64 - shift == 8, "the mount index field is %d bits wide; VfsIndex is u8" % (64 - shift))
    want = {
        "fs_idx": "(Shr(self.0, VFS_INDEX_SHIFT) as u8)",
        "ino": "BitAnd(VFS_MAX_INO, self.0)",
        "is_pseudo_fs": "Eq((Shr(self.0, VFS_INDEX_SHIFT) as u8), VFS_PSEUDO_FS_IDX)",
    }
    for nm, w in want.items():
        b = F.method(VINODE, nm)
        ctx.fn_seen(b)
        r = vf.render(vf.VF(b).ret(), b, short=True)
        ctx.check("R6-codec", "VfsInode::" + nm, r == w, "VfsInode::%s computes `%s`, required `%s`" % (nm, r, w), loc=b.loc(), detail=r)
    b = F.method(VINODE, "new")
    r = vf.render(vf.VF(b).ret(), b, short=True)
    ctx.check("R6-codec", "VfsInode::new", "BitOr(" in r and "Shl((fs_idx as u64), VFS_INDEX_SHIFT)" in r and "ino" in r,
              "VfsInode::new composes `%s`" % r[:200], loc=b.loc(), detail=r[:120])
    b = F.method(VFS, "convert_inode")
    v = vf.VF(b)
    r = vf.render(v.ret(), b, short=True, vfx=v)
    ctx.check("R6-codec", "convert_inode/compose", "Ok(BitOr(Shl((fs_idx as u64), VFS_INDEX_SHIFT), inode))" in r or "Ok(BitOr(inode, Shl((fs_idx as u64), VFS_INDEX_SHIFT)))" in r,
              "convert_inode composes `%s`" % r[:300], loc=b.loc())
    ctx.check("R6-codec", "convert_inode/refuses", vf.fact("Gt(inode, VFS_MAX_INO)") in r and "Err(" in r, "convert_inode no longer refuses numbers above VFS_MAX_INO", loc=b.loc())
    ctx.check("R6-codec", "convert_inode/negative", "Eq(0, inode) => Ok(inode)" in r or "Eq(inode, 0) => Ok(inode)" in r, "convert_inode no longer passes the negative-entry number 0 through", loc=b.loc())
    ctx.check("R6-codec", "pseudo-index", F.const("api::vfs::VFS_PSEUDO_FS_IDX") == 0, "the pseudo filesystem index is not 0")


def r9_allocator(ctx, F):
    """Vfs::allocate_fs_idx walks the index space once from next_super: the pseudo index and occupied slots are skipped, a free
    slot is returned, and the walk gives up only when it comes back to its start for the second time."""
    rule = "R9-index-allocator"
    from rules import c10
    b = F.method(VFS, "allocate_fs_idx")
    ctx.fn_seen(b)
    v = vf.VF(b, inline_depth=0, opaque_loops=True)
    sw = [x for h in sorted(v.loop_headers()) for x in c10.loop_edge_facts(b, v, h)]
    idx = "Atomic::fetch_add(self.next_super, 1, Relaxed)"
    start = "Atomic::load(self.next_super, SeqCst)"
    ln = "Vec::len(ArcSwapAny::load(self.superblocks))"
    slot = "Option::is_some(Vec::index(ArcSwapAny::load(self.superblocks), (%s as usize)))" % idx
    want = [
        ("back-at-start", {"Eq(%s, %s)" % (idx, start): "loop", "Ne(%s, %s)" % (idx, start): "loop"}),
        ("second-time-gives-up", {"loop(found)": "exit", "!loop(found)": "loop"}),
        ("pseudo-index-skipped", {"Eq(%s, VFS_PSEUDO_FS_IDX)" % idx: "loop", "Ne(%s, VFS_PSEUDO_FS_IDX)" % idx: "loop"}),
        ("beyond-table-is-free", {"Le(%s, (%s as usize))" % (ln, idx): "exit", "Lt((%s as usize), %s)" % (idx, ln): "loop"}),
        ("occupied-skipped", {slot: "loop", "!" + slot: "exit"}),
    ]
    def norm(d):
        return {k.replace("Eq(%s, %s)" % (start, idx), "Eq(%s, %s)" % (idx, start)).replace("Ne(%s, %s)" % (start, idx), "Ne(%s, %s)" % (idx, start))
                 .replace("Eq(VFS_PSEUDO_FS_IDX, %s)" % idx, "Eq(%s, VFS_PSEUDO_FS_IDX)" % idx).replace("Ne(VFS_PSEUDO_FS_IDX, %s)" % idx, "Ne(%s, VFS_PSEUDO_FS_IDX)" % idx): k2
                for k, k2 in d.items()}
    got = [norm(x[0]) for x in sw]
    for (nm, d) in want:
        ctx.check(rule, nm, got.count(d) == 1, "allocate_fs_idx: the decision %s is missing or decided differently (decisions found: %s)" % (d, [sorted(x.items()) for x in got if set(x) & set(d)] or "none on these facts"), loc=b.loc())
    ctx.check(rule, "no-other-decision", len(got) == len(want), "allocate_fs_idx decides on %d conditions, %d reviewed" % (len(got), len(want)), loc=b.loc())
    # `found` is tested only when the walk is back at its start
    f = [x for x in sw if "loop(found)" in x[0]]
    if f:
        ok = any(t.replace("Eq(%s, %s)" % (start, idx), "Eq(%s, %s)" % (idx, start)) == "Eq(%s, %s)" % (idx, start) and l != 0 for (t, l) in f[0][2])
        ctx.check(rule, "gives-up-only-at-start", ok, "allocate_fs_idx may give up only when the walk is back at its starting index", loc=b.loc())
    r = vf.render(v.ret(), b, short=True, vfx=v)
    ctx.check(rule, "returns-the-free-index", "=> Ok(%s)" % idx in r and "Err(" in r, "allocate_fs_idx returns `%s`" % r[:200], loc=b.loc())


def r8_walkers(ctx, F):
    """PseudoFs::mount (creates the mount point's path) and PseudoFs::path_walk (finds it again for umount) resolve a path to the
    same node: same step per component kind (`..` -> the node's parent, a name -> the child of that name), same refusals."""
    rule = "R8-path-walkers"
    steps = {}
    for nm in ("mount", "path_walk"):
        b = F.method("api::pseudo_fs::PseudoFs", nm)
        ctx.fn_seen(b)
        v = vf.VF(b, inline_depth=0, opaque_loops=True)
        st = []
        for c in live_calls(b):
            if c.name == "get" and "HashMap" in (c.fn or c.callee or ""):
                a = [vf.render(x, b, short=True, vfx=v) for x in v.call_args(c)]
                g = [(vf.render(x, b, short=True, vfx=v), l) for (x, l, u) in v.guards(c.bb)]
                comp = [l for (t, l) in g if t == "discr(some(Components::next(loop(iter))))"]
                named = any(t.startswith("String::eq(some(Iter::next(loop(iter))).name, ") and l != 0 for (t, l) in g)
                key = a[1]
                # `children.iter().find(|c| c.name == name)` instead of the explicit loop
                mf = re.fullmatch(r"some\(Iter::find\(impl \[T\]::iter\(ArcSwapAny::load\(loop\(inode\)\.children\)\), closure\((\{closure#\d+\})\)\)\)\.ino", key)
                if mf:
                    cl_ = [x for x in F.closures_of(b.key) if x.key.endswith(mf.group(1))]
                    if len(cl_) == 1 and vf.render(vf.VF(cl_[0], inline_depth=0).ret(), cl_[0], short=True) in ("String::eq(c.name, ^name)", "Eq(c.name, ^name)", "String::eq(child.name, ^name)"):
                        key, named = "some(Iter::next(loop(iter))).ino", True
                st.append((key, comp[-1] if comp else None, named))
        steps[nm] = st
        parent = [x for x in st if x[0] == "loop(inode).parent"]
        child = [x for x in st if x[0] == "some(Iter::next(loop(iter))).ino" and x[2]]
        ctx.check(rule, nm + "/dotdot-goes-to-parent", len(parent) == 1 and parent[0][1] is not None,
                  "PseudoFs::%s: a `..` component must move to inodes[inode.parent]; steps found: %s" % (nm, [x[0] for x in st]), loc=b.loc())
        ctx.check(rule, nm + "/name-goes-to-child", len(child) >= 1 and len(child) == len([x for x in st if x[0].endswith(".ino") and "Iter::next" in x[0]]),
                  "PseudoFs::%s: a name component must move to the child whose name equals it; steps found: %s" % (nm, st), loc=b.loc())
        other = [x for x in st if x not in parent and x not in child and not (nm == "mount" and "PseudoFs::create_inode(" in x[0])]
        ctx.check(rule, nm + "/no-other-step", not other, "PseudoFs::%s moves to %s" % (nm, [x[0][:80] for x in other]), loc=b.loc())
    pm = [x[1] for x in steps["mount"] if x[0] == "loop(inode).parent"]
    pw = [x[1] for x in steps["path_walk"] if x[0] == "loop(inode).parent"]
    ctx.check(rule, "agree/dotdot-component", pm == pw and pm != [], "mount and path_walk take the parent step for different component kinds (%s vs %s)" % (pm, pw))


def r7_overrides(ctx, F):
    tr = F.traits[common.FS_TRAIT]
    impl = [i for i in F.impls if i.get("trait") == common.FS_TRAIT and i.get("self_adt") == VFS]
    if len(impl) != 1:
        raise core.Anchor("impl FileSystem for Vfs")
    have = set(m["name"] for m in impl[0]["items"] if m["kind"] == "Fn")
    # trait methods taking an inode
    for m in tr["items"]:
        if m["kind"] != "Fn":
            continue
        n = m["name"]
        if n in have:
            ctx.ok("R7-not-implemented", n, "overridden", nontrivial=False)
        elif n in NOT_IMPLEMENTED:
            ctx.ok("R7-not-implemented", n, NOT_IMPLEMENTED[n])
        elif n == "batch_forget":
            d = F.fns.get("%s::%s" % (common.FS_TRAIT, n))
            ok = d is not None and [c.name for c in live_calls(d) if c.trait == common.FS_TRAIT] == ["forget"]
            ctx.check("R7-not-implemented", n, ok, "the default FileSystem::batch_forget no longer forwards each entry to forget (which Vfs routes)", loc=d.loc() if d else "")
        else:
            d = F.fns.get("%s::%s" % (common.FS_TRAIT, n))
            takes_inode = d is not None and any("::Inode" in d.local_ty(i) for i in range(1, d.argc + 1))
            ctx.check("R7-not-implemented", n, not takes_inode,
                      "Vfs no longer overrides FileSystem::%s: requests are answered by the trait default instead of the owning mount" % n,
                      loc="%s:%s" % (impl[0]["file"], impl[0]["line"]))
    ctx.floor("R7-not-implemented", 40)


META = {
    "technique": "MIR value-flow routing rules (receiver/inode provenance), dominance of cross-mount and vacancy gates, table-coherence of slot writers, constant relations of the inode codec",
    "text": "Decides, for every inode-taking Vfs operation and both arms (pseudo / backend): same-named backend operation, receiver = filesystem "
            "resolved from the operation's own inode parameter, inode argument = that mount's own number, other parameters unchanged; results "
            "converted exactly once with the routing inode (mount crossings with the mount point's index/root); rename/link refuse before any "
            "backend when mounts differ; vacant slots fail in get_fs_by_idx before a backend is built; slot writers and publish order; codec constants.",
    "note": "Not decided: behaviour with stale inode numbers after slot reuse; numbering consistency of the backends themselves.",
}
META["text"] += " " + 'Also: modified table copies are always published; the two pseudo-fs path walkers agree per component kind.'
