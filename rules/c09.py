"""C09 — concurrent lookups and forgets never lose a reference or duplicate an inode (lock and atomic discipline only).

R1 the lock-free increment is a compare-exchange on the value loaded in the same iteration and tested non-zero,
   and a failed exchange re-probes the map
R2 insertion happens under the write guard, after a re-probe under that same guard whose miss arm is the inserting one
R3 forget_one runs on the write-locked store (decrement and removal in one critical section), by compare-exchange
R4 nobody overwrites the count with a plain store (shared with C08.R5)
R5 references taken while listing a directory are paired with the entries the client actually learns of (shared with C08.R2)

Linearizability itself (all interleavings) is NOT decided by this check.
R1-entry-pairing (shared with C08.R1) a reference the client never received is given back on that inode
R4-lookup-shape, R7-identity-lookup, R8-batch-forget-default: shared with C08
"""
from pyfbr import core, vf
from rules import common
from rules import c08

PFS = c08.PFS


def live_calls(b):
    r = b.reachable()
    return [c for c in b.calls() if c.bb in r and not b.is_cleanup(c.bb)]


def run(ctx):
    ctx.explanation = (
        "Necessary conditions of the lookup/forget synchronisation read off the MIR of do_lookup and forget_one: the "
        "lock-free increment is a compare-exchange against the value loaded (and tested non-zero) in the same retry-loop "
        "iteration, whose failure edge returns to the map probe; the insert path re-probes and inserts under one live write "
        "guard; the decrement and the removal happen under the caller's write guard by compare-exchange; no plain store on the "
        "count exists anywhere. These are structural clauses only: interleavings are not explored.")
    F = ctx.facts("S") or ctx.facts("D")
    if F is None:
        return
    ctx.run_rule("R1-cas-loop", r1_cas_loop, F)
    ctx.run_rule("R2-insert-under-guard", r2_insert, F)
    ctx.run_rule("R3-forget-critical-section", c08.r3_forget, F)
    ctx.run_rule("R4-no-plain-store", c08.r5_who, F)
    ctx.run_rule("R5-readdir-references", c08.r2_readdir, F)
    ctx.run_rule("R7-identity-lookup", c08.r7_identity, F)          # the probe that decides "found" vs "insert" (shared with C08)
    ctx.run_rule("R4-lookup-shape", c08.r4_lookup, F)               # found / inserted / raced arms each count exactly one reference
    ctx.run_rule("R8-batch-forget-default", batch_forget_default, F)
    from rules import c02
    ctx.run_rule("R7-oversize-gate", c02.r7_oversize, F)            # the only pre-dispatch refusal is on the request's length: a forget is never dropped for lack of reply space
    ctx.run_rule("R1-entry-pairing", c08.r1_entry_pairing, F)     # a reference the client never received is given back, on that inode
    ctx.floor('R1-cas-loop', 7)
    ctx.floor('R2-insert-under-guard', 6)
    ctx.floor("R3-forget-shape", 10)
    ctx.floor('R1-entry-pairing', 14)
    ctx.assumptions += ["linearizability over all interleavings is not decided (needs schedule exploration, a different technique family)"]


def batch_forget_default(ctx, F):
    """The provided FileSystem::batch_forget (what a backend behind the Vfs gets unless it overrides it) forgets each pair's
    inode by that pair's count."""
    b = F.fns.get("api::filesystem::sync_io::FileSystem::batch_forget")
    if b is None:
        raise core.Anchor("FileSystem::batch_forget default body")
    ctx.fn_seen(b)
    v = vf.VF(b, inline_depth=0, opaque_loops=True)
    fg = [c for c in live_calls(b) if c.name == "forget"]
    ok = len(fg) == 1
    a = []
    if ok:
        a = [vf.render(x, b, short=True, vfx=v) for x in v.call_args(fg[0])]
        el = "some(IntoIter::next(loop(iter)))"
        ok = a[1:] == ["ctx", el + ".0", el + ".1"] and not [1 for (x, l, u) in v.guards(fg[0].bb) if not vf.render(x, b, short=True, vfx=v).startswith("discr(")]
    ctx.check("R8-batch-forget-default", "forwards-each-pair", ok, "FileSystem::batch_forget (default) calls forget(%s); required (ctx, inode, count) of every request pair" % ", ".join(a[1:]), loc=b.loc())


def r1_cas_loop(ctx, F):
    b = F.method(PFS, "do_lookup")
    ctx.fn_seen(b)
    v = vf.VF(b, inline_depth=0)
    cas = [c for c in live_calls(b) if c.name == "compare_exchange"]
    probe = [c for c in live_calls(b) if c.name == "get_alt"]
    ld = [c for c in live_calls(b) if c.name == "load" and "refcount" in vf.render(v.call_args(c)[0], b, short=True)]
    if not ctx.check("R1-cas-loop", "shape", len(cas) == 1 and len(probe) == 1 and len(ld) == 1,
                     "do_lookup fast path: %d probe / %d load / %d compare_exchange sites (expected 1/1/1)" % (len(probe), len(ld), len(cas)), loc=b.loc()):
        return
    cas, probe, ld = cas[0], probe[0], ld[0]
    a = v.call_args(cas)
    # expected operand is the value loaded in this iteration
    exp = a[1]
    ctx.check("R1-cas-loop", "expected-is-loaded", exp == v.call_expr(ld),
              "do_lookup's compare-exchange expects `%s`, which is not the count loaded in the same iteration" % vf.render(exp, b, short=True)[:160], loc=cas.loc())
    # ... taken from the entry found by this iteration's probe
    obj = vf.render(a[0], b, short=True)
    ctx.check("R1-cas-loop", "on-probed-entry", "get_alt(" in obj and obj.endswith(".refcount"),
              "do_lookup's compare-exchange targets `%s`, not the entry returned by this iteration's probe" % obj[:160], loc=cas.loc())
    # the zero test dominates the exchange (a count of 0 means forget is destroying the entry)
    g = [(vf.render(cond, b, short=True), lab) for (cond, lab, u) in v.guards(cas.bb)]
    lt = vf.render(v.call_expr(ld), b, short=True)
    zero = any(t in ("Ne(0, %s)" % lt, "Lt(0, %s)" % lt, "Le(1, %s)" % lt) and lab != 0 for (t, lab) in g)
    ctx.check("R1-cas-loop", "zero-tested", zero, "do_lookup increments a count without having seen it non-zero in this iteration (guards %s)" % [t for (t, l) in g if "load" in t], loc=cas.loc())
    # loop structure: the probe, the load and the exchange are in one loop; the failure edge of the exchange and the
    # zero edge lead back to the probe without leaving the loop
    hs = v.loop_headers()
    inloop = [h for h in hs if b.can_reach(h, probe.bb) and b.can_reach(cas.bb, h)]
    ctx.check("R1-cas-loop", "retry-loop", bool(inloop), "do_lookup: the probe and the compare-exchange are not in one retry loop", loc=cas.loc())
    # failure edge of the CAS: from the is_ok() switch false edge, the probe is reached before any return/insert
    isok = [c for c in live_calls(b) if c.name == "is_ok" and c.bb in b.reach_set(cas.bb)]
    ok = False
    if isok:
        sw = isok[0].target
        if sw is not None and b.term(sw)[0] == "switch":
            ftgt = [t for (lab, t) in b.switch_edges(sw) if lab == 0]
            if ftgt:
                reach = b.reach_set(ftgt[0], avoid={probe.bb})
                ok = not (reach & set(b.return_blocks())) and not any(c.bb in reach for c in live_calls(b) if c.name in ("insert_locked", "get_map_mut", "compare_exchange"))
    ctx.check("R1-cas-loop", "failed-cas-reprobes", ok,
              "do_lookup: after a failed compare-exchange the map is not probed again before the next attempt: a retry can resurrect an entry that a "
              "concurrent forget has already removed", loc=cas.loc())
    # zero edge also re-probes
    tt = []
    for u in b.reachable():
        if b.term(u)[0] == "switch":
            for (lab, tgt) in b.switch_edges(u):
                c_, l_ = v.switch_cond(u, lab)
                if vf.render(c_, b, short=True) == "Eq(0, %s)" % lt and l_ != 0:
                    tt.append(tgt)
    ok = False
    if True:
        if tt:
            reach = b.reach_set(tt[0], avoid={probe.bb})
            ok = not (reach & set(b.return_blocks())) and not any(c.bb in reach for c in live_calls(b) if c.name in ("insert_locked", "compare_exchange"))
    ctx.check("R1-cas-loop", "zero-reprobes", ok, "do_lookup: a zero count does not lead back to the probe", loc=b.loc())
    for c in (cas, ld):
        t = [vf.render(x, b, short=True) for x in v.call_args(c)[1:]]
        ctx.check("R1-cas-loop", "ordering/" + c.name, "Relaxed" not in t, "do_lookup uses Relaxed ordering in %s" % c.name, loc=c.loc())


def r2_insert(ctx, F):
    b = F.method(PFS, "do_lookup")
    v = vf.VF(b, inline_depth=0)
    gm = [c for c in live_calls(b) if c.name == "get_map_mut"]
    rp = [c for c in live_calls(b) if c.name == "get_alt_locked"]
    ins = [c for c in live_calls(b) if c.name == "insert_locked"]
    if not ctx.check("R2-insert-under-guard", "shape", len(gm) == 1 and len(rp) == 1 and len(ins) == 1,
                     "do_lookup slow path: %d write-guard / %d re-probe / %d insert sites (expected 1/1/1)" % (len(gm), len(rp), len(ins)), loc=b.loc()):
        return
    gm, rp, ins = gm[0], rp[0], ins[0]
    guard = v.call_expr(gm)
    # both operate on the store behind that guard
    for c, what in ((rp, "re-probe"), (ins, "insert")):
        a = v.call_args(c)[0]
        ok = any(x == guard for x in vf.walk(vf.strip_upd(a))) or any(x == guard for x in vf.walk(a))
        ctx.check("R2-insert-under-guard", what + "/on-guarded-store", ok,
                  "do_lookup: the %s does not operate on the store behind the write guard (`%s`)" % (what, vf.render(a, b, short=True)[:120]), loc=c.loc())
    ctx.check("R2-insert-under-guard", "order", b.dominates(gm.bb, rp.bb) and b.dominates(rp.bb, ins.bb),
              "do_lookup: write guard, re-probe and insert are not in this order on the insert path", loc=ins.loc())
    # the guard is not dropped between the re-probe and the insert
    gl = gm.dest[0]
    dropped = False
    region = b.reach_set(rp.bb, avoid={ins.bb})
    for bb in region:
        t = b.term(bb)
        if t[0] == "drop" and t[1][0] == gl and b.can_reach(bb, ins.bb):
            dropped = True
        for s in b.stmts(bb):
            if s[0] == "dead" and s[1] == gl and b.can_reach(bb, ins.bb):
                dropped = True
    ctx.check("R2-insert-under-guard", "guard-live", not dropped, "do_lookup releases the write guard between the re-probe and the insert", loc=ins.loc())
    # insert only on the miss arm of the re-probe
    g = [(vf.render(cond, b, short=True), lab) for (cond, lab, u) in v.guards(ins.bb)]
    ctx.check("R2-insert-under-guard", "insert-on-miss", any("get_alt_locked(" in t and t.startswith("discr(") and lab == 0 for (t, lab) in g),
              "do_lookup inserts without the re-probe under the write guard having missed (guards %s)" % [t[:60] for (t, l) in g if "get_alt" in t], loc=ins.loc())
    # get_map_mut really is the write lock
    gmm = [x for x in F.fns.values() if x.name == "get_map_mut" and "passthrough" in x.key]
    ok = len(gmm) == 1 and any(c.name == "write" for c in live_calls(gmm[0]))
    ctx.check("R2-insert-under-guard", "write-lock", ok, "InodeMap::get_map_mut no longer takes the write lock", loc=gmm[0].loc() if gmm else "")
    # forget_one's store parameter is &mut InodeStore: only a write guard can produce it
    fo = F.method(PFS, "forget_one")
    ctx.check("R2-insert-under-guard", "forget-exclusive", fo.local_ty(2).startswith("&mut ") and "InodeStore" in fo.local_ty(2),
              "forget_one no longer takes the store by exclusive reference", loc=fo.loc())


META = {
    "technique": "structural lock/atomic discipline rules over MIR (dominance, loop structure, guard liveness, who-may-store)",
    "text": "Decides necessary structural conditions only: compare-exchange against the value loaded and tested non-zero in the same retry "
            "iteration; failed exchange and zero count re-probe the map; re-probe and insert under one live write guard with insert on the miss "
            "arm; forget_one's decrement/removal by compare-exchange on the exclusively borrowed store; no plain store on the count.",
    "note": "Linearizability over all interleavings is NOT decided: that needs schedule exploration (a different technique family). The rules "
            "detect the realistic ways of breaking the discipline (dropping the re-probe, replacing CAS by load/store, splitting the critical section).",
}
META["text"] += " " + 'Also: give-back of undelivered references on the right inode (C08.R1).'
