"""Entry point: python3 -m rules.main <ID> [--tier quick|thorough] [--replay path]"""
import importlib
import json
import os
import sys

from pyfbr import core


def main():
    args = sys.argv[1:]
    if not args:
        print("usage: check <ID> [--tier quick|thorough] [--replay path]")
        return 2
    pid = args[0].upper()
    tier = os.environ.get("VERIF_TIER", "quick")
    replay = None
    i = 1
    while i < len(args):
        if args[i] == "--tier":
            tier = args[i + 1]
            i += 2
        elif args[i] == "--replay":
            replay = args[i + 1]
            i += 2
        else:
            i += 1
    seed = int(os.environ.get("VERIF_SEED", "0") or 0)
    ctx = core.Ctx(pid, tier, seed)
    try:
        mod = importlib.import_module("rules.%s" % pid.lower())
    except ImportError as e:
        print("no rules for %s: %s" % (pid, e))
        return 2
    mod.run(ctx)
    if tier == "thorough" and hasattr(mod, "thorough"):
        mod.thorough(ctx)
    rc = ctx.finish()
    if replay:
        want = json.load(open(replay)).get("key")
        hit = want in ctx.violations
        print("replay %s: %s" % (want, "still violated" if hit else "no longer reported"))
        return 1 if hit else 0
    return rc


if __name__ == "__main__":
    sys.exit(main())
