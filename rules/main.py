"""Entry point: python3 -m rules.main <ID> [--tier quick|thorough] [--replay path]

quick     the property's rules over the main feature configuration of /repo's current tree
thorough  the same rules additionally over the other feature configurations in which they apply (async-io build, fusedev-only
          build), followed by a self-test of the checker: every stored property-breaking change of this property
          (/verif/seeded/<ID>-k/patch.diff) is applied to a throw-away copy of the current tree and the rules must report it.
          A missed self-test is reported (SELFTEST-MISSED, and in the evidence) but is not a violation of the property.
"""
import importlib
import json
import os
import re
import shutil
import subprocess
import sys
import tempfile
import time

from pyfbr import core
from pyfbr import facts as factsmod

# configurations the rules of a property are meaningful in besides the main one (S); D lacks virtiofs/persist/async code that
# the rules of the other properties anchor on
EXTRA_CFGS = {
    "A": ["C%02d" % i for i in range(1, 21)],
    "D": ["C05", "C06", "C07", "C08", "C09", "C10", "C11", "C12", "C13", "C15", "C16", "C18"],
}
SEEDED = os.path.join(core.VERIF, "seeded")
BENIGN = os.path.join(core.VERIF, "benign")


def run_rules(pid, tier, seed, force_cfg=None):
    ctx = core.Ctx(pid, tier, seed)
    ctx.force_cfg = force_cfg
    mod = importlib.import_module("rules.%s" % pid.lower())
    mod.run(ctx)
    return ctx


def factsmod_file(ctx, key):
    for f in ctx.configs.values():
        if f is not None and key in f.fns:
            return f.fns[key].file
    return None


def merge(base, other, cfg):
    """violations found only in another configuration keep their key (so that known findings still match) and name the config"""
    for k, v in other.violations.items():
        if k not in base.violations:
            v = dict(v)
            v["message"] = "[features %s] %s" % (factsmod.CONFIGS[cfg], v["message"])
            base.violations[k] = v
    for c, f in other.configs.items():
        base.configs.setdefault(c, f)
    base.functions |= other.functions
    base.extra.setdefault("per_config", {})[cfg] = {
        "evaluations": len(other.instances), "distinct_nontrivial": len(other.nontrivial), "violations": len(other.violations)}


def patch_files(patch):
    return set(re.findall(r"^\+\+\+ b/(\S+)", open(patch).read(), flags=re.M))


MAX_BENIGN = 12      # per property and run (the whole corpus is evaluated with tools/eval_patches.py /verif/benign)


def self_test(pid, files=None):
    """Apply each stored breaking change (must be reported) and each stored behaviour-preserving refactoring that touches a
    file this check analyses (must stay quiet) to a scratch copy of the current tree and run the quick rules on it."""
    out = []
    jobs = []
    for d in (sorted(os.listdir(SEEDED)) if os.path.isdir(SEEDED) else []):
        if d.startswith(pid + "-") and os.path.exists(os.path.join(SEEDED, d, "patch.diff")):
            jobs.append((d, os.path.join(SEEDED, d, "patch.diff"), True))
    nb = 0
    for d in (sorted(os.listdir(BENIGN)) if os.path.isdir(BENIGN) else []):
        pth = os.path.join(BENIGN, d, "patch.diff")
        if os.path.exists(pth) and files and (patch_files(pth) & files) and nb < MAX_BENIGN:
            jobs.append(("benign/" + d, pth, False))
            nb += 1
    if not jobs:
        return out
    tmp = tempfile.mkdtemp(prefix="fbr-selftest-")
    try:
        for (sd, patch, breaking) in jobs:
            name = sd
            sd = sd.replace("/", "_")
            if not os.path.exists(patch):
                continue
            t0 = time.time()
            work = os.path.join(tmp, sd)
            subprocess.check_call(["rsync", "-a", "--exclude", "target", "--exclude", ".git", factsmod.REPO + "/", work + "/"])
            p = subprocess.run(["git", "apply", "--whitespace=nowarn", patch], cwd=work, stdout=subprocess.PIPE, stderr=subprocess.STDOUT, text=True)
            if p.returncode != 0:
                out.append({"seed": name, "applied": False, "note": "does not apply to the current tree (tree changed since it was made)"})
                shutil.rmtree(work, ignore_errors=True)
                continue
            env = dict(os.environ)
            env.update(FBR_REPO=work, FBR_CACHE=os.path.join(tmp, "cache-" + sd), FBR_TARGET_BASE=factsmod.CACHE,
                       FBR_EVID_DIR=os.path.join(tmp, "evid-" + sd), PYTHONPATH=os.path.join(core.VERIF, "engine") + ":" + core.VERIF)
            q = subprocess.run([sys.executable, "-m", "rules.main", pid, "--tier", "quick"], cwd=core.VERIF, env=env,
                               stdout=subprocess.PIPE, stderr=subprocess.STDOUT, text=True)
            keys = sorted(set(re.findall(r"\[(%s/[^\]]+)\]" % pid, "\n".join(l for l in q.stdout.splitlines() if l.startswith("  ")))))
            build = [k for k in keys if "/build/" in k]
            real = [k for k in keys if "/build/" not in k]
            rec = {"seed": name, "applied": True, "expected": "reported" if breaking else "quiet",
                   "detected": bool(real) and q.returncode == 1, "reported": real[:6], "wall_s": round(time.time() - t0, 1)}
            if build:
                rec["build_failed"] = build
                if not real:
                    rec["detected"] = None
                    rec["note"] = "the changed tree did not type-check in the scratch copy; no verdict"
            out.append(rec)
            shutil.rmtree(work, ignore_errors=True)
    finally:
        shutil.rmtree(tmp, ignore_errors=True)
    return out


def main():
    args = sys.argv[1:]
    if not args:
        print("usage: check <ID> [--tier quick|thorough] [--replay path]")
        return 2
    pid = args[0].upper()
    tier = os.environ.get("VERIF_TIER", "quick")
    replay = None
    i = 1
    while i < len(args):
        if args[i] == "--tier":
            tier = args[i + 1]
            i += 2
        elif args[i] == "--replay":
            replay = args[i + 1]
            i += 2
        else:
            i += 1
    seed = int(os.environ.get("VERIF_SEED", "0") or 0)
    try:
        ctx = run_rules(pid, tier, seed)
    except ImportError as e:
        print("no rules for %s: %s" % (pid, e))
        return 2
    if tier == "thorough" and not replay:
        for cfg in ("A", "D"):
            if pid in EXTRA_CFGS[cfg]:
                other = run_rules(pid, tier, seed, force_cfg=cfg)
                merge(ctx, other, cfg)
        files = {factsmod_file(ctx, k) for k in ctx.functions}
        st = self_test(pid, files - {None})
        ctx.self_test = {"what": "each stored property-breaking change (must be reported) and each stored behaviour-preserving refactoring touching "
                                 "an analysed file (must stay quiet), applied to a scratch copy of the current tree and checked with the quick rules",
                         "results": st}
        for r in st:
            if r.get("applied") and r.get("expected") == "reported" and r.get("detected") is False:
                print("SELFTEST-MISSED: property=%s %s is not reported by the rules" % (pid, r["seed"]))
            if r.get("applied") and r.get("expected") == "quiet" and r.get("detected"):
                print("SELFTEST-FALSE-ALARM: property=%s %s is reported: %s" % (pid, r["seed"], r.get("reported")))
    rc = ctx.finish()
    if replay:
        want = json.load(open(replay)).get("key")
        hit = want in ctx.violations
        print("replay %s: %s" % (want, "still violated" if hit else "no longer reported"))
        return 1 if hit else 0
    return rc


if __name__ == "__main__":
    sys.exit(main())
