"""C12 — INIT negotiation enables exactly the features both sides asked for.

R1 capable/enabled/InitOut provenance in Server::init
R2 extended marker: flags2 is only meaningful together with INIT_EXT in flags
R3 reply layout by minor version, major mismatch arms
R4 write-size limits fit the transport buffers (constant relations); R7 (shared with C02) the dispatcher's oversize refusal leaves room for a maximal WRITE
R5 feature toggles of Vfs / PassthroughFs / OverlayFs are switched on only under the negotiated flag
R6 Vfs::init refuses a second INIT and publishes `initialized` after the backends
R5 (cont.) exact switch-on condition of each backend toggle as a truth table over (under-vfs, configured, offered)
R8 release/releasedir obey their own toggle (shared with C15.R3); R1-options-roundtrip toggles survive save/restore (shared with C19.R1)
R9 a successful INIT records (InitIn.major, InitIn.minor) before it answers
R8 (cont.) configured toggles are read by init only; FUSE_ATTR_DAX is set only where per-file DAX was negotiated; Vfs::destroy destroys every backend and clears `initialized`
"""
import json
import os
import re

from pyfbr import core, vf
from rules import common

TABLE = os.path.join(core.VERIF, "tables", "init.json")
VFS = "api::vfs::Vfs"
PFS = "passthrough::PassthroughFs"
OVL = "overlayfs::OverlayFs"


def live_calls(b):
    r = b.reachable()
    return [c for c in b.calls() if c.bb in r and not b.is_cleanup(c.bb)]


def run(ctx):
    ctx.explanation = (
        "Value-flow of Server::init (capability word from flags/flags2, enabled = capable & want, every InitOut field on "
        "every reply arm, reply size per minor version), constant relations between the advertised write size and the "
        "transport buffer limits, and for Vfs/PassthroughFs/OverlayFs::init the dominating capability test of every "
        "toggle that is switched on, against a hand-confirmed table.")
    F = ctx.facts("S") or ctx.facts("D")
    if F is None:
        return
    table = json.load(open(TABLE))
    vf.NOUPD[0] = True
    try:
        ctx.run_rule("R1-negotiation", r1_negotiation, F, table)
        ctx.run_rule("R3-layout", r3_layout, F, table)
        ctx.run_rule("R4-write-limits", r4_limits, F, table)
        from rules import c02
        ctx.run_rule("R7-oversize-gate", c02.r7_oversize, F)    # the dispatcher accepts what max_write promised
        ctx.run_rule("R5-toggles", r5_toggles, F, table)
        ctx.run_rule("R6-reinit", r6_reinit, F, table)
        ctx.run_rule("R9-version-recorded", r9_version, F)
        # what was negotiated stays what it was: each release path obeys its own toggle; toggles survive save/restore field by field
        from rules import c15, c19
        ctx.run_rule("R8-toggle-use", c15.release_toggles, F, "R8-toggle-use")
        ctx.run_rule("R8-toggle-use", configured_toggle_readers, F, "R8-toggle-use")
        ctx.run_rule("R8-toggle-use", dax_only_if_negotiated, F, "R8-toggle-use")
        ctx.run_rule("R8-toggle-use", nothing_negotiated_at_construction, F, "R8-toggle-use")
        if any(k.startswith("api::vfs::persist::") for k in F.fns):      # feature persist (absent in configuration D)
            ctx.run_rule("R1-options-roundtrip", c19.r1_options, F)
    finally:
        vf.NOUPD[0] = False
    ctx.assumptions += ["flag constants equal the kernel's (C13)", "later behaviour of each toggle is decided by C05/C15/C18"]


def init_env(F):
    b = F.method(common.SERVER, "init")
    v = vf.VF(b)
    roots = common.request_roots(v, b) + common.ctx_roots(b)
    fsc = common.fs_calls(b)
    if len(fsc) != 1 or fsc[0].name != "init":
        raise core.Anchor("fs.init call in Server::init")
    e = v.call_expr(fsc[0])
    roots.append((vf.field(("V", e, "Ok"), "0", 0), "want"))
    roots.append((("F", vf.field(("V", e, "Ok"), "0", 0), "bits"), "want"))
    named = {}
    # `capable` is what the filesystem is offered, whatever the local is called
    named["capable"] = v.call_args(fsc[0])[1]
    # the reply may be composed in a private helper: analyse it in the caller's frame (its parameters bound to the caller's arguments)
    frames = [(b, v)]
    for c in live_calls(b):
        callee = F.fns.get(c.res or c.fn or "")
        if callee is not None and callee.kind in ("fn", "assoc") and "InitOut" in callee.local_ty(0) and not c.trait:
            args = v.call_args(c)
            frames.append((callee, vf.VF(callee, params={i + 1: a for i, a in enumerate(args)})))
    for n in ("enabled", "enabled_flags", "readahead"):
        for (fb, fv) in frames:
            try:
                x = vf.def_value(fv, fb, n)
            except Exception:
                x = None
            if x is not None:
                named[n] = x
                break
        if n not in named and n == "enabled":
            raise core.Anchor("variable enabled in Server::init (or the helper composing InitOut)")
    init_env.frames = frames
    return b, v, roots, named, fsc[0]


def r1_negotiation(ctx, F, table):
    b, v, roots, named, fsc = init_env(F)
    ctx.fn_seen(b)
    exp = table["server_init"]
    # avail = ctx.r.available_bytes()
    av = [c for c in live_calls(b) if c.name == "available_bytes"]
    if av:
        roots.append((v.call_expr(av[0]), "avail"))
    t = vf.render(named["capable"], b, roots, short=True, vfx=v)
    ctx.check("R1-negotiation", "capable", t == exp["capable"], "Server::init: the capability word is `%s`, required `%s`" % (t[:600], exp["capable"]),
              loc=b.loc(), detail=t[:200])
    cap_bits = vf.field(named["capable"], "bits", 0)
    r2 = roots + [(named["capable"], "capable"), (cap_bits, "capable")]
    t = vf.render(named["enabled"], b, r2, short=True, vfx=v)
    ctx.check("R1-negotiation", "enabled", t == exp["enabled"], "Server::init: enabled is `%s`, required `%s` (intersection of both sides)" % (t[:300], exp["enabled"]),
              loc=b.loc(), detail=t[:200])
    # the filesystem is asked with the capability word
    a = v.call_args(fsc)
    ctx.check("R1-negotiation", "fs-init-arg", a[1] == named["capable"], "Server::init: the filesystem is not offered the client's capability word", loc=fsc.loc())
    en_bits = vf.field(named["enabled"], "bits", 0)
    r3 = r2 + [(named["enabled"], "enabled"), (en_bits, "enabled")]
    if "enabled_flags" in named:
        r3.append((named["enabled_flags"], "enabled"))
    # final InitOut at the full-size reply
    full = None
    for c in live_calls(b):
        if c.name == "reply_ok":
            a = v.call_args(c)[1]
            g = [v.guard_text(u, lab, r3) for (u, lab) in b.edge_guards(c.bb)]
            if any("discr(FileSystem::init" in x for x in g) and not any(x.startswith("Lt(") for x in g):
                full = (c, a)
    if full is None:
        raise core.Anchor("full-size INIT reply site")
    c, a = full
    out = a[3][0][1] if a[0] == "A" and a[2] == "Some" else a
    vfx = {fb.key: fv for (fb, fv) in init_env.frames}
    rb = b
    out0 = vf.strip_upd(out)
    if out0[0] == "C" and out0[1] in F.fns:
        for (fb, fv) in init_env.frames[1:]:
            if fb.key == out0[1]:
                out = fv.ret()
                rb = fb
    vf.NOCAST[0] = True
    try:
        got = {}
        for fld in exp["init_out"]:
            x = vf.field(out, fld)
            got[fld] = vf.render(x, rb, r3, short=True, vfx=vfx)
    finally:
        vf.NOCAST[0] = False
    if os.environ.get("FBR_GEN"):
        print("INITOUT", json.dumps(got, indent=1))
    for fld, want in sorted(exp["init_out"].items()):
        rule = "R2-ext-marker" if fld == "flags" else "R1-negotiation"
        ctx.check(rule, "InitOut." + fld, got[fld] == want,
                  "INIT reply: %s is `%s`, required `%s`" % (fld, got[fld][:500], want), loc=c.loc(), detail=got[fld][:200])
    ctx.sample({"InitOut": {k: got[k][:120] for k in ("flags", "flags2", "max_write")}})
    ctx.floor("R1-negotiation", 12)


def r3_layout(ctx, F, table):
    b, v, roots, named, fsc = init_env(F)
    exp = table["layout"]
    sites = []
    for c in live_calls(b):
        if c.name != "reply_ok":
            continue
        g = []
        for (u, lab) in sorted(b.edge_guards(c.bb)):
            t = v.guard_text(u, lab, roots)
            if "InitIn.minor" in t or "InitIn.major" in t:
                g.append(t)
        a = v.call_args(c)[1]
        sp = [x for x in vf.walk(a) if x[0] == "C" and x[1].endswith("split_at")]
        size = vf.render(sp[0][3][1], b, roots, short=True) if sp else "full"
        sites.append((c, sorted(g), size))
    got = sorted(("; ".join(g), size) for (_, g, size) in sites)
    want = sorted((r["guards"], r["size"]) for r in exp["replies"])
    if os.environ.get("FBR_GEN"):
        print("LAYOUT", json.dumps(got, indent=1))
    for w in want:
        ctx.check("R3-layout", "reply[%s]" % w[1], w in got,
                  "INIT: no reply of size `%s` under exactly the version tests `%s` (found %s)" % (w[1], w[0], got), loc=b.loc(), detail=str(w))
    for g in got:
        ctx.check("R3-layout", "extra[%s|%s]" % (g[1], g[0][:40]), g in want, "INIT: unexpected reply arm size `%s` under `%s`" % (g[1], g[0]), loc=b.loc())
    # too-old major: explicit EPROTO
    er = [c for c in live_calls(b) if c.name == "reply_error_explicit"]
    ok = False
    for c in er:
        g = [v.guard_text(u, lab, roots) for (u, lab) in b.edge_guards(c.bb)]
        a = vf.render(v.call_args(c)[1], b, roots, short=True)
        if "Lt(InitIn.major, KERNEL_VERSION)" in g and "EPROTO" in a:
            ok = True
    ctx.check("R3-layout", "major-too-old", ok, "INIT: a major version below the server's is not answered with EPROTO", loc=b.loc())
    # newer major: bare version reply
    for (c, g, size) in sites:
        if vf.fact("Gt(InitIn.major, KERNEL_VERSION)") in g:
            a = v.call_args(c)[1]
            out = a[3][0][1] if a[0] == "A" and a[2] == "Some" else a
            vf.NOCAST[0] = True
            fl = {n: vf.render(x, b, roots, short=True) for (n, x) in out[3]} if out[0] == "A" else {}
            vf.NOCAST[0] = False
            ok = fl.get("major") == "KERNEL_VERSION" and fl.get("minor") == "KERNEL_MINOR_VERSION" and \
                all("default" in t for k, t in fl.items() if k not in ("major", "minor"))
            ctx.check("R3-layout", "major-newer", ok, "INIT: a newer major is not answered with the bare server version: %s" % fl, loc=c.loc())
    # the compat constants pair up (values themselves are checked against the kernel in C13)
    for r in exp["pairs"]:
        k = F.const(r["minor_const"])
        s = F.const(r["size_const"])
        ctx.check("R3-layout", "pair/" + r["size_const"].rsplit("::", 1)[-1], k == r["minor"] and s == r["size"],
                  "%s = %s / %s = %s, required %s / %s" % (r["minor_const"], k, r["size_const"], s, r["minor"], r["size"]))


def r4_limits(ctx, F, table):
    maxbuf = F.const("api::server::MAX_BUFFER_SIZE")
    pages = F.const("api::server::MAX_REQ_PAGES")
    minrd = F.const("api::server::MIN_READ_BUFFER")
    hdr = F.const("api::server::BUFFER_HEADER_SIZE")
    ctx.check("R4-write-limits", "max-write-4k", pages * 4096 <= maxbuf,
              "max_write advertised with 4 KiB pages (%d) exceeds MAX_BUFFER_SIZE (%d): the server would refuse writes it promised to accept" % (pages * 4096, maxbuf))
    ctx.check("R4-write-limits", "min-write", minrd - hdr > 0 and minrd - hdr <= maxbuf, "the small max_write (%d) is not within the buffer limit" % (minrd - hdr))
    ctx.check("R4-write-limits", "header-room", hdr >= F.structs["abi::fuse_abi::InHeader"]["size"] + F.structs["abi::fuse_abi::WriteIn"]["size"],
              "BUFFER_HEADER_SIZE (%d) does not cover fuse_in_header + fuse_write_in" % hdr)
    ctx.check("R4-write-limits", "min-read-buffer", minrd == F.const("abi::fuse_abi::FUSE_MIN_READ_BUFFER"), "MIN_READ_BUFFER differs from FUSE_MIN_READ_BUFFER")
    ctx.notes.append("hosts with pages larger than 4 KiB: max_write = MAX_REQ_PAGES * pagesize() can exceed MAX_BUFFER_SIZE (observation, not armed)")


def atomic_store_true_sites(b, v):
    """[(field name, Call)] for self.<field>.store(true, ..)"""
    out = []
    for c in live_calls(b):
        if c.name == "store" and "atomic" in (c.fn or "").lower():
            a = v.call_args(c)
            if a[1][0] == "K" and a[1][1] == 1 and a[0][0] == "F":
                out.append((a[0][2], c))
    return out


def r5_toggles(ctx, F, table):
    exp = table["toggles"]
    # ---- backends: store(true) only on the true edge of capable.contains(FLAG); FLAG offered on the same edge
    for adt, rows in (("passthrough::PassthroughFs", exp["passthrough"]), ("overlayfs::OverlayFs", exp["overlay"])):
        cands = [b for b in F.find(name="init", self_adt=adt) if b.trait == common.FS_TRAIT]
        if len(cands) != 1:
            raise core.Anchor("%s::init" % adt)
        b = cands[0]
        ctx.fn_seen(b)
        v = vf.VF(b)
        pcap = b.param_index("capable") if adt != "overlayfs::OverlayFs" else 2
        roots = [(("P", pcap), "capable"), (("F", ("P", pcap), "bits"), "capable")]
        sites = atomic_store_true_sites(b, v)
        seen = set()
        tag = adt.rsplit("::", 1)[-1]
        for (fld, c) in sites:
            seen.add(fld)
            row = rows.get(fld)
            if row is None:
                ctx.violation("R5-toggles", "%s.%s" % (tag, fld), "%s::init switches on `%s`, which is not in the toggle table" % (tag, fld), loc=c.loc())
                continue
            g = [v.guard_text(u, lab, roots) for (u, lab) in b.edge_guards(c.bb)]
            need = "has(capable, %s)" % row["flag"]
            alt = need
            ok = need in g or alt in g
            ctx.check("R5-toggles", "%s.%s/negotiated" % (tag, fld), ok,
                      "%s::init switches `%s` on without the client having offered %s (guards: %s)" % (tag, fld, row["flag"], [x for x in g if "capable" in x] or g[:3]),
                      loc=c.loc(), detail=need)
            # exact condition, as a truth table over (under-vfs, configured, offered): a toggle is switched on iff the client offered
            # the feature and either the backend sits under a vfs (which negotiated already) or its own configuration asks for it
            from rules import c20
            import itertools
            atoms, ev = c20.refusal_table(b, v, c.bb, 0, None, b)
            D = [x for x in atoms if re.fullmatch(r"self\.(cfg|config)\.do_import", x)]
            X = [x for x in atoms if re.fullmatch(r"self\.(cfg|config)\.%s" % fld, x)]
            Cc = [x for x in atoms if x in ("FsOptions::contains(capable, %s)" % row["flag"], "has(capable.bits, %s)" % row["flag"], "has(capable, %s)" % row["flag"])]
            when = row.get("when", "(!import|cfg)&cap")
            want_fn = {"(!import|cfg)&cap": lambda d, x, k: (not d or x) and k, "cap": lambda d, x, k: k, "cfg&cap": lambda d, x, k: x and k}[when]
            need_atoms = {"(!import|cfg)&cap": (D, X, Cc), "cap": (Cc,), "cfg&cap": (X, Cc)}[when]
            tt_ok = all(len(a_) == 1 for a_ in need_atoms)
            bad_rows = []
            if tt_ok:
                for (d_, x_, k_) in itertools.product([False, True], repeat=3):
                    assign = {}
                    if D:
                        assign[D[0]] = d_
                    if X:
                        assign[X[0]] = x_
                    if Cc:
                        assign[Cc[0]] = k_
                    if ev(assign) != bool(want_fn(d_, x_, k_)):
                        bad_rows.append((d_, x_, k_))
            ctx.check("R5-toggles", "%s.%s/condition" % (tag, fld), tt_ok and not bad_rows,
                      "%s::init switches `%s` on under a condition other than `%s` (do_import, configured, offered) - differing rows: %s; atoms: %s"
                      % (tag, fld, when, bad_rows[:4], sorted(x for x in atoms if fld in x or "do_import" in x or row["flag"] in x)), loc=c.loc())
            for extra in row.get("also", []):
                ctx.check("R5-toggles", "%s.%s/config" % (tag, fld), any(extra in x for x in g),
                          "%s::init: `%s` no longer depends on `%s`" % (tag, fld, extra), loc=c.loc())
            # FLAG is added to the returned options under the same capability test
            ors = [d for d in live_calls(b) if d.name == "bitor_assign" and vf.render(v.call_args(d)[1], b, roots, short=True) == row["flag"]]
            okor = any(set(b.edge_guards(d.bb)) == set(b.edge_guards(c.bb)) for d in ors)
            ctx.check("R5-toggles", "%s.%s/offered" % (tag, fld), okor,
                      "%s::init switches `%s` on but does not return %s in its options on that path" % (tag, fld, row["flag"]), loc=c.loc())
            if row.get("removes"):
                rm = [d for d in live_calls(b) if d.name == "remove" and vf.render(v.call_args(d)[1], b, roots, short=True) == row["removes"]]
                ctx.check("R5-toggles", "%s.%s/removes" % (tag, fld), any(set(b.edge_guards(d.bb)) == set(b.edge_guards(c.bb)) for d in rm),
                          "%s::init switches `%s` on without removing %s" % (tag, fld, row["removes"]), loc=c.loc())
        rt = vf.render(v.ret(), b, roots, short=True, vfx=v)
        ctx.check("R5-toggles", "%s/base-options" % tag, "FsOptions::bitor(DO_READDIRPLUS, READDIRPLUS_AUTO)" in rt or "FsOptions::bitor(READDIRPLUS_AUTO, DO_READDIRPLUS)" in rt
                  or "BitOr(DO_READDIRPLUS, READDIRPLUS_AUTO)" in rt,
                  "%s::init must always ask for DO_READDIRPLUS | READDIRPLUS_AUTO in the options it returns" % tag, loc=b.loc())
        for fld in rows:
            ctx.check("R5-toggles", "%s.%s/present" % (tag, fld), fld in seen, "%s::init no longer switches `%s`" % (tag, fld), loc=b.loc())
    # ---- Vfs::init: stored options
    cands = [b for b in F.find(name="init", self_adt=VFS) if b.trait == common.FS_TRAIT]
    if len(cands) != 1:
        raise core.Anchor("Vfs::init")
    b = cands[0]
    ctx.fn_seen(b)
    v = vf.VF(b)
    popts = b.param_index("opts")
    roots = [(("P", popts), "opts"), (("F", ("P", popts), "bits"), "opts")]
    n0 = vf.def_value(v, b, "n_opts")
    if n0 is not None:
        roots.append((n0, "cfg"))
    st = [c for c in live_calls(b) if c.name == "store" and "ArcSwap" in (c.fn or "") or (c.name == "store" and "arc_swap" in (c.fn or ""))]
    if len(st) != 1:
        raise core.Anchor("self.opts.store in Vfs::init (%d)" % len(st))
    stored = v.call_args(st[0])[1]
    while stored[0] == "C" and stored[3]:
        stored = stored[3][0]
    got = {}
    for fld in exp["vfs"]:
        got[fld] = vf.render(vf.field(stored, fld), b, roots, short=True, vfx=v)
    if os.environ.get("FBR_GEN"):
        print("VFS", json.dumps(got, indent=1))
    for fld, want in sorted(exp["vfs"].items()):
        ctx.check("R5-toggles", "Vfs.%s" % fld, got[fld] == want, "Vfs::init stores %s = `%s`, required `%s`" % (fld, got[fld][:500], want), loc=st[0].loc(), detail=got[fld][:160])
    # the value returned / handed to the backends is the stored out_opts
    r = vf.render(v.ret(), b, roots + [(vf.field(stored, "out_opts"), "OUT")], short=True, vfx=v)
    ctx.check("R5-toggles", "Vfs.returns", "Ok(OUT)" in r, "Vfs::init does not return the negotiated option set", loc=b.loc())
    for c in live_calls(b):
        if c.name == "init" and c.trait and "BackendFileSystem" in (c.self_ty or "") or (c.name == "init" and c.trait == common.FS_TRAIT and c.bb != 0):
            a = v.call_args(c)
            t = vf.render(a[1], b, roots + [(vf.field(stored, "out_opts"), "OUT")], short=True, vfx=v)
            ctx.check("R5-toggles", "Vfs.backend-init-arg", t == "OUT", "Vfs::init initialises backends with `%s`, not the negotiated set" % t[:120], loc=c.loc())
    ctx.floor("R5-toggles", 30)


def r9_version(ctx, F):
    """The client's protocol version is what later version-dependent replies consult (lookup's negative entries, C03): a
    successful INIT records exactly (InitIn.major, InitIn.minor) before it answers."""
    b = F.method(common.SERVER, "init")
    v = vf.VF(b)
    roots = common.request_roots(v, b) + common.ctx_roots(b)
    st = [c for c in live_calls(b) if c.name == "store" and "arc_swap" in (c.fn or "")]
    ok = len(st) == 1
    a = g = None
    if ok:
        a = [vf.render(x, b, roots, short=True, vfx=v) for x in v.call_args(st[0])]
        g = [(vf.render(x, b, roots, short=True, vfx=v), l) for (x, l, u) in v.guards(st[0].bb)]
        ok = a[0] == "self.vers" and a[1] == "Arc::new(ServerVersion{major: InitIn.major, minor: InitIn.minor})"
    ctx.check("R9-version-recorded", "stored-value", ok, "Server::init records `%s` as the session's protocol version; required the client's (major, minor)" % (a[1][:160] if a else "nothing"), loc=b.loc())
    if ok:
        fsok = [t for (t, l) in g if t.startswith("discr(FileSystem::init(") and l == 0]
        extra = [(t, l) for (t, l) in g if not t.startswith("discr(") and "InitIn.major" not in t]
        ctx.check("R9-version-recorded", "on-success", bool(fsok) and not extra, "the version is recorded under %s; it must be recorded whenever the filesystem accepted the INIT" % extra, loc=st[0].loc())
        replies = [c for c in live_calls(b) if c.name == "reply_ok" and any(t.startswith("discr(FileSystem::init(") and l == 0 for (t, l) in
                   [(vf.render(x, b, roots, short=True, vfx=v), l) for (x, l, u) in v.guards(c.bb)])]
        ctx.check("R9-version-recorded", "before-reply", bool(replies) and all(b.dominates(st[0].bb, c.bb) for c in replies),
                  "a successful INIT can be answered before (or without) recording the protocol version", loc=st[0].loc())


def r6_reinit(ctx, F, table):
    b = [x for x in F.find(name="init", self_adt=VFS) if x.trait == common.FS_TRAIT][0]
    v = vf.VF(b, inline_depth=0)
    ini = [c for c in live_calls(b) if c.name == "initialized"]
    ok = False
    if ini:
        c = ini[0]
        # every other call is on the false edge of initialized()
        st = [d for d in live_calls(b) if d.name == "store"]
        for d in st:
            g = [(vf.render(cond, b, short=True), lab) for (cond, lab, u) in v.guards(d.bb)]
            if not any(t.startswith("Vfs::initialized(") and lab == 0 for (t, lab) in g):
                break
        else:
            ok = True
    ctx.check("R6-reinit", "gate", ok, "Vfs::init: state is modified without first testing initialized()", loc=b.loc())
    r = vf.render(v.ret(), b, short=True, vfx=v)
    ctx.check("R6-reinit", "refuses", "Err(Error::from_raw_os_error(EINVAL))" in r, "Vfs::init no longer refuses a second INIT with EINVAL", loc=b.loc())
    fl = [d for d in live_calls(b) if d.name == "store" and "atomic" in (d.fn or "").lower()]
    be = [d for d in live_calls(b) if d.name == "init" and d.trait == common.FS_TRAIT]
    ok = len(fl) == 1 and all(b.can_reach(x.bb, fl[0].bb) for x in be) and not any(b.can_reach(fl[0].bb, x.bb) for x in be)
    ctx.check("R6-reinit", "publish-after-backends", ok, "Vfs::init sets `initialized` before all backends are initialised", loc=b.loc())
    # DESTROY ends the session for every backend and makes a new INIT possible (shared with C15: nothing outlives the session)
    vfs_destroy(ctx, F, "R6-reinit")


TOGGLE_READERS = {     # who may read the *configured* toggle: everything after INIT must consult the negotiated (runtime) flag
    ("passthrough", "no_open"): {"init"}, ("passthrough", "no_opendir"): {"init"}, ("passthrough", "writeback"): {"init"}, ("passthrough", "killpriv_v2"): {"init"},
    ("overlayfs", "no_open"): {"init"}, ("overlayfs", "no_opendir"): {"init"}, ("overlayfs", "killpriv_v2"): {"init"},
    ("overlayfs", "writeback"): {"init", "create", "open"},      # reviewed: the overlay adjusts open flags from its configuration
}


def configured_toggle_readers(ctx, F, rule):
    """The configured value of a negotiable feature (cfg.no_open, cfg.no_opendir, cfg.writeback, cfg.killpriv_v2) is an input of
    INIT only; a request handler that reads it instead of the negotiated flag behaves as if the feature had been negotiated when
    it was not (or the reverse: a backend under a vfs honours the capability whatever its own configuration says)."""
    def places(x):
        if isinstance(x, list):
            if x and isinstance(x[0], int) and not isinstance(x[0], bool) and all(isinstance(e, (list, str)) for e in x[1:]):
                yield x
            for e in x:
                yield from places(e)
        elif isinstance(x, dict):
            for e in x.values():
                yield from places(e)
    readers = {}
    for k, b in list(F.fns.items()) + list(F.built.items()):
        mod = k.split("::")[0]
        if mod not in ("passthrough", "overlayfs"):
            continue
        for bb in b.reachable():
            blk = b.blocks[bb]
            for p in places([blk["s"], blk["t"]]):
                names = [e[2] for e in p[1:] if isinstance(e, list) and e and e[0] == "."]
                for a, c in zip(names, names[1:]):
                    if a in ("cfg", "config") and (mod, c) in TOGGLE_READERS:
                        owner = b
                        while owner.kind in ("closure", "coroutine") and owner.owner in F.fns:
                            owner = F.fns[owner.owner]
                        readers.setdefault((mod, c), {}).setdefault(owner.name, owner)
    for (mod, c), allowed in sorted(TOGGLE_READERS.items()):
        got = readers.get((mod, c), {})
        for nm, ob in sorted(got.items()):
            ctx.check(rule, "configured-%s/%s/%s" % (mod, c, nm), nm in allowed,
                      "%s::%s reads the configured `%s` instead of the flag negotiated at INIT; only %s may read the configuration value" % (mod, nm, c, sorted(allowed)), loc=ob.loc())
        ctx.check(rule, "configured-%s/%s/init-reads" % (mod, c), "init" in got, "%s::init no longer consults the configured `%s`" % (mod, c))


def nothing_negotiated_at_construction(ctx, F, rule):
    """Before INIT nothing is negotiated: the constructors start every negotiable runtime flag at false."""
    for adt, flds in (("passthrough::PassthroughFs", ("writeback", "no_open", "no_opendir", "killpriv_v2", "perfile_dax")),
                      ("overlayfs::OverlayFs", ("writeback", "no_open", "no_opendir", "killpriv_v2", "perfile_dax"))):
        b = F.method(adt, "new")
        ctx.fn_seen(b)
        v = vf.VF(b, inline_depth=0)
        agg = None
        for bb in sorted(b.reachable()):
            for i, s_ in enumerate(b.stmts(bb)):
                if s_[0] == "=" and s_[2][0] == "agg" and isinstance(s_[2][1], dict) and s_[2][1].get("adt") == adt:
                    agg = dict(v.rvalue(s_[2], bb, i)[3])
        tag = adt.rsplit("::", 1)[-1]
        if not ctx.check(rule, "%s::new/literal" % tag, agg is not None, "%s::new no longer builds the filesystem with a struct literal" % tag, loc=b.loc()):
            continue
        for f in flds:
            if f not in agg:
                continue
            t = vf.render(agg[f], b, short=True, vfx=v)
            ctx.check(rule, "%s::new/%s-starts-false" % (tag, f), t in ("Atomic::new(0)", "AtomicBool::new(0)", "Atomic::new(false)") or t.endswith("::new(0)"),
                      "%s::new starts the negotiated flag `%s` as `%s`; before INIT nothing is negotiated (false)" % (tag, f, t[:80]), loc=b.loc())


def dax_only_if_negotiated(ctx, F, rule):
    """FUSE_ATTR_DAX is put into an entry's attribute flags only where per-file DAX was negotiated (runtime perfile_dax), for files
    at least as large as the configured threshold."""
    from rules import c18
    b = F.method("passthrough::PassthroughFs", "do_lookup")
    v = vf.VF(b, inline_depth=0)
    sites = []
    for bb in sorted(b.reachable()):
        for i, s_ in enumerate(b.stmts(bb)):
            if s_[0] == "=" and s_[2][0] in ("bin", "use"):
                t = vf.render(v.rvalue(s_[2], bb, i), b, short=True, vfx=v)
                if t == "FUSE_ATTR_DAX" or t.startswith("BitOr(FUSE_ATTR_DAX") or t.endswith(", FUSE_ATTR_DAX)"):
                    sites.append(bb)
    ok = bool(sites)
    bad = []
    for bb in sorted(set(sites)):
        for pf in c18.path_facts(b, v, bb):
            if not any(t == "Atomic::load(self.perfile_dax, Relaxed)" and l != 0 for (t, l) in pf) or \
                    not any(t.startswith("Le(some(self.cfg.dax_file_size), ") and l != 0 for (t, l) in pf):
                bad.append([(t[:50], l) for (t, l) in pf if "dax" in t.lower()])
    ctx.check(rule, "dax-flag/only-if-negotiated", ok and not bad,
              "do_lookup sets FUSE_ATTR_DAX on a path that has not established `perfile_dax negotiated` and `size >= threshold`: %s" % (bad[:2] or "no site found"), loc=b.loc())


def vfs_destroy(ctx, F, rule):
    d = [x for x in F.find(name="destroy", self_adt=VFS) if x.trait == common.FS_TRAIT]
    if len(d) != 1:
        raise core.Anchor("Vfs::destroy")
    d = d[0]
    ctx.fn_seen(d)
    dv = vf.VF(d, inline_depth=0, opaque_loops=True)
    ds = [c for c in live_calls(d) if c.name == "destroy"]
    st = [c for c in live_calls(d) if c.name == "store" and "atomic" in (c.fn or "").lower()]
    ok = len(ds) == 1 and len(st) == 1
    if ok:
        hs = [h for h in dv.loop_headers() if d.dominates(h, ds[0].bb) and d.can_reach(ds[0].bb, h)]
        g = [(vf.render(x, d, short=True, vfx=dv), l) for (x, l, u) in dv.guards(ds[0].bb)]
        extra = [(t, l) for (t, l) in g if not t.startswith("discr(") and not t.startswith("Vfs::initialized(")]
        a = [vf.render(x, d, short=True, vfx=dv) for x in dv.call_args(st[0])]
        ok = len(hs) == 1 and not extra and a[0] == "self.initialized" and a[1] == "0" and not d.can_reach(st[0].bb, ds[0].bb)
        ok = ok and any(c.name == "load" and "superblocks" in vf.render(dv.call_args(c)[0], d, short=True) for c in live_calls(d))
    ctx.check(rule, "destroy/every-backend-then-reset", ok,
              "Vfs::destroy must destroy every mounted backend (loop over the superblocks, no further condition) and then clear `initialized`", loc=d.loc())


META = {
    "technique": "MIR value-flow of the negotiation arithmetic and reply fields vs. frozen table; dominance of capability tests over toggle stores; constant relations",
    "text": "Decides: capable is built from flags (and flags2 only under INIT_EXT with payload); enabled = capable & want; every InitOut field incl. the "
            "INIT_EXT marker that makes flags2 effective; reply size arms per minor version and the major-mismatch arms; max_write constants fit "
            "the buffer limits and the dispatcher's oversize refusal leaves room for a maximal WRITE (shared with C02.R7); every backend toggle store(true) is dominated by the negotiated flag and offered in the returned options; Vfs "
            "stores/returns exactly the option algebra of the table, refuses re-INIT and publishes initialised last.",
    "note": "Flag values are tied to the kernel in C13. Not decided: later behaviour of each toggle; page sizes other than 4 KiB.",
}
META["text"] += " " + 'Also: exact switch-on truth table per backend toggle, release paths obey their own toggle, toggles survive save/restore, the negotiated version is recorded before the reply.'
