"""C03 — each reply is the exact wire encoding of what the filesystem returned.

R1 reply provenance: every field of every struct a handler passes to reply_ok, and the data slice
R2 one entry encoder: any EntryOut built outside From<Entry> must equal it field for field
R3 errno selection (do_reply_error, encode_io_error_kind)
R4 dirent accounting in add_dirent
R5 custom headers of read / do_readdir
R6 notification messages
R1 (cont.) version-dependent reply arms are taken under exactly the protocol-version facts of the protocol (pre-7.4 negative lookup); no other reply depends on the version
R1-layout field offsets and sizes of every reply struct equal the kernel's (C13.R1 restricted to reply structs)
R2-copy-loop (shared with C04) reply bytes reach guest memory in order
"""
import json
import re
import os

from pyfbr import core, vf
from rules import common
from rules.c13 import flatten_struct, strip

TABLE = os.path.join(core.VERIF, "tables", "server_replies.json")
ENTRY_OUT = "abi::fuse_abi::EntryOut"


def run(ctx):
    ctx.explanation = (
        "Every struct literal and data slice a Server handler hands to reply_ok, the error header built by "
        "do_reply_error, the dirent writer, the two hand-written reply headers and the notification messages are "
        "reduced by value-flow to expressions over the filesystem's result and compared with a hand-confirmed table "
        "(kernel reply layout per opcode); every EntryOut construction site must agree with the one encoder.")
    F = ctx.facts("S") or ctx.facts("D")
    if F is None:
        return
    table = json.load(open(TABLE))
    vf.NOUPD[0] = True
    vf.NOCAST[0] = True
    try:
        ctx.run_rule("R1-reply-provenance", r1_replies, F, table)
        ctx.run_rule("R2-one-entry-encoder", r2_entry, F, table)
        ctx.run_rule("R3-errno", r3_errno, F, table)
        ctx.run_rule("R4-dirent", r4_dirent, F, table)
        ctx.run_rule("R5-custom-headers", r5_headers, F, table)
        ctx.run_rule("R6-notify", r6_notify, F, table)
        ctx.run_rule("R1-layout", r7_reply_layouts, F)
        from rules import c04
        ctx.run_rule("R2-copy-loop", c04.r2_copy_loop, F)       # reply bytes reach guest memory in order (shared with C04)
    finally:
        vf.NOUPD[0] = False
        vf.NOCAST[0] = False
    ctx.assumptions += ["wire struct layouts are the kernel's (C13)", "payload bytes produced by the filesystem are not examined"]


# reply sites whose form depends on the negotiated protocol version: (handler, reply call) -> required version facts (normal form)
VERSION_ARMS = {
    ("lookup", "reply_error"): ["Lt(ArcSwapAny::load(self.vers).minor, KERNEL_MINOR_VERSION_LOOKUP_NEGATIVE_ENTRY_ZERO)"],
}


def version_arms(ctx, F, rule, handlers, frames=None):
    """A reply whose form depends on the protocol version depends on it exactly as the protocol says: before 7.4 a lookup
    result with inode 0 is answered ENOENT, from 7.4 on it is a cacheable negative entry. INIT's arms are decided by C12.R3.
    `frames` (C20): [(operation name, body, VF, parent fn)] for the async handlers, whose code lives in a coroutine body."""
    found = {}
    items = frames if frames is not None else [(h.name, h, vf.VF(h), h) for h in sorted(handlers, key=lambda b: b.line)]
    for (name, h, v, parent) in items:
        if name == "init":
            continue
        for c in h.calls():
            if not (c.name.startswith("reply_") or c.name.startswith("async_reply_")) or c.bb not in h.reachable() or h.is_cleanup(c.bb):
                continue
            g = [(vf.render(x, parent, short=True, vfx=v), l) for (x, l, u) in v.guards(c.bb)]
            gv = sorted(t for (t, l) in g if l != 0 and re.search(r"\b(minor|major|vers)\b", t)) + \
                sorted("!" + t for (t, l) in g if l == 0 and re.search(r"\b(minor|major|vers)\b", t))
            cn = c.name.replace("async_", "")
            if gv and (name, cn) == ("lookup", "reply_error") and not any(l != 0 and re.match(r"^Eq\(0, .*lookup\(.*\.inode\)$", t) for (t, l) in g):
                gv.append("(not restricted to a result with inode 0)")
            if gv:
                found.setdefault((name, cn), []).append((gv, c))
    for key, want in VERSION_ARMS.items():
        got = found.pop(key, [])
        ctx.check(rule, "version-arm/%s/%s" % key, len(got) == 1 and got[0][0] == want,
                  "%s: the version-dependent %s must be taken exactly under %s; found %s" % (key[0], key[1], want, [x[0] for x in got]),
                  loc=(got[0][1].loc() if got else ""))
    for key, got in sorted(found.items()):
        ctx.violation(rule, "version-arm/%s/%s" % key, "%s: %s depends on the protocol version (%s); no such dependence is part of the reply format" % (key[0], key[1], got[0][0]), loc=got[0][1].loc())


REPLY_STRUCTS = {"Attr", "Kstatfs", "FileLock", "Dirent", "Direntplus", "OutHeader", "IoctlIovec"}


def r7_reply_layouts(ctx, F):
    """Field offsets/sizes of every struct that goes out in a reply equal the kernel's (C13.R1 restricted to reply structs):
    with fields assigned by name, a reordered declaration puts the right value at the wrong wire offset."""
    from rules import c13
    c13.layout_subset(ctx, F, lambda n: n in REPLY_STRUCTS or n.endswith("Out"))
    ctx.floor("R1-layout", 100)


def result_roots(v, h):
    roots = common.request_roots(v, h) + common.ctx_roots(h)
    for c in common.fs_calls(h):
        e = v.call_expr(c)
        roots.append((vf.field(("V", e, "Ok"), "0", 0), "Res"))
        roots.append((vf.field(("V", e, "Err"), "0", 0), "Err"))
        roots.append((e, "fs.%s()" % c.name))
    return roots


def unwrap_some(e):
    """Some(x) -> x ; None -> None"""
    if e[0] == "A" and e[1].endswith("Option"):
        if e[2] == "Some":
            return e[3][0][1]
        return None
    return e


def entry_summary(F):
    c = [b for b in F.fns.values() if b.name == "from" and (b.self_ty or "") == ENTRY_OUT and "Entry" in b.key
         and (b.trait or "").endswith("From")]
    if len(c) != 1:
        raise core.Anchor("impl From<Entry> for EntryOut (%d)" % len(c))
    b = c[0]
    r = vf.VF(b).ret()
    return b, r


def flat_render(e, body, roots, vfx, prefix=""):
    """{dotted field: text} for nested aggregates."""
    out = {}
    if not prefix:
        roots = list(roots) + [(strip(r), n) for (r, n) in roots]
    fl = flatten_struct(e) if e[0] in ("A", "WITH") else None
    if fl is None or e[0] == "A" and e[1].endswith("Option"):
        out[prefix.rstrip(".") or "."] = vf.render(strip(e), body, roots, short=True, vfx=vfx)
        return out
    for k, x in fl.items():
        if x[0] == "A" and not x[1].endswith("Option") and x[3]:
            out.update(flat_render(x, body, roots, vfx, prefix + k + "."))
        else:
            out[prefix + k] = vf.render(strip(x), body, roots, short=True, vfx=vfx)
    return out


def r1_replies(ctx, F, table):
    rows = table["replies"]
    eb, esum = entry_summary(F)
    gen = {}
    seen = set()
    for h in sorted(common.handler_bodies(F), key=lambda b: b.line):
        v = vf.VF(h)
        roots = result_roots(v, h)
        ctx.fn_seen(h)
        idx = 0
        for c in h.calls():
            if c.name != "reply_ok" or c.bb not in h.reachable() or h.is_cleanup(c.bb):
                continue
            args = v.call_args(c)
            out, data = args[1], args[2]
            o = unwrap_some(out)
            if o is None:
                desc = {"out": "None"}
            elif o[0] == "A" and o[1] == ENTRY_OUT:
                # must be the one encoder applied to some entry expression
                src = None
                for (n, x) in o[3]:
                    if n == "nodeid" and x[0] == "F" and x[2] == "inode":
                        src = x[1]
                if src is None:
                    desc = {"out": "EntryOut(?)"}
                else:
                    want = vf.subst(esum, {1: src})
                    same = vf.erase_sites(want) == vf.erase_sites(o)
                    desc = {"out": "EntryOut::from(%s)" % vf.render(src, h, roots, short=True, vfx=v) if same
                            else "EntryOut{hand-built from %s}" % vf.render(src, h, roots, short=True, vfx=v)}
            else:
                desc = {}
                fr = flat_render(o, h, roots, v)
                name = o[1].rsplit("::", 1)[-1] if o[0] == "A" else "value"
                for k, t in fr.items():
                    desc["%s.%s" % (name, k)] = t
            desc["data"] = vf.render(strip(data), h, roots + [(strip(r), n) for (r, n) in roots], short=True, vfx=v)
            key = "%s#%d" % (h.name, idx)
            idx += 1
            gen[key] = desc
            exp = rows.get(key)
            seen.add(key)
            if exp is None:
                ctx.violation("R1-reply-provenance", key, "reply site %s has no row in tables/server_replies.json: %s"
                              % (key, json.dumps(desc)[:300]), loc=c.loc())
                continue
            for fld in sorted(set(exp) | set(desc)):
                e, g = exp.get(fld), desc.get(fld)
                if e == "*":
                    ctx.ok("R1-reply-provenance", "%s/%s" % (key, fld), "decided elsewhere (C12)", nontrivial=False)
                    continue
                ctx.check("R1-reply-provenance", "%s/%s" % (key, fld), vf.same_text(e, g),
                          "%s: reply field %s carries `%s`, the reply format requires `%s`" % (h.name, fld, g, e),
                          loc=c.loc(), detail=str(g)[:100])
            if len(ctx.samples) < 5 and o is not None:
                ctx.sample({"reply": key, "fields": desc})
        # handle_attr_result users
        for c in h.calls():
            if c.name == "handle_attr_result" and c.bb in h.reachable() and not h.is_cleanup(c.bb):
                a = v.call_args(c)[1]
                fsn = [cc.name for cc in common.fs_calls(h)]
                ctx.check("R1-reply-provenance", "%s/attr-result" % h.name,
                          a[0] == "C" and a[1].endswith("FileSystem::" + h.name) and fsn == [h.name],
                          "%s: handle_attr_result is not fed the filesystem's result" % h.name, loc=c.loc())
    for key in rows:
        if key not in seen:
            ctx.violation("R1-reply-provenance", key, "reply site %s of the table no longer exists" % key)
    version_arms(ctx, F, "R1-reply-provenance", common.handler_bodies(F))
    # handle_attr_result itself
    har = [b for b in F.fns.values() if b.name == "handle_attr_result" and b.self_adt == common.SRVCTX]
    if len(har) != 1:
        raise core.Anchor("SrvContext::handle_attr_result")
    b = har[0]
    v = vf.VF(b)
    ctx.fn_seen(b)
    res = ("P", 2)
    roots = [(vf.field(("V", res, "Ok"), "0", 0), "Res"), (vf.field(("V", res, "Err"), "0", 0), "Err")]
    got = {}
    for c in b.calls():
        if c.name == "reply_ok" and c.bb in b.reachable() and not b.is_cleanup(c.bb):
            o = unwrap_some(v.call_args(c)[1])
            fr = flat_render(o, b, roots, v)
            got = {"AttrOut.%s" % k: t for k, t in fr.items()}
    gen["handle_attr_result"] = got
    exp = table["attr_result"]
    for fld in sorted(set(exp) | set(got)):
        ctx.check("R1-reply-provenance", "handle_attr_result/%s" % fld, exp.get(fld) == got.get(fld),
                  "handle_attr_result: field %s carries `%s`, required `%s`" % (fld, got.get(fld), exp.get(fld)), loc=b.loc())
    if os.environ.get("FBR_GEN"):
        print(json.dumps(gen, indent=1))
    ctx.floor("R1-reply-provenance", 110)


def r2_entry(ctx, F, table):
    eb, esum = entry_summary(F)
    ctx.fn_seen(eb)
    # the encoder itself
    got = flat_render(esum, eb, [], None)
    exp = table["entry_encoder"]
    for fld in sorted(set(exp) | set(got)):
        ctx.check("R2-one-entry-encoder", "encoder/%s" % fld, exp.get(fld) == got.get(fld),
                  "From<Entry> for EntryOut: field %s carries `%s`, required `%s`" % (fld, got.get(fld), exp.get(fld)),
                  loc=eb.loc(), detail=str(got.get(fld)))
    # every other construction site
    n = 0
    for facts in [F]:
        for b in list(facts.fns.values()):
            if b.key == eb.key or b.exp:
                continue      # the encoder itself; derive-generated bodies (Default/Clone)
            for bb in range(b.n):
                if b.is_cleanup(bb):
                    continue
                for i, s in enumerate(b.stmts(bb)):
                    if s[0] == "=" and s[2][0] == "agg" and s[2][1].get("adt") == ENTRY_OUT:
                        n += 1
                        v = vf.VF(b)
                        o = v.rvalue(s[2], bb, i)
                        src = None
                        for (nm, x) in o[3]:
                            if nm == "nodeid" and x[0] == "F" and x[2] == "inode":
                                src = x[1]
                        same = src is not None and vf.erase_sites(vf.subst(esum, {1: src})) == vf.erase_sites(o)
                        diff = ""
                        if src is not None and not same:
                            w = dict(vf.subst(esum, {1: src})[3])
                            g = dict(o[3])
                            rt = [(src, "entry")]
                            diff = "; ".join("%s: `%s` vs encoder `%s`" % (k, vf.render(g[k], b, rt, short=True)[:120], vf.render(w[k], b, rt, short=True)[:120])
                                             for k in g if vf.erase_sites(g.get(k)) != vf.erase_sites(w.get(k)))
                        ctx.check("R2-one-entry-encoder", "site/%s" % b.key.split("::")[-1] if False else "site/%s" % b.name, same,
                                  "%s builds an EntryOut by hand that differs from From<Entry> (%s)" % (b.name, diff or "source entry not recognised"),
                                  loc=b.loc(s[3]))
    ctx.extra["entryout_construction_sites_outside_encoder"] = n


def r3_errno(ctx, F, table):
    b = [x for x in F.fns.values() if x.name == "do_reply_error" and x.self_adt == common.SRVCTX and x.kind == "assoc"
         and "sync_io" in x.key]
    if len(b) != 1:
        raise core.Anchor("SrvContext::do_reply_error (sync)")
    b = b[0]
    ctx.fn_seen(b)
    v = vf.VF(b)
    wa = [c for c in b.calls() if c.name == "write_all" and c.bb in b.reachable() and not b.is_cleanup(c.bb)]
    if len(wa) != 1:
        raise core.Anchor("write_all in do_reply_error")
    hdr = v.call_args(wa[0])[1]
    # as_slice(OutHeader{..})
    while hdr[0] == "C" and hdr[3]:
        hdr = hdr[3][0]
    fl = flatten_struct(hdr) if hdr[0] == "A" else None
    if not fl:
        ctx.violation("R3-errno", "header", "shape not recognised: error header is `%s`" % vf.render(hdr, b, short=True)[:200], loc=wa[0].loc())
        return
    roots = common.ctx_roots(b) + [((("F", ("F", ("P", 1), "in_header"), "unique")), "Hdr.unique")]
    txt = {k: vf.render(x, b, roots, short=True, vfx=v) for k, x in fl.items()}
    exp = table["error_header"]
    for k in sorted(exp):
        ctx.check("R3-errno", "header/%s" % k, txt.get(k) == exp[k],
                  "error reply header: %s is `%s`, required `%s`" % (k, txt.get(k), exp[k]), loc=wa[0].loc(), detail=txt.get(k))
    # mapping table
    e = F.fn("encode_io_error_kind")
    ctx.fn_seen(e)
    t = e.term(0)
    sw = [bb for bb in e.reachable() if e.term(bb)[0] == "switch"]
    if len(sw) != 1:
        ctx.violation("R3-errno", "kind-map/shape", "shape not recognised: encode_io_error_kind is not a single match", loc=e.loc())
        return
    ve = vf.VF(e)
    # discriminant values of std::io::ErrorKind are not in the local facts: identify arms by the
    # constant they return and compare the *set* of (variant index -> errno) with the frozen table
    arms = {}
    tt = e.term(sw[0])
    for (lab, tgt) in e.switch_edges(sw[0]):
        cur = tgt
        val = None
        for _ in range(6):
            tx = e.term(cur)
            r = ve.local_at(0, cur, len(e.stmts(cur)))
            if r[0] == "K":
                val = r
                break
            if tx[0] == "goto":
                cur = tx[1]
            else:
                break
        arms[lab] = val
    libc = table["errno_values"]
    want = table["kind_map"]          # ErrorKind discriminant -> errno name(s)
    for lab, val in sorted(arms.items(), key=lambda x: str(x[0])):
        key = str(lab)
        names = want.get(key)
        if names is None:
            ctx.violation("R3-errno", "kind-map/%s" % key, "ErrorKind discriminant %s -> %s is not in the table" % (key, val and val[1]), loc=e.loc())
            continue
        ok = val is not None and val[1] in [libc[n] for n in names["errno"]]
        ctx.check("R3-errno", "kind-map/%s" % names["kind"], ok,
                  "ErrorKind::%s is sent as errno %s, required one of %s" % (names["kind"], val and val[1], names["errno"]), loc=e.loc(),
                  detail="%s -> %s" % (names["kind"], val and val[1]))
    for key, names in want.items():
        ctx.check("R3-errno", "kind-map-listed/%s" % names["kind"], (int(key) if key != "otherwise" else key) in arms,
                  "ErrorKind::%s has no arm any more" % names["kind"], loc=e.loc())


def r4_dirent(ctx, F, table):
    b = F.fn("api::server::sync_io::add_dirent")
    ctx.fn_seen(b)
    v = vf.VF(b)
    eb, esum = entry_summary(F)
    roots = [(("P", b.param_index(n)), n) for n in ("cursor", "max", "d", "entry")]
    exp = table["dirent"]
    # named intermediate values, each defined in terms of the earlier ones
    for n in ("dirent_len", "padded_dirent_len", "total_len", "dirent", "padding"):
        e = vf.def_value(v, b, n)
        if e is None:
            raise core.Anchor("variable %s in add_dirent" % n)
        g = vf.render(strip(e), b, roots, short=True, vfx=v)
        ctx.check("R4-dirent", "def/" + n, g == exp["defs"][n], "add_dirent: %s is computed as `%s`, required `%s`" % (n, g[:400], exp["defs"][n]),
                  loc=b.loc(), detail=g[:150])
        roots.append((e, n))
        roots.append((strip(e), n))
    # the rounding closure: l & !7
    pads = [vf.render(vf.VF(c).ret(), c, short=True) for c in F.closures_of(b.key)]
    ctx.check("R4-dirent", "round-up", exp["pad_closure"] in pads, "add_dirent: the 8-byte rounding closure `%s` is gone (closures: %s)" % (exp["pad_closure"], pads), loc=b.loc())
    wa = [c for c in b.calls() if c.name == "write_all" and c.bb in b.reachable() and not b.is_cleanup(c.bb)]
    ctx.check("R4-dirent", "writes", len(wa) == 4, "add_dirent has %d write_all sites, expected 4 (entry, dirent, name, padding)" % len(wa), loc=b.loc())
    texts = []
    for c in wa:
        a = v.call_args(c)[1]
        rr = list(roots)
        for x in vf.walk(a):
            if x[0] == "A" and x[1] == ENTRY_OUT:
                src = None
                for (nm, y) in x[3]:
                    if nm == "nodeid" and y[0] == "F" and y[2] == "inode":
                        src = y[1]
                if src is not None and vf.erase_sites(vf.subst(esum, {1: src})) == vf.erase_sites(x):
                    rr.append((x, "EntryOut::from(%s)" % vf.render(src, b, roots, short=True, vfx=v)))
        t = vf.render(strip(a), b, rr + [(strip(r), n) for (r, n) in rr], short=True, vfx=v)
        if "promoted[" in t:
            import re
            t = re.sub(r"k\([^)]*promoted\[\d+\]\)", "<const>", t)
        texts.append(t)
    for i, (g, e) in enumerate(zip(texts, exp["writes"])):
        ctx.check("R4-dirent", "write#%d" % i, g == e, "add_dirent write #%d emits `%s`, required `%s`" % (i, g[:300], e), loc=wa[i].loc(), detail=g[:120])
    for i in range(len(wa) - 1):
        ctx.check("R4-dirent", "order#%d" % i, b.can_reach(wa[i].bb, wa[i + 1].bb) and not b.can_reach(wa[i + 1].bb, wa[i].bb),
                  "add_dirent write order changed at #%d" % i, loc=wa[i + 1].loc())
    gate = None
    for c in wa:
        gs = [(vf.render(strip(cond), b, roots, short=True, vfx=v), lab) for (cond, lab, u) in v.guards(c.bb)]
        ok = (vf.neg_fact(exp["gate"]), "otherwise") in gs
        ctx.check("R4-dirent", "gated@%d" % wa.index(c), ok,
                  "add_dirent write #%d is not on the false edge of the space check `%s` (its guards: %s)" % (wa.index(c), exp["gate"], [g for g in gs if g[0].startswith(("Lt(", "Le("))]),
                  loc=c.loc())
    rt = vf.render(strip(v.ret()), b, roots, short=True, vfx=v)
    if os.environ.get("FBR_DEBUG"):
        print("RET", rt)
    for want in exp["returns"]:
        ctx.check("R4-dirent", "returns/" + want, ("=> %s" % want) in rt, "add_dirent no longer returns %s" % want, loc=b.loc())
    # Ok(0) exactly on the true edge of the gate
    ctx.check("R4-dirent", "skip-edge", ("%s => Ok(0)" % exp["gate"]) in rt, "add_dirent: Ok(0) is not returned exactly when the space check fails", loc=b.loc())
    ctx.sample({"add_dirent": {"gate": exp["gate"], "writes": texts}})


def r5_headers(ctx, F, table):
    exp = table["custom_headers"]
    for hn in ("read", "do_readdir"):
        h = F.method(common.SERVER, hn)
        ctx.fn_seen(h)
        v = vf.VF(h)
        roots = result_roots(v, h)
        wa = [c for c in h.calls() if c.name == "write_all" and c.bb in h.reachable() and not h.is_cleanup(c.bb)]
        cm = [c for c in h.calls() if c.name == "commit" and c.bb in h.reachable() and not h.is_cleanup(c.bb)]
        if not ctx.check("R5-custom-headers", hn + "/sites", len(wa) == 1 and len(cm) == 1,
                         "%s: expected one header write_all and one commit, found %d/%d" % (hn, len(wa), len(cm)), loc=h.loc()):
            continue
        a = v.call_args(wa[0])
        hdr = a[1]
        while hdr[0] == "C" and hdr[3]:
            hdr = hdr[3][0]
        fl = flatten_struct(hdr) if hdr[0] == "A" else {}
        for k, e in exp[hn]["header"].items():
            g = vf.render(fl[k], h, roots, short=True, vfx=v) if k in fl else "<missing>"
            ctx.check("R5-custom-headers", "%s/%s" % (hn, k), g == e, "%s: reply header %s is `%s`, required `%s`" % (hn, k, g[:200], e), loc=wa[0].loc(), detail=g[:100])
        # header goes to the first half (ctx.w), commit carries the second half
        w0 = vf.render(a[0], h, roots, short=True, vfx=v)
        c1 = vf.render(v.call_args(cm[0])[1], h, roots, short=True, vfx=v)
        c0 = vf.render(v.call_args(cm[0])[0], h, roots, short=True, vfx=v)
        ctx.check("R5-custom-headers", hn + "/halves", w0 == exp[hn]["header_writer"] and c0 == exp[hn]["header_writer"] and c1 == exp[hn]["commit_arg"],
                  "%s: header written to `%s`, committed `%s` with `%s`; required header on %s, commit with %s"
                  % (hn, w0, c0, c1, exp[hn]["header_writer"], exp[hn]["commit_arg"]), loc=cm[0].loc())
        ctx.check("R5-custom-headers", hn + "/order", h.dominates(wa[0].bb, cm[0].bb), "%s: commit is not after the header write" % hn, loc=cm[0].loc())
        # an error returned by the filesystem is always answered as an error: from the Err edge of the filesystem's result
        # the success header cannot be reached, and an error reply is sent on every path
        fsc = [c for c in h.calls() if c.trait == common.FS_TRAIT and c.bb in h.reachable() and not h.is_cleanup(c.bb)]
        sites = {(h.key, c.bb) for c in fsc}

        def is_res(e):
            e = vf.strip_upd(e)
            if e[0] == "C":
                return e[4] in sites
            if e[0] == "PHI":
                return all(is_res(x) for (_, x) in e[2])
            return False
        err_edges = []
        for u in h.reachable():
            t = h.term(u)
            if t[0] != "switch":
                continue
            c_ = v.operand(t[1], u, len(h.stmts(u)))
            if c_[0] == "D" and is_res(c_[1]):
                err_edges += [tgt for (lab, tgt) in h.switch_edges(u) if lab == 1]
        ok = bool(err_edges)
        for tgt in err_edges:
            reach = h.reach_set(tgt)
            ok = ok and wa[0].bb not in reach
            ers = {c.bb for c in h.calls() if c.name in ("reply_error", "reply_error_explicit") and c.bb in reach}
            ok = ok and bool(ers) and (tgt in ers or not _path_avoiding(h, tgt, ers))
        ctx.check("R5-custom-headers", hn + "/error-is-error", ok,
                  "%s: an error returned by the filesystem can be answered with a success header (or not at all): the client must get the negated errno" % hn, loc=h.loc())


def _path_avoiding(h, start, avoid):
    """is a return block reachable from start without passing a block of `avoid`?"""
    reach = h.reach_set(start, avoid=avoid)
    return any(r in reach for r in h.return_blocks())


def r6_notify(ctx, F, table):
    exp = table["notify"]
    for fn, row in sorted(exp.items()):
        h = F.method(common.SERVER, fn)
        ctx.fn_seen(h)
        v = vf.VF(h)
        roots = [(("P", i), h.local_name(i)) for i in range(1, h.argc + 1)]
        wo = [c for c in h.calls() if c.bb in h.reachable() and not h.is_cleanup(c.bb)
              and ((c.name == "write_obj" and c.self_adt and "Writer" in c.self_adt)
                   or (c.name in ("write", "write_all") and c.trait == "std::io::Write"))]
        got = []
        for c in wo:
            a = v.call_args(c)[1]
            if a[0] in ("A", "WITH"):
                fr = flat_render(a, h, roots, v)
                got.append({k: t for k, t in fr.items()})
            else:
                got.append({".": vf.render(strip(a), h, roots, short=True, vfx=v)})
        if os.environ.get("FBR_GEN"):
            print(fn, json.dumps(got, indent=1))
        ctx.check("R6-notify", fn + "/writes", len(got) == len(row["writes"]), "%s: %d writes, expected %d" % (fn, len(got), len(row["writes"])), loc=h.loc())
        for i, (g, e) in enumerate(zip(got, row["writes"])):
            for k in sorted(set(g) | set(e)):
                if e.get(k) == "*":
                    continue
                ctx.check("R6-notify", "%s/write#%d/%s" % (fn, i, k), g.get(k) == e.get(k),
                          "%s: write #%d field %s is `%s`, required `%s`" % (fn, i, k, g.get(k), e.get(k)), loc=wo[i].loc(), detail=str(g.get(k))[:100])
        cm = [c for c in h.calls() if c.name == "commit" and c.bb in h.reachable() and not h.is_cleanup(c.bb)]
        ctx.check("R6-notify", fn + "/commit", len(cm) == 1 and all(h.dominates(c.bb, cm[0].bb) for c in wo),
                  "%s: the message is not committed once after all parts are written" % fn, loc=h.loc())


META = {
    "technique": "MIR value-flow of reply struct literals, error header, dirent writer and notify messages vs. frozen reply-format table; single-encoder agreement",
    "text": "Decides: which result value every reply field carries (all reply_ok sites, handle_attr_result, custom read/readdir "
            "headers, notifications), that every EntryOut is produced by or equal to the one From<Entry> encoder (attr flags included), "
            "error = -(raw_os_error or encode_io_error_kind(kind)) with the tabled kind->errno map, and add_dirent's size/padding/gate "
            "arithmetic and write order.",
    "note": "Table tables/server_replies.json is the oracle (kernel reply layouts per opcode). Not decided: payload bytes produced by "
            "the filesystem; numeric values at run time.",
}
META["text"] += " " + "Also: reply structs have the kernel's field offsets (C13 restricted to replies); version-dependent reply arms depend on the version exactly as the protocol says."
