"""C06 — nothing outside the exported directory is reachable; names are single components.

R1 name gate: every operation that creates/removes/renames/links a name validates it (both names for rename) before
   anything else; lookup rejects names containing '/'; the predicate scans the whole name
R2 open flags: lookups open with O_PATH|O_NOFOLLOW|O_CLOEXEC; O_NOFOLLOW is cleared only in the /proc reopen helper
R3 root clamp: ".." at the export root is rewritten to "." under exactly `parent == ROOT_ID && name starts with ".."`
R4 path-taking system calls are directory-relative (to an inode/handle descriptor or /proc/self/fd); absolute paths
   only at the three by-design sites
R1 (cont.) polarity of the name predicates (is_safe_path_component, is_dot_or_dotdot, validate_path_component, the passthrough wrapper)
R3-forget-shape (shared with C08.R3) no forget evicts the root the clamp compares with
R5-passthrough-delegation (shared with C20.R5) the async passthrough entry points go through the gated sync ones
"""
from pyfbr import core, vf
from rules import common
from rules import c08, c07, c05

PFS = c08.PFS
VFS = c07.VFS
MUTATORS = {"symlink": ["name"], "mknod": ["name"], "mkdir": ["name"], "unlink": ["name"], "rmdir": ["name"],
            "rename": ["oldname", "newname"], "link": ["newname"], "create": ["name"]}


def live_calls(b):
    r = b.reachable()
    return [c for c in b.calls() if c.bb in r and not b.is_cleanup(c.bb)]


def run(ctx):
    ctx.explanation = (
        "Dominance rules: in the VFS and in the passthrough filesystem every name-taking mutator validates each of its names "
        "before any other call, lookup refuses '/' before anything else; value-flow rules: the validation predicate scans the "
        "complete name, lookup opens with O_PATH|O_NOFOLLOW|O_CLOEXEC, the root clamp has exactly its two conditions; "
        "who-may rules: which functions may issue path-taking system calls and relative to which descriptors.")
    F = ctx.facts("S") or ctx.facts("D")
    if F is None:
        return
    vf.NOUPD[0] = True
    vf.NOCAST[0] = True
    try:
        ctx.run_rule("R1-name-gate", r1_gate, F)
        ctx.run_rule("R2-open-flags", r2_flags, F)
        ctx.run_rule("R2-open-flags", r2b_symlink_safe, F)
        ctx.run_rule("R3-root-clamp", r3_clamp, F)
        ctx.run_rule("R4-relative-paths", r4_paths, F)
        # the root clamp compares with the root's node: no forget may evict the root (C08.R3, root exempt in forget_one itself)
        from rules import c08
        ctx.run_rule("R3-forget-shape", c08.r3_forget, F)
        A = ctx.facts("A", required=False)
        if A is not None:
            ctx.run_rule("R1-name-gate-async", r1_gate_async, A)
            from rules import c20
            ctx.run_rule("R5-passthrough-delegation", c20.r5_pfs, A)      # the async passthrough entry points go through the gated sync ones
    finally:
        vf.NOUPD[0] = False
        vf.NOCAST[0] = False
    ctx.assumptions += ["symlink/rename races inside the host kernel are not examined"]


def gate_first(ctx, rule, b, key, pname, gate_names):
    """The `?`-success edge of validate(name) dominates every other call of b (except pure argument preparation)."""
    v = vf.VF(b, inline_depth=0)
    pidx = b.param_index(pname)
    gs = [c for c in live_calls(b) if c.name in gate_names and any(a == ("P", pidx) for a in v.call_args(c))]
    if not ctx.check(rule, key + "/validated", len(gs) == 1, "%s does not validate its `%s` argument" % (b.name, pname), loc=b.loc()):
        return
    g = gs[0]
    # Continue edge of the `?`
    tb = b.call_at(g.target) if g.target is not None else None
    ok_bb = None
    if tb is not None and tb.name == "branch" and tb.target is not None and b.term(tb.target)[0] == "switch":
        ok_bb = [t for (lab, t) in b.switch_edges(tb.target) if lab == 0][0]
    if not ctx.check(rule, key + "/propagated", ok_bb is not None, "%s ignores the result of validating `%s`" % (b.name, pname), loc=g.loc()):
        return
    bad = []
    for c in live_calls(b):
        if c is g or c is tb or c.name in gate_names or c.name in ("from_residual", "branch"):
            continue
        if not b.dominates(ok_bb, c.bb):
            bad.append(c.name)
    ctx.check(rule, key + "/first", not bad, "%s performs %s before (or without) having validated `%s`" % (b.name, sorted(set(bad))[:5], pname), loc=g.loc())


def r1_gate(ctx, F):
    for layer, adt, gate in (("Vfs", VFS, ("validate_path_component",)), ("PassthroughFs", PFS, ("validate_path_component",))):
        for nm, params in sorted(MUTATORS.items()):
            ms = [x for x in F.find(name=nm, self_adt=adt) if x.trait == common.FS_TRAIT]
            if len(ms) != 1:
                raise core.Anchor("%s::%s" % (layer, nm))
            b = ms[0]
            ctx.fn_seen(b)
            for p in params:
                gate_first_multi(ctx, b, "%s::%s/%s" % (layer, nm, p), p, gate, params)
        # lookup: slash refusal first
        lk = [x for x in F.find(name="lookup", self_adt=adt) if x.trait == common.FS_TRAIT][0]
        ctx.fn_seen(lk)
        v = vf.VF(lk, inline_depth=0)
        others = [c for c in live_calls(lk) if c.name in ("do_lookup", "get_real_rootfs", "lookup_pseudo", "lookup")]
        ok = bool(others)
        for c in others:
            g = [(vf.render(cond, lk, short=True), lab) for (cond, lab, u) in v.guards(c.bb)]
            ok = ok and any(t in ("impl [T]::contains(CStr::to_bytes_with_nul(name), 47)", "impl [T]::contains(CStr::to_bytes_with_nul(name), SLASH_ASCII)") and lab == 0 for (t, lab) in g)
        ctx.check("R1-name-gate", "%s::lookup/slash" % layer, ok, "%s::lookup reaches the backend without refusing names that contain '/'" % layer, loc=lk.loc())
    # PassthroughFs::validate_path_component: bypass only for !do_import (requests that already passed the VFS)
    b = F.method(PFS, "validate_path_component")
    v = vf.VF(b, inline_depth=0)
    r = vf.render(v.ret(), b, short=True, vfx=v)
    ctx.check("R1-name-gate", "passthrough-wrapper", r == "phi{!self.cfg.do_import => Ok(()) | self.cfg.do_import => vfs::validate_path_component(name)}",
              "PassthroughFs::validate_path_component may skip validation for more than the under-VFS case: %s" % r[:300], loc=b.loc(), detail=r[:200])
    # the predicate: '/' anywhere in the complete name, and "." / ".."
    b = F.fn("api::vfs::is_safe_path_component")
    ctx.fn_seen(b)
    v = vf.VF(b, inline_depth=0)
    cs = [c for c in live_calls(b) if c.name == "contains"]
    ok = len(cs) == 1
    if ok:
        a = [vf.render(x, b, short=True) for x in v.call_args(cs[0])]
        ok = a[0] == "CStr::to_bytes_with_nul(name)" and a[1] in ("47", "SLASH_ASCII")
    ctx.check("R1-name-gate", "predicate/whole-name", ok,
              "is_safe_path_component does not search the complete name for '/' (it searches `%s`)" % (vf.render(v.call_args(cs[0])[0], b, short=True)[:120] if cs else "?"), loc=b.loc())
    r = vf.render(v.ret(), b, short=True, vfx=v)
    ctx.check("R1-name-gate", "predicate/dots", "is_dot_or_dotdot(name)" in r, "is_safe_path_component no longer rejects '.' and '..'", loc=b.loc())
    C = "impl [T]::contains(CStr::to_bytes_with_nul(name), 47)"
    ctx.check("R1-name-gate", "predicate/polarity", vf.same_text(r.replace("SLASH_ASCII", "47"), "phi{!%s => Not(vfs::is_dot_or_dotdot(name)) | %s => 0}" % (C, C)),
              "is_safe_path_component must be `no '/' in the name and not '.'/'..'`: %s" % r[:300], loc=b.loc())
    d = F.fn("api::vfs::is_dot_or_dotdot")
    ctx.fn_seen(d)
    dv = vf.VF(d, inline_depth=0)
    dr = vf.render(dv.ret(), d, short=True, vfx=dv)
    S1 = "impl [T]::starts_with(CStr::to_bytes_with_nul(name), k(api::vfs::CURRENT_DIR_CSTR))"
    S2 = "impl [T]::starts_with(CStr::to_bytes_with_nul(name), k(api::vfs::PARENT_DIR_CSTR))"
    ok = dr in ("phi{!%s => %s | %s => 1}" % (S1, S2, S1), "phi{!%s => %s | %s => 1}" % (S2, S1, S2), "BitOr(%s, %s)" % (S1, S2), "BitOr(%s, %s)" % (S2, S1))
    cur = (F.consts.get("api::vfs::CURRENT_DIR_CSTR") or {}).get("bytes")
    par = (F.consts.get("api::vfs::PARENT_DIR_CSTR") or {}).get("bytes")
    ctx.check("R1-name-gate", "predicate/dot-names", ok and cur == [46, 0] and par == [46, 46, 0],
              "is_dot_or_dotdot must compare the NUL-terminated name with \".\\0\" and \"..\\0\" (got %s; constants %s / %s)" % (dr[:200], cur, par), loc=d.loc())
    b = F.fn("api::vfs::validate_path_component")
    v = vf.VF(b, inline_depth=0)
    r = vf.render(v.ret(), b, short=True, vfx=v)
    ctx.check("R1-name-gate", "validate/einval", r == "phi{!vfs::is_safe_path_component(name) => Err(Error::from_raw_os_error(EINVAL)) | vfs::is_safe_path_component(name) => Ok(())}",
              "validate_path_component must refuse exactly the unsafe names: %s" % r[:200], loc=b.loc())
    ctx.floor("R1-name-gate", 50)


def r1_gate_async(ctx, A):
    """The async entry points of the VFS that take a name (async-io build): same gates, before anything else."""
    from rules import c20
    rule = "R1-name-gate-async"
    for nm, kind in (("async_create", "validate"), ("async_lookup", "slash")):
        ms = [x for x in A.find(name=nm, self_adt=VFS) if x.trait == common.AFS_TRAIT]
        if len(ms) != 1:
            raise core.Anchor("Vfs::%s" % nm)
        fn = ms[0]
        ctx.fn_seen(fn)
        body, v = c20.async_frame(A, fn)
        calls = [c for c in live_calls(body) if c.name not in ("branch", "from_residual", "poll", "into_future", "new_unchecked", "get_context")]
        if kind == "validate":
            gs = [c for c in calls if c.name == "validate_path_component" and vf.render(v.call_args(c)[0], fn, short=True, vfx={body.key: v}) == "name"]
            if not ctx.check(rule, "Vfs::%s/validated" % nm, len(gs) == 1, "Vfs::%s does not validate its `name` argument" % nm, loc=fn.loc()):
                continue
            g = gs[0]
            tb = body.call_at(g.target) if g.target is not None else None
            ok_bb = None
            if tb is not None and tb.name == "branch" and tb.target is not None and body.term(tb.target)[0] == "switch":
                ok_bb = [t for (lab, t) in body.switch_edges(tb.target) if lab == 0][0]
            bad = sorted(set(c.name for c in calls if c is not g and (ok_bb is None or not body.dominates(ok_bb, c.bb))))
            ctx.check(rule, "Vfs::%s/first" % nm, ok_bb is not None and not bad,
                      "Vfs::%s performs %s before (or without) having validated `name`: a multi-component name reaches a backend that relies on the VFS's validation" % (nm, bad[:5]), loc=g.loc())
        else:
            others = [c for c in calls if c.name in ("get_real_rootfs", "lookup_pseudo", "async_lookup", "lookup")]
            ok = bool(others)
            for c in others:
                g = [(vf.render(cond, fn, short=True, vfx={body.key: v}), lab) for (cond, lab, u) in v.guards(c.bb)]
                ok = ok and any(t in ("impl [T]::contains(CStr::to_bytes_with_nul(name), 47)", "impl [T]::contains(CStr::to_bytes_with_nul(name), SLASH_ASCII)") and lab == 0 for (t, lab) in g)
            ctx.check(rule, "Vfs::%s/slash" % nm, ok, "Vfs::%s reaches the backend without refusing names that contain '/'" % nm, loc=fn.loc())


def gate_first_multi(ctx, b, key, pname, gate_names, all_params):
    """Like gate_first, but the other names' validations may precede this one."""
    v = vf.VF(b, inline_depth=0)
    pidx = b.param_index(pname)
    gs = [c for c in live_calls(b) if c.name in gate_names and any(a == ("P", pidx) for a in v.call_args(c))]
    if not ctx.check("R1-name-gate", key + "/validated", len(gs) == 1, "%s does not validate its `%s` argument" % (b.name, pname), loc=b.loc()):
        return
    g = gs[0]
    tb = b.call_at(g.target) if g.target is not None else None
    ok_bb = None
    if tb is not None and tb.name == "branch" and tb.target is not None and b.term(tb.target)[0] == "switch":
        ok_bb = [t for (lab, t) in b.switch_edges(tb.target) if lab == 0][0]
    if not ctx.check("R1-name-gate", key + "/propagated", ok_bb is not None, "%s ignores the result of validating `%s`" % (b.name, pname), loc=g.loc()):
        return
    bad = []
    for c in live_calls(b):
        if c is g or c is tb or c.name in gate_names or c.name in ("from_residual", "branch"):
            continue
        if not b.dominates(ok_bb, c.bb):
            bad.append(c.name)
    ctx.check("R1-name-gate", key + "/first", not bad, "%s performs %s before (or without) having validated `%s`" % (b.name, sorted(set(bad))[:5], pname), loc=g.loc())


def r2_flags(ctx, F):
    b = F.method(PFS, "open_file_restricted")
    ctx.fn_seen(b)
    v = vf.VF(b, inline_depth=0)
    oa = [c for c in live_calls(b) if c.name == "openat"]
    ok = len(oa) == 1
    if ok:
        a = [vf.render(x, b, short=True) for x in v.call_args(oa[0])]
        nf = F.fns  # constants: O_NOFOLLOW|O_CLOEXEC = 0x20000|0x80000 = 655360
        ok = a[0] == "dir" and a[1] == "pathname" and ("655360" in a[2] or ("O_NOFOLLOW" in a[2] and "O_CLOEXEC" in a[2])) and "flags" in a[2] and a[2].startswith("BitOr(")
    ctx.check("R2-open-flags", "open_file_restricted", ok, "open_file_restricted does not open (dir, pathname) with O_NOFOLLOW|O_CLOEXEC|flags", loc=b.loc())
    b = F.method(PFS, "open_file_and_handle")
    ctx.fn_seen(b)
    v = vf.VF(b, inline_depth=0)
    oc = [c for c in live_calls(b) if c.name == "open_file_restricted"]
    ok = len(oc) == 1
    if ok:
        a = [vf.render(x, b, short=True) for x in v.call_args(oc[0])]
        ok = a[1] == "dir" and a[2] == "name" and a[3] == "O_PATH"
    ctx.check("R2-open-flags", "lookup-open", ok, "open_file_and_handle does not open (dir, name) with O_PATH through open_file_restricted", loc=b.loc())
    # do_lookup opens the name relative to the parent's descriptor through open_file_and_handle only
    b = F.method(PFS, "do_lookup")
    v = vf.VF(b, inline_depth=0)
    oc = [c for c in live_calls(b) if c.name == "open_file_and_handle"]
    others = [c for c in live_calls(b) if c.name in ("openat", "open_file", "open_file_restricted", "open")]
    ok = len(oc) == 1 and not others
    if ok:
        a = [vf.render(x, b, short=True, vfx=v) for x in v.call_args(oc[0])]
        ok = "InodeData::get_file(InodeMap::get(self.inode_map, parent)?)?" in a[1]
    ctx.check("R2-open-flags", "do_lookup-open", ok, "do_lookup does not resolve the name relative to the parent's descriptor through open_file_and_handle", loc=b.loc())
    # O_NOFOLLOW is cleared only in reopen_fd_through_proc
    clearing = set()
    for k, x in F.fns.items():
        if not k.startswith("passthrough::") or "async_io" in k:
            continue
        xv = None
        for c in live_calls(x):
            if c.name in ("openat", "open_file_restricted", "open_file") and c.local:
                xv = xv or vf.VF(x, inline_depth=0)
                for a in xv.call_args(c):
                    t = vf.render(a, x, short=True)
                    if "Not(O_NOFOLLOW)" in t or "Not(131072)" in t or "-131073" in t:
                        clearing.add(x.name)
    ctx.check("R2-open-flags", "nofollow-cleared-only-in-proc-reopen", clearing == {"reopen_fd_through_proc"}, "O_NOFOLLOW is cleared in %s; only the /proc/self/fd reopen may" % sorted(clearing))


def must_bits(e):
    """Bits certainly set in an i32 flag expression (lower bound)."""
    if e[0] == "K" and isinstance(e[1], int):
        return e[1] & 0xFFFFFFFF
    if e[0] == "B" and e[1] == "BitOr":
        return must_bits(e[2]) | must_bits(e[3])
    if e[0] == "B" and e[1] == "BitAnd":
        return must_bits(e[2]) & must_bits(e[3])
    if e[0] == "U" and e[1] == "Not":
        return ~may_bits(e[2]) & 0xFFFFFFFF
    if e[0] == "CAST":
        return must_bits(e[1]) if len(e) > 1 and isinstance(e[1], tuple) else 0
    return 0


def may_bits(e):
    if e[0] == "K" and isinstance(e[1], int):
        return e[1] & 0xFFFFFFFF
    if e[0] == "B" and e[1] == "BitOr":
        return may_bits(e[2]) | may_bits(e[3])
    if e[0] == "B" and e[1] == "BitAnd":
        return may_bits(e[2]) & may_bits(e[3])
    if e[0] == "U" and e[1] == "Not":
        return ~must_bits(e[2]) & 0xFFFFFFFF
    return 0xFFFFFFFF


O_CREAT, O_EXCL, O_NOFOLLOW, O_PATH = 0o100, 0o200, 0o400000, 0o10000000


def r2b_symlink_safe(ctx, F):
    """Every open of a (directory, name) pair either cannot follow a final symlink (O_NOFOLLOW, or O_CREAT|O_EXCL) or is the
    /proc/self/fd reopen of an already-vetted descriptor."""
    n = 0
    for k, b in sorted(F.fns.items()):
        if not k.startswith("passthrough::") or "async_io" in k:
            continue
        v = None
        for c in live_calls(b):
            tgt = c.res or c.fn or ""
            if tgt not in ("passthrough::util::openat", PFS_OPEN_FILE(F)):
                continue
            if b.key in ("passthrough::util::openat",):
                continue
            v = v or vf.VF(b, inline_depth=0)
            args = v.call_args(c)
            fl = args[2] if tgt.endswith("util::openat") else args[2]
            owner = b.name if b.kind != "closure" else F.fns[b.owner].name
            n += 0 if (owner == "open_file" and b.key == PFS_OPEN_FILE(F)) else 1     # the forwarder is not a site of its own
            if owner == "reopen_fd_through_proc":
                path = vf.render(args[1], b, short=True)
                ctx.check("R2-open-flags", "openat/%s" % owner, "as_raw_fd(fd)" in path and vf.render(args[0], b, short=True) == "proc_self_fd" and not (may_bits(fl) & O_CREAT),
                          "reopen_fd_through_proc must open the decimal descriptor number under proc_self_fd, without O_CREAT", loc=c.loc())
                continue
            if owner == "open_file" and b.key == PFS_OPEN_FILE(F):
                # pure forwarder (dfd, pathname, flags, mode): judged at its callers
                ctx.check("R2-open-flags", "openat/open_file-forwarder", [vf.render(x, b, short=True) for x in args] == ["dfd", "pathname", "flags", "mode"],
                          "PassthroughFs::open_file is no longer a pure forwarder to openat", loc=c.loc())
                continue
            m = must_bits(fl)
            ok = bool(m & O_NOFOLLOW) or (m & (O_CREAT | O_EXCL)) == (O_CREAT | O_EXCL)
            ctx.check("R2-open-flags", "openat/%s" % owner, ok,
                      "%s opens a name with flags `%s`: neither O_NOFOLLOW nor O_CREAT|O_EXCL is certainly set, so a symlink planted under the "
                      "export is followed out of it" % (owner, vf.render(fl, b, short=True)[:160]), loc=c.loc(), detail=vf.render(fl, b, short=True)[:120])
    ctx.check("R2-open-flags", "openat/count", n >= 4, "only %d name-opening call sites found" % n)


def PFS_OPEN_FILE(F):
    # the one-line forwarder PassthroughFs::open_file; it may have been merged into its caller
    bs = [b for b in F.find(name="open_file", self_adt=PFS) if b.kind == "assoc"]
    return bs[0].key if len(bs) == 1 else None


def r3_clamp(ctx, F):
    b = F.method(PFS, "do_lookup")
    ctx.fn_seen(b)
    v = vf.VF(b, inline_depth=0)
    nm = vf.def_value(v, b, "name")
    # the rebound `name`: phi over (parent == ROOT && starts_with(name, "..")) -> "." | name
    t = vf.render(nm, b, short=True, vfx=v) if nm is not None else ""
    ok = "Eq(ROOT_ID, parent)" in t.replace("Eq(parent, ROOT_ID)", "Eq(ROOT_ID, parent)") and "starts_with(CStr::to_bytes_with_nul(name), " in t and "PARENT_DIR_CSTR" in t \
        and "CURRENT_DIR_CSTR" in t and t.count("&&") == 1
    ctx.check("R3-root-clamp", "do_lookup", ok,
              "do_lookup: the `..`-at-root rewrite is `%s`; it must replace the name by \".\" exactly when parent == ROOT_ID and the name starts with \"..\" "
              "(no further condition)" % t[:400], loc=b.loc(), detail=t[:200])
    # the rewritten name is the one that is opened
    oc = [c for c in live_calls(b) if c.name == "open_file_and_handle"]
    if oc and nm is not None:
        a = v.call_args(oc[0])[2]
        ctx.check("R3-root-clamp", "do_lookup/uses-clamped", a == nm, "do_lookup opens the unclamped name", loc=oc[0].loc())
    # the Vfs forwards "." / ".." lookups unchanged (so the backend's clamp is the only one)


def has_param(b, d):
    try:
        b.param_index(d)
        return True
    except KeyError:
        return False


def wrapper_callers_ok(F, w, dirfds):
    idx = [w.param_index(d) for d in dirfds]
    n = 0
    for k, x in F.fns.items():
        for c in live_calls(x):
            if c.fn == w.key or (c.res == w.key):
                n += 1
                xv = vf.VF(x, inline_depth=0)
                a = [vf.render(y, x, short=True) for y in xv.call_args(c)]
                for i in idx:
                    if "as_raw_fd(" not in a[i - 1] or "AT_FDCWD" in a[i - 1]:
                        return False
    return n > 0


PATH_CALLS = ("open", "openat", "mkdirat", "mknodat", "symlinkat", "linkat", "unlinkat", "readlinkat", "fchmodat", "fchownat",
              "utimensat", "fstatat64", "setxattr", "getxattr", "listxattr", "removexattr", "lsetxattr", "lgetxattr", "llistxattr", "lremovexattr",
              "open64", "openat64", "truncate", "chdir", "fchdir", "chroot", "rename", "renameat", "unlink", "rmdir", "mkdir", "symlink", "link", "chmod", "chown", "lchown", "stat", "lstat", "stat64", "lstat64")


def r4_paths(ctx, F):
    allowed_abs = {"get": "mount point path from /proc/self/mountinfo (MountFds)", "new": "/proc/self/fd"}
    n = 0
    for k, b in sorted(F.fns.items()):
        if not k.startswith("passthrough::") or "async_io" in k:
            continue
        v = None
        for c in live_calls(b):
            if not (c.fn or "").startswith("libc::"):
                continue
            nm = c.name
            v = v or vf.VF(b, inline_depth=0)
            args = [vf.render(x, b, short=True) for x in v.call_args(c)]
            if nm == "syscall":
                nm = args[0].replace("SYS_", "")
                args = args[1:]
                if nm == "renameat2":
                    nm = "renameat"
            if nm not in PATH_CALLS:
                continue
            n += 1
            owner = b.name if b.kind != "closure" else F.fns[b.owner].name
            key = "%s/%s" % (owner, nm)
            if nm in ("open", "open64", "truncate", "chdir", "chroot", "rename", "unlink", "rmdir", "mkdir", "symlink", "link", "chmod", "chown", "lchown", "stat", "lstat", "stat64", "lstat64"):
                ctx.check("R4-relative-paths", key, owner in allowed_abs, "%s calls %s with a path that is not relative to a descriptor" % (owner, nm), loc=c.loc(), detail=allowed_abs.get(owner, ""))
            elif nm in ("setxattr", "getxattr", "listxattr", "removexattr"):
                ctx.check("R4-relative-paths", key, "/proc/self/fd/" in args[0], "%s calls %s on `%s`, not on a /proc/self/fd/<n> path" % (owner, nm, args[0][:80]), loc=c.loc())
            else:
                dirfds = [args[0]] if nm not in ("symlinkat",) else [args[1]]
                if nm in ("linkat", "renameat"):
                    dirfds = [args[0], args[2]]
                ok = all(("as_raw_fd(" in d) and "AT_FDCWD" not in d and d != "-100" for d in dirfds)
                if not ok and owner == nm and all(has_param(b, d) for d in dirfds):
                    # thin wrapper: its callers must pass a descriptor
                    ok = wrapper_callers_ok(F, b, dirfds)
                ctx.check("R4-relative-paths", key, ok, "%s calls %s relative to `%s`: not an inode/handle/proc descriptor" % (owner, nm, dirfds), loc=c.loc(), detail=str(dirfds)[:120])
    ctx.check("R4-relative-paths", "count", n >= 18, "only %d path-taking system calls found" % n)


META = {
    "technique": "dominance of name validation over all other calls (VFS and passthrough), value-flow of open flags and of the root clamp condition, who-may-issue path system calls",
    "text": "Decides: in both layers every creating/removing/renaming/linking operation validates each name first and propagates the refusal; lookup "
            "refuses '/' first; the predicate scans the complete name; lookups open O_PATH|O_NOFOLLOW|O_CLOEXEC relative to the parent's descriptor; "
            "O_NOFOLLOW is cleared only in the /proc reopen helper; the root clamp has exactly its two conditions and its result is what is opened; "
            "path-taking system calls are descriptor-relative except the two by-design absolute opens.",
    "note": "Not decided: races with concurrent renames/symlink swaps in the host kernel; the special-file gate is C05.R3.",
}
META["text"] += " " + 'Also: polarity of the name predicates; the root is exempt from forget in forget_one itself.'
