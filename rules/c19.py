"""C19 — saving and restoring VFS state reproduces the same namespace (symbolic round trip).

R1 options round trip      restore(save(o)).f == o.f for every field f of VfsOptions (symbolic composition of the two struct literals)
R2 state round trip        every VfsState field is saved from the live field that restore writes it back to; the per-mount mapping
                           closures compose to the identity; `initialized` is derived from the restored options
R3 constructor-dependent   every Vfs field whose initial value depends on the constructor's options is rewritten by restore_from_bytes
                           (otherwise a VFS restored into `Vfs::new(default)` keeps the wrong value)
R4 pseudo fs round trip    next_inode is restored verbatim; inode (ino, parent, name) triples round-trip; the root is not duplicated;
                           children are re-attached in inode-number order (creation order)
R5 versions                version map's highest type version == the derive's version() for every state type; a field added in
                           version n has a default that equals what a fresh Vfs starts with
R6 restore_mount           re-attaches at the recorded index, under the mount lock, without touching the index allocator
R7 field inventory         every field of Vfs / PseudoFs is classified (saved, rebuilt, derived, ephemeral, construction-time config)
R4 (cont.) PseudoFs stores every modified copy of its inode table back; each rebuilt inode is registered; the version map names the state type
R6 (cont.) restore_mount leaves the restored per-mount mapping alone
"""
import json
import re

from pyfbr import core, vf
from rules import common
from rules import c07

VFS = c07.VFS
VFSOPT = "api::vfs::VfsOptions"
PSEUDO = "api::pseudo_fs::PseudoFs"
PP = "api::vfs::persist::"
PSP = "api::pseudo_fs::persist::"


def live_calls(b):
    r = b.reachable()
    return [c for c in b.calls() if c.bb in r and not b.is_cleanup(c.bb)]


def R(e, b, v=None):
    return vf.render(e, b, short=True, vfx=v)


def run(ctx):
    ctx.explanation = (
        "Symbolic round trip over the save and restore code (persist feature): the struct literal built by each save function and the "
        "stores performed by each restore function are reduced by value-flow to expressions over the live object / the state, composed "
        "field by field, normalised (from_bits(bits(x)) = x, (t.0,t.1,t.2) = t, closure composition) and required to be the identity; "
        "plus who-writes rules for constructor-dependent fields, version-map agreement with the derive's versions, default-value "
        "agreement between a missing (older-version) field and a fresh Vfs, and an inventory of every field of the live structs.")
    F = ctx.facts("S")
    if F is None:
        return
    vf.NOUPD[0] = True
    vf.NOCAST[0] = True
    try:
        ctx.run_rule("R1-options-roundtrip", r1_options, F)
        ctx.run_rule("R2-state-roundtrip", r2_state, F)
        ctx.run_rule("R3-ctor-dependent", r3_ctor, F)
        ctx.run_rule("R4-pseudo-roundtrip", r4_pseudo, F)
        ctx.run_rule("R5-versions", r5_versions, F)
        ctx.run_rule("R6-restore-mount", r6_restore_mount, F)
        ctx.run_rule("R7-field-inventory", r7_inventory, F)
    finally:
        vf.NOUPD[0] = False
        vf.NOCAST[0] = False
    ctx.assumptions += ["the versionize crate serialises and deserialises each field faithfully and selects struct versions as its derive generates",
                        "backends re-attached with restore_mount are equivalent to the ones that were mounted (outside the VFS)"]


# ------------------------------------------------------------------------------------------- helpers
def find_agg(e, suffix):
    for x in vf.walk(e):
        if x[0] == "A" and x[1].endswith(suffix):
            return x
    return None


def normalise(e):
    """from_bits(bits(x)).ok_or(_)? -> x ; (t.0, t.1, t.2) -> t ; Option::map(Option::map(m, f), g) handled by caller."""
    def f(x):
        # payload of `from_bits(bits(E)).ok_or(..)?`
        if x[0] == "F" and x[2] == "0" and x[1][0] == "V" and x[1][2] == "Ok":
            c = x[1][1]
            if c[0] == "C" and c[1].endswith("Option::<T>::ok_or") and c[3] and c[3][0][0] == "C" and c[3][0][1].endswith("FsOptions>::from_bits"):
                inner = c[3][0][3][0]
                if inner[0] == "C" and inner[1].endswith("FsOptions>::bits"):
                    return inner[3][0]
        if x[0] == "T" and len(x[1]) >= 2:
            bases = set()
            ok = True
            for i, el in enumerate(x[1]):
                if el[0] == "F" and el[2] == str(i):
                    bases.add(el[1])
                else:
                    ok = False
            if ok and len(bases) == 1:
                return next(iter(bases))
        return x
    return vf.map_expr(e, f)


def unclone(x):
    if x[0] == "C" and x[1].endswith("::clone") and len(x[3]) == 1:
        return x[3][0]
    return x


def subst_fields(e, base, mapping):
    """Replace F(base, name) by mapping[name]."""
    def f(x):
        if x[0] == "F" and x[1] == base and x[2] in mapping:
            return mapping[x[2]]
        return x
    return vf.map_expr(e, f)


# ------------------------------------------------------------------------------------------- R1
def r1_options(ctx, F):
    rule = "R1-options-roundtrip"
    sb = F.fns.get(PP + "<api::vfs::VfsOptions>::save")
    rb = F.fns.get(PP + "<api::vfs::VfsOptions>::restore")
    if sb is None or rb is None:
        raise core.Anchor("VfsOptions::save / VfsOptions::restore")
    ctx.fn_seen(sb)
    ctx.fn_seen(rb)
    sv = vf.VF(sb, inline_depth=0)
    rv = vf.VF(rb, inline_depth=0)
    sa = find_agg(sv.ret(), "VfsOptionsState")
    ra = find_agg(rv.ret(), "VfsOptions")
    if sa is None or ra is None:
        raise core.Anchor("struct literals in VfsOptions::save / restore")
    saved = dict(sa[3])
    restored = dict(ra[3])
    st = F.structs.get(VFSOPT)
    if st is None:
        raise core.Anchor("struct VfsOptions")
    live = ("P", 1)
    for fld in st["fields"]:
        n = fld["name"]
        if not ctx.check(rule, "restored/" + n, n in restored, "VfsOptions::restore does not set `%s` from the state" % n, loc=rb.loc()):
            continue
        comp = normalise(subst_fields(restored[n], ("P", 1), saved))
        want = ("F", live, n)
        ctx.check(rule, "identity/" + n, comp == want,
                  "VfsOptions.%s does not survive save+restore: restore(save(o)).%s = `%s`" % (n, n, R(comp, sb)[:200]), loc=rb.loc(), detail=R(comp, sb)[:120])
    # every state field is consumed by restore (nothing saved and then dropped)
    used = set()
    for (n, x) in ra[3]:
        for y in vf.walk(x):
            if y[0] == "F" and y[1] == ("P", 1):
                used.add(y[2])
    for n in saved:
        ctx.check(rule, "consumed/" + n, n in used, "VfsOptionsState.%s is saved but never restored" % n, loc=rb.loc())
    ctx.floor(rule, 18)


# ------------------------------------------------------------------------------------------- R2
def closure_of(F, e):
    for x in vf.walk(e):
        if x[0] == "CL":
            return F.fns.get(x[1])
    return None


def r2_state(ctx, F):
    rule = "R2-state-roundtrip"
    sb = F.fns.get(PP + "<api::vfs::Vfs>::save_to_bytes")
    rb = F.fns.get(PP + "<api::vfs::Vfs>::restore_from_bytes")
    if sb is None or rb is None:
        raise core.Anchor("Vfs::save_to_bytes / restore_from_bytes")
    ctx.fn_seen(sb)
    ctx.fn_seen(rb)
    sv = vf.VF(sb, inline_depth=0)
    rv = vf.VF(rb, inline_depth=0)
    sc = [c for c in live_calls(sb) if c.name == "save" and "Snapshot" in (c.fn or "")]
    if len(sc) != 1:
        raise core.Anchor("Snapshot::save in Vfs::save_to_bytes")
    sa = find_agg(sv.call_args(sc[0])[2], "VfsState")
    if sa is None:
        raise core.Anchor("VfsState literal in Vfs::save_to_bytes")
    saved = {n: R(x, sb, sv) for (n, x) in sa[3]}
    want_saved = {
        "options": "VfsOptions::save(ArcSwapAny::load(self.opts))",
        "root": "PseudoFs::save_to_bytes(self.root)?",
        "next_super": "Atomic::load(self.next_super, SeqCst)",
        "mount_id_mappings": "Iterator::collect(Iterator::map(impl [T]::iter(ArcSwapAny::load(self.mount_id_mappings)), closure({closure#1})))",
    }
    st = F.structs.get(PP + "VfsState")
    if st is None:
        raise core.Anchor("struct VfsState")
    for fld in st["fields"]:
        n = fld["name"]
        ctx.check(rule, "saved/" + n, n in want_saved and saved.get(n) == want_saved[n],
                  "VfsState.%s is saved as `%s`; reviewed source `%s`" % (n, saved.get(n, "?")[:200], want_saved.get(n, "(new field: not reviewed)")), loc=sb.loc(), detail=saved.get(n, "")[:120])
    # the snapshot is written at the latest version of the map it was built with
    a = [R(x, sb, sv) for x in sv.call_args(sc[0])]
    ctx.check(rule, "save-version", a[0] == "Snapshot::new(Vfs::get_version_map(), VersionMap::latest_version(Vfs::get_version_map()))",
              "Vfs::save_to_bytes does not write at the latest version of Vfs::get_version_map()", loc=sc[0].loc())

    # restore: stores
    state = "Snapshot::load(Vec::as_slice(buf), Vec::len(buf), Vfs::get_version_map())?.0"
    stores = {}
    for c in live_calls(rb):
        if c.name == "store":
            a = [R(x, rb, rv) for x in rv.call_args(c)]
            stores.setdefault(a[0], []).append((c, a))
    want = {
        "self.opts": "Arc::new(VfsOptions::restore(%s.options)?)" % state,
        "self.next_super": "%s.next_super" % state,
        "self.mount_id_mappings": "Arc::new(Iterator::collect(Iterator::map(impl [T]::iter(%s.mount_id_mappings), closure({closure#1}))))" % state,
        "self.initialized": "Not(FsOptions::is_empty(VfsOptions::restore(%s.options)?.in_opts))" % state,
    }
    for tgt, w in sorted(want.items()):
        got = stores.get(tgt, [])
        ok = len(got) == 1 and got[0][1][1] == w
        if tgt == "self.mount_id_mappings" and len(got) == 1 and not ok:
            # the same table built by a push loop: every slot of the state's table is pushed (checked by the slot transform below)
            rvl = vf.VF(rb, inline_depth=0, opaque_loops=True)
            t = R(rvl.call_args(got[0][0])[1], rb, rvl)
            pushes = [c for c in live_calls(rb) if c.name == "push" and R(rvl.call_args(c)[0], rb, rvl) in t]
            ok = t.startswith("Arc::new(loop(") and len(pushes) == 1 and not [g for g in rvl.guards(pushes[0].bb) if "Iter::next" not in R(g[0], rb, rvl) and "discr(Result::branch(" not in R(g[0], rb, rvl)]
        ctx.check(rule, "restore/" + tgt, ok, "Vfs::restore_from_bytes stores `%s` into %s; required `%s`" % (got[0][1][1][:200] if got else "nothing", tgt, w),
                  loc=got[0][0].loc() if got else rb.loc())
    extra = sorted(set(stores) - set(want))
    ctx.check(rule, "restore/no-other-stores", not extra, "Vfs::restore_from_bytes also stores into %s (not reviewed)" % extra, loc=rb.loc())
    rr = [c for c in live_calls(rb) if c.name == "restore_from_bytes"]
    ok = len(rr) == 1 and [R(x, rb, rv) for x in rv.call_args(rr[0])] == ["self.root", "%s.root" % state]
    ctx.check(rule, "restore/root", ok, "Vfs::restore_from_bytes does not hand the saved root bytes to the pseudo filesystem", loc=rb.loc())
    # errors of every step are propagated
    rt = R(rv.ret(), rb, rv)
    for what in ("Snapshot::load(", "VfsOptions::restore(", "PseudoFs::restore_from_bytes("):
        ctx.check(rule, "restore/propagates/" + what.rstrip("("), ("residual(Result::map_err(%s" % what in rt) or ("residual(%s" % what in rt),
                  "Vfs::restore_from_bytes ignores a failure of %s)" % what, loc=rb.loc())

    # per-mount mappings: the per-slot transforms must compose to the identity on Option<(u32,u32,u32)>
    def slot_transform(b, source_suffix):
        """(text of the per-slot expression with the slot written `m`, inner closure body, location) for either spelling:
        `SRC.iter().map(|m| E).collect()`  or  `for m in SRC.iter() { out.push(E) }`."""
        bv = vf.VF(b, inline_depth=0, opaque_loops=True)
        for c in live_calls(b):
            if c.name == "map" and (c.fn or "").endswith("Iterator::map"):
                a = bv.call_args(c)
                if R(a[0], b, bv).startswith("impl [T]::iter(") and R(a[0], b, bv).endswith(source_suffix + ")"):
                    cl = closure_of(F, a[1])
                    if cl is not None:
                        ov = vf.VF(cl, inline_depth=0)
                        return R(ov.ret(), cl), closure_of(F, ov.ret()), cl
            if c.name == "push":
                a = bv.call_args(c)
                t = R(a[1], b, bv)
                its = [x for x in live_calls(b) if x.name == "iter" and R(bv.call_args(x)[0], b, bv).endswith(source_suffix)]
                if "some(Iter::next(loop(iter)))" in t and its:
                    return t.replace("some(Iter::next(loop(iter)))", "m"), closure_of(F, a[1]), b
        return None, None, b
    st_, si, sloc = slot_transform(sb, "self.mount_id_mappings)")
    rt_, ri, rloc = slot_transform(rb, ".0.mount_id_mappings")
    if ctx.check(rule, "mapping-closure/shape", st_ is not None and rt_ is not None,
                 "per-mount id mappings are no longer converted slot by slot (neither `.iter().map(..).collect()` nor a push loop) on both sides", loc=sb.loc()):
        for (t, side, loc) in ((st_, "save", sloc), (rt_, "restore", rloc)):
            ctx.check(rule, "mapping-closure/%s-outer" % side, re.fullmatch(r"Option::map\(m, closure\(\{closure#\d+\}\)\)", t) is not None,
                      "per-mount id mappings: the %s side transforms each slot with `%s`; only `m.map(..)` keeps None/Some as saved" % (side, t[:200]), loc=loc.loc(), detail=t[:120])
        okc = si is not None and ri is not None
        siv = vf.VF(si, inline_depth=0) if okc else None
        riv = vf.VF(ri, inline_depth=0) if okc else None
        sagg = find_agg(siv.ret(), "IdMappingState") if okc else None
        okc = sagg is not None
        if okc:
            fields = dict(sagg[3])
            comp = normalise(subst_fields(riv.ret(), ("P", 2), fields))
            okc = comp == ("P", 2)
        ctx.check(rule, "mapping-closure/identity", okc,
                  "per-mount id mappings: restore(save((i, e, r))) is not (i, e, r): save builds `%s`, restore builds `%s`" %
                  (R(siv.ret(), si)[:160] if siv else "?", R(riv.ret(), ri)[:160] if riv else "?"), loc=(ri or rb).loc())
    ctx.floor(rule, 15)


# ------------------------------------------------------------------------------------------- R3
def r3_ctor(ctx, F):
    rule = "R3-ctor-dependent"
    nb = F.method(VFS, "new")
    ctx.fn_seen(nb)
    nv = vf.VF(nb, inline_depth=0)
    agg = find_agg(nv.ret(), "api::vfs::Vfs")
    if agg is None:
        raise core.Anchor("Vfs literal in Vfs::new")
    dep = []
    for (n, x) in agg[3]:
        if any(y == ("P", 1) for y in vf.walk(x)):
            dep.append(n)
    rb = F.fns.get(PP + "<api::vfs::Vfs>::restore_from_bytes")
    rv = vf.VF(rb, inline_depth=0)
    written = set()
    for c in live_calls(rb):
        if c.name == "store":
            t = R(rv.call_args(c)[0], rb, rv)
            if t.startswith("self."):
                written.add(t[5:])
    ctx.check(rule, "some", "opts" in dep, "Vfs::new no longer keeps its options argument (fields depending on it: %s)" % dep, loc=nb.loc())
    st = F.structs.get(VFS)
    for n in dep:
        readers = field_readers(F, VFS, n) - {"new"}
        ctx.check(rule, "restored/" + n, n in written,
                  "Vfs.%s is computed from the constructor's options (`%s`) but Vfs::restore_from_bytes never rewrites it: a state restored into "
                  "Vfs::new(VfsOptions::default()) keeps the fresh value although the restored options say otherwise (read by %s)"
                  % (n, R(dict(agg[3])[n], nb, nv)[:120], sorted(readers)), loc=nb.loc())


def field_readers(F, adt, field):
    """Names of the functions whose MIR reads field `field` of a value of type adt reached through self."""
    st = F.structs.get(adt)
    idx = [i for i, f in enumerate(st["fields"]) if f["name"] == field]
    out = set()
    if not idx:
        return out
    for k, b in F.fns.items():
        if b.exp or not k.startswith("api::vfs::") or "::tests::" in k or "::test::" in k:
            continue
        if b.self_adt != adt and not (b.kind == "closure" and F.fns.get(b.owner) is not None and F.fns[b.owner].self_adt == adt):
            continue
        txt = json.dumps([blk for blk in b.blocks])
        if '[".", %d, "%s"]' % (idx[0], field) in txt:
            out.add(b.name if b.kind != "closure" else F.fns[b.owner].name)
    return out


# ------------------------------------------------------------------------------------------- R4
def pseudo_publishes(ctx, F, rule):
    n = 0
    for k, b in sorted(F.fns.items()):
        if b.self_adt != "api::pseudo_fs::PseudoFs" or b.kind != "assoc" or "persist" in k:
            continue
        v = vf.VF(b, inline_depth=0)
        mods = [c for c in live_calls(b) if c.name in ("insert", "remove") and "HashMap" in (c.fn or "") and "self.inodes" in R(v.call_args(c)[0], b, v)]
        if not mods:
            continue
        n += 1
        st = [c for c in live_calls(b) if c.name == "store" and "arc_swap" in (c.fn or "") and R(v.call_args(c)[0], b, v) == "self.inodes"]
        lost = False
        for c in mods:
            if c.target is None:
                continue
            region = b.reach_set(c.target, avoid=set(x.bb for x in st))
            if any(r_ in region for r_ in b.return_blocks()):
                lost = True
        ctx.check(rule, "publishes/PseudoFs::%s" % b.name, bool(st) and not lost, "PseudoFs::%s modifies its copy of the inode table and can return without storing it back" % b.name, loc=b.loc())
    ctx.check(rule, "publishes/sites", n >= 2, "only %d PseudoFs functions modifying the inode table found" % n)


def r4_pseudo(ctx, F):
    rule = "R4-pseudo-roundtrip"
    sb = F.fns.get(PSP + "<api::pseudo_fs::PseudoFs>::save_to_bytes")
    rb = F.fns.get(PSP + "<api::pseudo_fs::PseudoFs>::restore_from_state")
    lb = F.fns.get(PSP + "<api::pseudo_fs::PseudoFs>::restore_from_bytes")
    if sb is None or rb is None or lb is None:
        raise core.Anchor("PseudoFs save/restore functions")
    for b in (sb, rb, lb):
        ctx.fn_seen(b)
    sv = vf.VF(sb, inline_depth=0, opaque_loops=True)
    rv = vf.VF(rb, inline_depth=0, opaque_loops=True)
    # save: state literal
    sc = [c for c in live_calls(sb) if c.name == "save" and "Snapshot" in (c.fn or "")]
    if len(sc) != 1:
        raise core.Anchor("Snapshot::save in PseudoFs::save_to_bytes")
    sa = find_agg(sv.call_args(sc[0])[2], "PseudoFsState")
    if sa is None:
        raise core.Anchor("PseudoFsState literal")
    f = {n: R(x, sb, sv) for (n, x) in sa[3]}
    ctx.check(rule, "save/next_inode", f.get("next_inode") == "Atomic::load(self.next_inode, Relaxed)", "PseudoFsState.next_inode is saved as `%s`" % f.get("next_inode"), loc=sb.loc())
    # pushes: one, of {ino, parent, name} of the walked inode, skipped exactly for the root
    ps = [c for c in live_calls(sb) if c.name == "push"]
    ok = len(ps) == 1
    if ok:
        pa = find_agg(sv.call_args(ps[0])[1], "PseudoInodeState")
        ok = pa is not None
        if ok:
            src = None
            fields = {}
            for (n, x) in pa[3]:
                fields[n] = x
            base = None
            good = True
            for n in ("ino", "parent"):
                x = fields.get(n)
                if not (x and x[0] == "F" and x[2] == n):
                    good = False
                else:
                    base = base or x[1]
                    good = good and x[1] == base
            x = fields.get("name")
            good = good and x is not None and unclone(x) == ("F", base, "name")
            ok = good
            g = [(R(y, sb, sv), l) for (y, l, u) in sv.guards(ps[0].bb)]
            root_skip = [t for (t, l) in g if t == vf.fact("Ne(ROOT_ID, %s.ino)" % R(base, sb, sv)) and l != 0] if base else []
            ctx.check(rule, "save/skips-root-only", len(root_skip) == 1 and len([t for (t, l) in g if t.startswith(("Eq(", "Ne("))]) == 1,
                      "PseudoFs::save_to_bytes must save every inode except the root (guards on the push: %s)" % [t for (t, l) in g if "Eq" in t or "Ne" in t], loc=ps[0].loc())
    chain = False
    if not ps:
        # iterator-chain spelling: self.inodes.load().values().filter(|i| i.ino != ROOT_ID).map(|i| PseudoInodeState{..}).collect()
        inod = f.get("inodes", "")
        m_ = re.fullmatch(r"Iterator::collect\(Iterator::map\(Iterator::filter\(HashMap::values\(ArcSwapAny::load\(self\.inodes\)\), closure\((\{closure#\d+\})\)\), closure\((\{closure#\d+\})\)\)\)", inod)
        if m_:
            cls_ = {c_.key.rsplit("::", 1)[-1]: c_ for c_ in F.closures_of(sb.key)}
            fc, mc = cls_.get(m_.group(1)), cls_.get(m_.group(2))
            if fc is not None and mc is not None:
                ft = R(vf.VF(fc, inline_depth=0).ret(), fc)
                mt = R(vf.VF(mc, inline_depth=0).ret(), mc)
                chain = True
                ok = mt == "PseudoInodeState{ino: inode.ino, parent: inode.parent, name: inode.name}" or \
                    re.fullmatch(r"PseudoInodeState\{ino: (\w+)\.ino, parent: \1\.parent, name: (?:Clone::clone\()?\1\.name\)?\}", mt) is not None
                ctx.check(rule, "save/skips-root-only", ft in ("Ne(ROOT_ID, inode.ino)", "Ne(inode.ino, ROOT_ID)") or re.fullmatch(r"Ne\(ROOT_ID, \w+\.ino\)", ft) is not None,
                          "PseudoFs::save_to_bytes must save every inode except the root (filter: %s)" % ft, loc=sb.loc())
    ctx.check(rule, "save/inode-triple", ok, "PseudoFs::save_to_bytes does not save (ino, parent, name) of each inode", loc=sb.loc())
    ctx.check(rule, "save/inodes-vector", chain or "Vec::new()" in f.get("inodes", "") or "loop(" in f.get("inodes", "") or f.get("inodes", "").startswith("phi"), "PseudoFsState.inodes is not the collected vector: `%s`" % f.get("inodes", "")[:120], loc=sb.loc())

    # restore_from_bytes delegates to restore_from_state with the loaded state
    lv = vf.VF(lb, inline_depth=0)
    rc = [c for c in live_calls(lb) if c.name == "restore_from_state"]
    ok = len(rc) == 1 and R(lv.call_args(rc[0])[1], lb, lv).startswith("Snapshot::load(Vec::as_slice(buf), Vec::len(buf), PseudoFs::get_version_map())")
    ctx.check(rule, "restore/loads", ok, "PseudoFs::restore_from_bytes does not restore from the snapshot it loaded", loc=lb.loc())

    # restore_from_state
    st = [c for c in live_calls(rb) if c.name == "store"]
    tg = {}
    for c in st:
        a = [R(x, rb, rv) for x in rv.call_args(c)]
        tg.setdefault(a[0], []).append((c, a))
    ni = tg.get("self.next_inode", [])
    ctx.check(rule, "restore/next_inode-verbatim", len(ni) == 1 and ni[0][1][1] == "state.next_inode",
              "PseudoFs::restore_from_state sets next_inode to `%s`; the allocator must continue exactly where the saved one stopped (state.next_inode), "
              "otherwise directories created afterwards get different numbers" % (ni[0][1][1][:200] if ni else "nothing"), loc=ni[0][0].loc() if ni else rb.loc())
    im = tg.get("self.inodes", [])
    ctx.check(rule, "restore/inodes-stored", len(im) == 1 and im[0][1][1].startswith("Arc::new("), "PseudoFs::restore_from_state does not publish the rebuilt inode map", loc=rb.loc())
    ctx.check(rule, "restore/no-other-stores", set(tg) <= {"self.next_inode", "self.inodes"}, "PseudoFs::restore_from_state also stores into %s" % sorted(set(tg) - {"self.next_inode", "self.inodes"}), loc=rb.loc())
    nw = [c for c in live_calls(rb) if c.name == "new" and "PseudoInode" in (c.fn or "")]
    ok = len(nw) == 1
    if ok:
        a = rv.call_args(nw[0])
        base = a[0][1] if a[0][0] == "F" else None
        ok = base is not None and a[0] == ("F", base, "ino") and a[1] == ("F", base, "parent") and unclone(a[2]) == ("F", base, "name")
    ctx.check(rule, "restore/inode-triple", ok, "PseudoFs::restore_from_state does not rebuild each inode from its saved (ino, parent, name)", loc=rb.loc())
    # PseudoInode::new keeps its arguments
    pn = F.method("api::pseudo_fs::PseudoInode", "new")
    pv = vf.VF(pn, inline_depth=0)
    pa = find_agg(pv.ret(), "PseudoInode")
    ok = pa is not None and {n: R(x, pn) for (n, x) in pa[3] if n != "children"} == {"ino": "ino", "parent": "parent", "name": "name"}
    ctx.check(rule, "inode-ctor", ok, "PseudoInode::new no longer stores (ino, parent, name) as given", loc=pn.loc())
    # children re-attached in inode-number order: sort_by(ino) before the connecting loop
    so = [c for c in live_calls(rb) if c.name in ("sort_by", "sort_by_key", "sort_unstable_by", "sort_unstable_by_key", "sort")]
    ic = [c for c in live_calls(rb) if c.name == "insert_child"]
    ok = len(so) == 1 and len(ic) == 1 and rb.dominates(so[0].bb, ic[0].bb)
    if ok:
        cl = closure_of(F, rv.call_args(so[0])[1])
        t = R(vf.VF(cl, inline_depth=0).ret(), cl) if cl is not None else ""
        ok = t in ("Ord::cmp(a.ino, b.ino)", "Ord for u64::cmp(a.ino, b.ino)", "a.ino") or ("cmp(a.ino, b.ino)" in t)
    ctx.check(rule, "restore/children-in-ino-order", ok,
              "PseudoFs::restore_from_state must attach children in ascending inode-number (= creation) order: readdir offsets index that order and parents precede children", loc=rb.loc())
    # the root is the live root (not a duplicate built from state)
    ins = [c for c in live_calls(rb) if c.name == "insert" and "HashMap" in (c.fn or "")]
    root_ins = [c for c in ins if "self.root_inode" in R(rv.call_args(c)[2], rb, rv)]
    ctx.check(rule, "restore/root-reused", len(root_ins) == 1 and R(rv.call_args(root_ins[0])[1], rb, rv) == "self.root_inode.ino",
              "PseudoFs::restore_from_state must register the existing root inode under its own number", loc=rb.loc())
    # the pseudo fs changes its inode table by clone - modify - store: a modification that is not stored back is lost for the live
    # instance only in part (children lists are shared) and resurfaces in the next snapshot
    pseudo_publishes(ctx, F, rule)
    # every rebuilt inode is registered under its own number, unconditionally inside the rebuilding loop
    reg = [c for c in ins if c not in root_ins]
    ok = len(reg) == 1 and len(nw) == 1 and rb.dominates(nw[0].bb, reg[0].bb)
    if ok:
        a = [R(x, rb, rv) for x in rv.call_args(reg[0])]
        g0 = [(R(x, rb, rv), l) for (x, l, u) in rv.guards(nw[0].bb)]
        g1 = [(R(x, rb, rv), l) for (x, l, u) in rv.guards(reg[0].bb)]
        ok = a[1].endswith(".ino") and "PseudoInode::new(" in a[2] and "PseudoInode::new(" in a[1] and not [x for x in g1 if x not in g0 and not x[0].startswith("discr(")]
    ctx.check(rule, "restore/each-inode-registered", ok, "PseudoFs::restore_from_state must enter every rebuilt inode into the map under its own number", loc=rb.loc())
    # the version map the snapshot is written and read with names the state type at version 1
    vm = [b_ for k_, b_ in F.fns.items() if k_.endswith("PseudoFs>::get_version_map")]
    if len(vm) == 1:
        sv = [c for c in live_calls(vm[0]) if c.name == "set_type_version"]
        ok = len(sv) == 1
        if ok:
            vv = vf.VF(vm[0], inline_depth=0)
            a = [R(x, vm[0], vv) for x in vv.call_args(sv[0])]
            ok = "PseudoFsState" in a[1] and a[2] == "1" and "VersionMap::new()" in R(vv.ret(), vm[0], vv)
        ctx.check(rule, "version-map", ok, "PseudoFs::get_version_map must register PseudoFsState at version 1 in the map it returns", loc=vm[0].loc())
    ctx.floor(rule, 11)


# ------------------------------------------------------------------------------------------- R5
def r5_versions(ctx, F):
    rule = "R5-versions"
    # versions per type from the derive
    vers = {}
    for k, b in F.fns.items():
        m = re.match(r"(.*)<(.*) as versionize::Versionize>::version$", k)
        if m:
            t = R(vf.VF(b, inline_depth=0).ret(), b)
            vers[m.group(2)] = int(t) if t.isdigit() else None
    want_types = {PP + "VfsState", PP + "VfsOptionsState", PP + "IdMappingState", PSP + "PseudoFsState", PSP + "PseudoInodeState"}
    ctx.check(rule, "state-types", set(vers) == want_types, "Versionize state types are %s; reviewed set %s" % (sorted(vers), sorted(want_types)))
    for (owner, key) in (("Vfs", PP + "<api::vfs::Vfs>::get_version_map"), ("PseudoFs", PSP + "<api::pseudo_fs::PseudoFs>::get_version_map")):
        b = F.fns.get(key)
        if b is None:
            raise core.Anchor(key)
        ctx.fn_seen(b)
        v = vf.VF(b, inline_depth=0)
        root = 1
        per_type = {}
        seq = []
        for c in sorted(live_calls(b), key=lambda c: c.bb):
            if c.name == "new_version":
                root += 1
            elif c.name == "set_type_version":
                a = [R(x, b, v) for x in v.call_args(c)]
                m = re.match(r"Versionize::type_id<(\w+)>\(\)", a[1])
                ty = m.group(1) if m else a[1]
                per_type.setdefault(ty, []).append((root, int(a[2]) if a[2].isdigit() else None))
        for ty, lst in sorted(per_type.items()):
            full = [k for k in vers if k.endswith("::" + ty)]
            if not ctx.check(rule, "%s-map/%s/known" % (owner, ty), len(full) == 1, "%s::get_version_map names unknown type %s" % (owner, ty), loc=b.loc()):
                continue
            tv = [x for (_, x) in lst]
            ctx.check(rule, "%s-map/%s/latest" % (owner, ty), max(tv) == vers[full[0]],
                      "%s::get_version_map knows %s up to version %s but the type is at version %s (a field with a newer `start` is never written or read)" % (owner, ty, max(tv), vers[full[0]]), loc=b.loc())
            ctx.check(rule, "%s-map/%s/monotonic" % (owner, ty), tv == sorted(tv) and len(set(tv)) == len(tv) and tv[0] == 1 and tv == list(range(1, len(tv) + 1)),
                      "%s::get_version_map: versions of %s are %s; they must start at 1 and grow by one per root version" % (owner, ty, tv), loc=b.loc())
            ctx.check(rule, "%s-map/%s/one-per-root" % (owner, ty), len(set(r for (r, _) in lst)) == len(lst), "%s::get_version_map sets %s twice in one root version" % (owner, ty), loc=b.loc())
        if owner == "Vfs":
            for ty, ver in vers.items():
                short = ty.rsplit("::", 1)[-1]
                if ver and ver > 1:
                    ctx.check(rule, "Vfs-map/%s/registered" % short, short in per_type, "%s is at version %d but Vfs::get_version_map never registers it" % (short, ver), loc=b.loc())
    # every version arm exists in serialize/deserialize of a multi-version type and older arms call the default fn
    for ty, ver in sorted(vers.items()):
        if not ver or ver < 2:
            continue
        db = F.fns.get(ty.rsplit("::", 1)[0] + "::<%s as versionize::Versionize>::deserialize" % ty)
        if db is None:
            raise core.Anchor("deserialize of %s" % ty)
        dv = vf.VF(db, inline_depth=0)
        dflt = [c for c in live_calls(db) if c.name.startswith("default_")]
        arms = set()
        for c in live_calls(db):
            for (g, l, u) in dv.guards(c.bb):
                if "get_type_version" in R(g, db) and isinstance(l, int):
                    arms.add(l)
        ctx.check(rule, "%s/arms" % ty.rsplit("::", 1)[-1], arms == set(range(1, ver + 1)), "%s::deserialize handles versions %s, type is at version %d" % (ty, sorted(arms), ver), loc=db.loc())
        for c in dflt:
            g = [l for (g, l, u) in dv.guards(c.bb) if "get_type_version" in R(g, db)]
            ctx.check(rule, "%s/default-in-old-arm/%s" % (ty.rsplit("::", 1)[-1], c.name), g and all(isinstance(x, int) and x < ver for x in g),
                      "%s: %s is not confined to the older-version arms" % (ty, c.name), loc=c.loc())
    # default of the field added in version 2 == what a fresh Vfs starts with
    db = F.fns.get(PP + "<api::vfs::persist::VfsState>::default_mount_id_mappings")
    nb = F.method(VFS, "new")
    if db is None:
        raise core.Anchor("VfsState::default_mount_id_mappings")
    ctx.fn_seen(db)
    d = R(vf.VF(db, inline_depth=0).ret(), db)
    nv = vf.VF(nb, inline_depth=0)
    agg = find_agg(nv.ret(), "api::vfs::Vfs")
    fresh = R(dict(agg[3])["mount_id_mappings"], nb, nv)
    ctx.check(rule, "v1-default-equals-fresh", fresh == "ArcSwapAny::new(Arc::new(%s))" % d,
              "a version-1 snapshot restores per-mount id mappings as `%s` but a fresh Vfs starts with `%s`: later mount/umount index the table by mount index "
              "and need the full-length table" % (d, fresh), loc=db.loc(), detail=d)
    # writers of the table index it by fs index: it must have MAX_VFS_INDEX slots
    ctx.check(rule, "v1-default-length", "MAX_VFS_INDEX" in d, "default_mount_id_mappings does not produce MAX_VFS_INDEX slots (`%s`)" % d, loc=db.loc())
    ctx.floor(rule, 12)


# ------------------------------------------------------------------------------------------- R6
def r6_restore_mount(ctx, F):
    rule = "R6-restore-mount"
    b = F.method(VFS, "restore_mount")
    ctx.fn_seen(b)
    v = vf.VF(b, inline_depth=0)
    names = [c.name for c in live_calls(b)]
    im = [c for c in live_calls(b) if c.name == "insert_mount_locked"]
    lk = [c for c in live_calls(b) if c.name == "lock"]
    ok = len(im) == 1 and len(lk) == 1 and b.dominates(lk[0].bb, im[0].bb)
    ctx.check(rule, "under-lock", ok, "restore_mount does not insert the mount under the mount lock", loc=b.loc())
    if im:
        a = [R(x, b, v) for x in v.call_args(im[0])]
        ctx.check(rule, "recorded-index", a[3] == "fs_idx" and a[4] == "path" and a[1] == "fs",
                  "restore_mount inserts (fs, index, path) = (%s, %s, %s); required the caller's recorded (fs, fs_idx, path)" % (a[1][:40], a[3][:40], a[4][:40]), loc=im[0].loc())
        ctx.check(rule, "backend-root-entry", a[2].startswith("FileSystem::mount(") or "mount(fs" in a[2] or ".0" in a[2], "restore_mount does not use the backend's own root entry", loc=im[0].loc())
    ctx.check(rule, "no-allocation", "allocate_fs_idx" not in names and not [c for c in live_calls(b) if c.name in ("store", "fetch_add", "compare_exchange") and "next_super" in R(v.call_args(c)[0], b, v)],
              "restore_mount touches the mount-index allocator; indices of later mounts would differ from the un-restored VFS", loc=b.loc())
    # the slot's id mapping came back with restore_from_bytes: re-attaching the backend must not write the mapping table
    from rules import c07
    w_, _v = c07.index_writes(F, b)
    mw_ = [x for x in w_ if x[0] == "mount_id_mappings"]
    ctx.check(rule, "keeps-restored-mapping", not mw_, "restore_mount overwrites mount_id_mappings[%s], the mapping restored from the snapshot" % (mw_[0][1] if mw_ else ""), loc=(mw_[0][3].loc() if mw_ else b.loc()))
    im_b = F.method(VFS, "insert_mount_locked")
    w2_, _v2 = c07.index_writes(F, im_b)
    cl_ = [x for x in w2_ if x[0] == "mount_id_mappings" and x[1] == "fs_idx"]
    ctx.check(rule, "insert-keeps-restored-mapping", not cl_, "insert_mount_locked (used by restore_mount) writes mount_id_mappings[fs_idx], the mapping restored from the snapshot", loc=(cl_[0][3].loc() if cl_ else im_b.loc()))
    g = [c for c in live_calls(b) if c.name == "mount" and c.trait]
    ctx.check(rule, "ino-limit", any("VFS_MAX_INO" in R(x, b, v) for c in live_calls(b) for (x, l, u) in v.guards(c.bb)), "restore_mount no longer rejects backends whose inode numbers do not fit", loc=b.loc())


# ------------------------------------------------------------------------------------------- R7
VFS_FIELDS = {
    "next_super": "saved (VfsState.next_super)",
    "root": "saved (VfsState.root, PseudoFsState)",
    "mountpoints": "rebuilt by restore_mount at the recorded paths",
    "superblocks": "rebuilt by restore_mount at the recorded indices",
    "mount_id_mappings": "saved (VfsState.mount_id_mappings, version 2)",
    "opts": "saved (VfsState.options)",
    "initialized": "derived from the restored options",
    "lock": "ephemeral",
    "remove_pseudo_root": "construction-time configuration of the embedding program (set through &mut before use)",
    "id_mapping": "derived from the constructor's options; NOT rewritten by restore (decided by R3)",
}
PSEUDO_FIELDS = {
    "next_inode": "saved",
    "root_inode": "fixed (ROOT_ID), its children are re-attached",
    "inodes": "saved as (ino, parent, name) triples",
    "lock": "ephemeral",
}


def r7_inventory(ctx, F):
    rule = "R7-field-inventory"
    for (adt, table) in ((VFS, VFS_FIELDS), (PSEUDO, PSEUDO_FIELDS)):
        st = F.structs.get(adt)
        if st is None:
            raise core.Anchor("struct %s" % adt)
        have = [f["name"] for f in st["fields"]]
        for n in have:
            ctx.check(rule, "%s.%s" % (adt.rsplit("::", 1)[-1], n), n in table,
                      "%s has a field `%s` that the persistence review does not know: is it saved, rebuilt, derived or ephemeral?" % (adt, n), detail=table.get(n, ""))
        for n in table:
            ctx.check(rule, "%s.%s/exists" % (adt.rsplit("::", 1)[-1], n), n in have, "%s.%s (classified `%s`) no longer exists" % (adt, n, table[n]), nontrivial=False)


META = {
    "technique": "symbolic round-trip composition of save and restore expressions (MIR value-flow), who-writes rule for constructor-dependent "
                 "fields, version-map vs. derive agreement, default-vs-fresh sibling agreement, field inventory",
    "text": "Decides: restore(save(x)) is the identity field by field for VfsOptions, VfsState (incl. closure composition for per-mount mappings) and the "
            "pseudo filesystem's (next_inode, inode triples); every constructor-dependent Vfs field is rewritten by restore; version map and derive "
            "versions agree and older-version defaults equal a fresh Vfs; restore_mount uses the recorded index without allocating; every live "
            "field is classified.",
    "note": "Not decided: the versionize crate's encoding itself, and behavioural equivalence over all mount/umount histories (run-time quantities); "
            "the cfg-guarded older-version writer named in the property's hook_needed is not required by this technique and was not added.",
}
