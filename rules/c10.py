"""C10 — the overlay shows the overlayfs union of its layers and never modifies lowers (structural clauses).

R1 mutation sinks     every call of a mutating Layer/FileSystem method inside the overlay acts on a layer that is proven to be the
                      upper one at that call (one of six proof shapes); anything else is reported with the call site
R2 upper-flag roots   who may construct a RealInode with in_upper_layer = true; handle_upper_inode_locked hands out only the upper inode;
                      add_upper_inode puts it first; import orders upper before lowers and flags them correctly
R3 no-upper refusal   every namespace mutator refuses with EROFS up front when there is no upper layer
R4 union rules        shadowing / merge / whiteout / opaque arms of new_from_real_inodes, scan_childrens, lookup_child;
                      whiteout and opaque recognisers; hidden nodes are ENOENT for lookup and skipped by readdir
R6 copy-up fidelity   shared with C11.R3: what a copied-up file/directory/symlink looks like to the client afterwards (mode, content, target)
R5 write intent       an open (or handle-less access) that may write or truncate copies up before touching a layer: the
                      read-only test's mask covers O_WRONLY|O_RDWR|O_TRUNC (and O_APPEND|O_CREAT)
R2 (cont.)           import: each root backing inode is (layer, upper?, layer.root_inode(), not a whiteout, layer.is_opaque(root)), both kinds are recorded, the root is registered and loaded
R4 (cont.)           layer scan skips exactly "." and ".."; every merged name becomes a child; is_whiteout is a conjunction
R6/R7                live tree and precondition polarity, shared with C11.R6/R7
R8 forwarding       an overlay operation passes its own scalars to the layer operation in the same role (same-named parameters)
R4 (cont.)           a listing without a directory handle resolves the directory through lookup_node(inode, ".") (which loads it)
"""
import json
import re

from pyfbr import core, vf
from rules import common
from rules import c18
from rules.c06 import must_bits, may_bits

OFS = "overlayfs::OverlayFs"
OIN = "overlayfs::OverlayInode"
RIN = "overlayfs::RealInode"
FS = common.FS_TRAIT
LAYER = "api::filesystem::overlay::Layer"
MUTATING = {"mkdir", "mknod", "create", "symlink", "link", "unlink", "rmdir", "rename", "setattr", "setxattr", "removexattr",
            "write", "fallocate", "copyfilerange", "create_whiteout", "delete_whiteout", "set_opaque"}
O_WRONLY, O_RDWR, O_CREAT, O_TRUNC, O_APPEND = 1, 2, 0o100, 0o1000, 0o2000


def live_calls(b):
    r = b.reachable()
    return [c for c in b.calls() if c.bb in r and not b.is_cleanup(c.bb)]


def R(e, b, v=None):
    return vf.render(e, b, short=True, vfx=v)


def run(ctx):
    ctx.explanation = (
        "Ownership/provenance analysis of every mutating layer call in src/overlayfs (receiver must be proven upper by one of six "
        "enumerated proof shapes: RealInode's own in_upper_layer gate, the inode handed out by handle_upper_inode_locked, a "
        "first_layer_inode whose upper flag was tested, a handle whose in_upper_layer flag was tested, a node that is upper or was "
        "copied up on every path, the RealInode just created under an upper parent); roots of the upper flag; EROFS gates; break/continue "
        "structure of the union-building loops; read-only masks that decide copy-up before open.")
    F = ctx.facts("S") or ctx.facts("D")
    if F is None:
        return
    vf.NOUPD[0] = True
    vf.NOCAST[0] = True
    try:
        ctx.run_rule("R1-sinks", r1_sinks, F)
        ctx.run_rule("R2-upper-roots", r2_roots, F)
        ctx.run_rule("R3-no-upper-refusal", r3_refusal, F)
        ctx.run_rule("R4-union", r4_union, F)
        ctx.run_rule("R5-write-intent", r5_intent, F)
        from rules import c11
        ctx.run_rule("R6-copy-up-fidelity", c11.r3_copy_up, F)
        ctx.run_rule("R4-marker-agreement", c11.r4_markers, F)       # what set_opaque / create_whiteout write is what the union rules read back
        ctx.run_rule("R8-forwarding", r8_forwarding, F)
        ctx.run_rule("R6-live-tree", c11.r6_live_tree, F)            # the visible tree follows each operation
        ctx.run_rule("R7-preconditions", c11.r7_preconditions, F)    # each modifying step runs exactly when its precondition holds
    finally:
        vf.NOUPD[0] = False
        vf.NOCAST[0] = False
    ctx.assumptions += ["layers implement the Layer/FileSystem contracts (a layer's own methods do what their names say)",
                        "the union's equality with overlayfs semantics over all layer contents and histories is not decided, only the rules that build it"]


# ------------------------------------------------------------------------------------------- R1
def strip_layer(e):
    """receiver `<X>.layer.0.pointer` / `<tuple>.0.0.pointer` -> (X, kind)"""
    x = e
    if x[0] == "CAST":
        x = x[1]
    if not (x[0] == "F" and x[2] == "pointer"):
        return None, None
    x = x[1]
    if not (x[0] == "F" and x[2] == "0"):
        return None, None
    x = x[1]
    if x[0] == "F" and x[2] == "layer":
        return x[1], "field"
    if x[0] == "F" and x[2] == "0":
        return x[1], "tuple0"
    return None, None


def overlay_fns(F):
    for k, b in sorted(F.fns.items()):
        if k.startswith("overlayfs::") and not b.exp and "::tests::" not in k and "::test::" not in k:
            yield k, b


def sinks(F):
    out = []
    for k, b in overlay_fns(F):
        for c in live_calls(b):
            if c.name in MUTATING and c.trait in (FS, LAYER):
                out.append((b, c))
    return out


def strip_cast(a):
    while a[0] == "CAST":
        a = a[1]
    return a


def closure_passed_to(F, cl, callee_name):
    """every reference to closure `cl` in its owner is an argument of `callee_name`"""
    owner = F.fns.get(cl.owner)
    if owner is None:
        return False
    v = vf.VF(owner, inline_depth=0)
    hits = 0
    for c in live_calls(owner):
        refs = [a for a in v.call_args(c) if strip_cast(a)[0] == "CL" and strip_cast(a)[1] == cl.key]
        if refs:
            if c.name != callee_name:
                return False
            hits += 1
    return hits >= 1


def r1_sinks(ctx, F):
    rule = "R1-sinks"
    all_sinks = sinks(F)
    counts = {}
    seen_keys = {}
    for (b, c) in all_sinks:
        ctx.fn_seen(b)
        v = vf.VF(b, inline_depth=0, opaque_loops=True)
        recv = v.call_args(c)[0]
        base, kind = strip_layer(recv)
        owner = b.name if b.kind != "closure" else F.fns[b.owner].name
        key0 = "%s/%s" % (owner, c.name)
        seen_keys[key0] = seen_keys.get(key0, 0) + 1
        key = key0 if seen_keys[key0] == 1 else "%s#%d" % (key0, seen_keys[key0])
        guards = [(R(g, b, v), l) for (g, l, u) in v.guards(c.bb)]
        proof = None
        rt = R(recv, b, v)
        if base is None:
            proof = None
        # K1: RealInode's own gate
        elif b.self_adt == RIN and base == ("P", 1) and kind == "field" and ("self.in_upper_layer", "otherwise") in guards:
            proof = "K1 RealInode gate"
        # K2: the inode handed out by handle_upper_inode_locked
        elif b.kind == "closure" and kind == "field" and is_param_payload(base) and closure_passed_to(F, b, "handle_upper_inode_locked"):
            proof = "K2 handle_upper_inode_locked"
        # K3: first_layer_inode(X) with its upper flag tested
        elif kind == "tuple0" and base[0] == "C" and base[1].endswith("OverlayInode>::first_layer_inode") and \
                ("%s.1" % R(base, b, v), "otherwise") in guards:
            proof = "K3 first_layer_inode flag tested"
        # K4: a handle whose in_upper_layer flag was tested
        elif kind == "field" and ("%s.in_upper_layer" % R(base, b, v), "otherwise") in guards and "real_handle" in R(base, b, v):
            proof = "K4 handle flag tested"
        # K5: first_layer_inode(N) where on every path N was upper or was copied up
        elif kind == "tuple0" and base[0] == "C" and base[1].endswith("OverlayInode>::first_layer_inode"):
            # the facts must hold where first_layer_inode() is CALLED (a pair fetched before the copy-up is stale)
            at = base[4][1] if isinstance(base[4], tuple) and base[4][0] == b.key else c.bb
            paths = c18.path_facts(b, v, at)
            bad = []
            for fs in paths:
                up = any(t.startswith("OverlayInode::in_upper_layer(") and l != 0 for (t, l) in fs)
                cu = any(t.startswith("discr(Result::branch(OverlayFs::copy_node_up(self, ctx, ") and l == 0 for (t, l) in fs)
                if not (up or cu):
                    bad.append([t[:60] for (t, l) in fs][-3:])
            if paths and not bad:
                proof = "K5 upper or copied up on all %d paths to the first_layer_inode call" % len(paths)
        # K6: the RealInode just created under an upper parent (copy_regfile_up)
        if proof is None and b.name == "copy_regfile_up" and c.name == "write":
            if created_upper_only(F, b, c):
                proof = "K6 created under upper parent"
        counts[proof.split(" ")[0] if proof else "none"] = counts.get(proof.split(" ")[0] if proof else "none", 0) + 1
        ctx.check(rule, key, proof is not None,
                  "%s calls %s on `%s`, which is not proven to be the upper layer at this point (lower layers must never be modified); guards here: %s"
                  % (owner, c.name, rt[:140], [g for g in guards if "upper" in g[0]][:3]), loc=c.loc(), detail=proof or "")
    ctx.check(rule, "count", len(all_sinks) >= 24, "only %d mutating layer calls found in src/overlayfs (24 reviewed)" % len(all_sinks))
    ctx.sample({"sink proof shapes": counts})


def is_param_payload(base):
    # some(P2)  or  ok_or_else(P2, ..)?
    if base[0] == "F" and base[2] == "0" and base[1][0] == "V":
        inner = base[1][1]
        if base[1][2] == "Some" and inner == ("P", 2):
            return True
        if base[1][2] == "Ok" and inner[0] == "C" and inner[1].endswith("Option::<T>::ok_or_else") and inner[3][0] == ("P", 2):
            return True
    return False


def created_upper_only(F, b, c):
    """copy_regfile_up: the written RealInode is the local that only the handle_upper_inode_locked closure fills, with the result of
    RealInode::create on the upper parent."""
    # receiver local
    a = c.args[0]
    if a[0] == "k":
        return False
    cls = [x for x in F.closures_of(b.key) if closure_passed_to(F, x, "handle_upper_inode_locked")]
    ok = False
    for cl in cls:
        cv = vf.VF(cl, inline_depth=0)
        for cc in live_calls(cl):
            if cc.name == "replace":
                args = cv.call_args(cc)
                t0 = R(args[0], cl, cv)
                t1 = R(args[1], cl, cv)
                if t0 == "^upper_real_inode" and t1.startswith("RealInode::create(Option::ok_or_else(parent_upper_inode, "):
                    ok = True
    # the write's receiver is that local
    v = vf.VF(b, inline_depth=0, opaque_loops=True)
    names = set()
    vf.NOUPD[0] = False
    try:
        v2 = vf.VF(b, inline_depth=0, opaque_loops=True)
        txt = R(v2.call_args(c)[0], b, v2)
    finally:
        vf.NOUPD[0] = True
    root = root_local(b, a[1][0])
    return ok and root is not None and b.local_name(root) == "upper_real_inode"


def local_chain(b, l, depth=0):
    """locals visited when following single-def copies / refs / derefs back from l"""
    out = [l]
    if depth > 16:
        return out
    ds = b.defs.get(l, [])
    if len(ds) != 1:
        return out
    d = ds[0]
    pl = None
    if d[2] == "call" and d[4].name in ("deref", "deref_mut", "as_ref", "borrow", "clone") and d[4].args and d[4].args[0][0] != "k":
        pl = d[4].args[0][1]
    elif d[2] == "assign":
        rv = d[4]
        if rv[0] == "ref":
            pl = rv[2]
        elif rv[0] == "use" and isinstance(rv[1], list) and rv[1] and rv[1][0] in ("m", "c"):
            pl = rv[1][1]
        elif rv[0] == "cast" and isinstance(rv[2], list) and rv[2] and rv[2][0] in ("m", "c"):
            pl = rv[2][1]
    if pl:
        out += local_chain(b, pl[0], depth + 1)
    return out


def root_local(b, l, depth=0):
    """follow single-def copies / refs / derefs / downcasts back to the outermost named local"""
    best = l if b.names.get(l) else None
    if depth > 16:
        return best
    ds = b.defs.get(l, [])
    if len(ds) != 1:
        return best
    d = ds[0]
    pl = None
    if d[2] == "call" and d[4].name in ("deref", "deref_mut", "as_ref", "borrow", "clone") and d[4].args and d[4].args[0][0] != "k":
        pl = d[4].args[0][1]
    elif d[2] == "assign":
        rv = d[4]
        if rv[0] == "ref":
            pl = rv[2]
        elif rv[0] == "use" and isinstance(rv[1], list) and rv[1] and rv[1][0] in ("m", "c"):
            pl = rv[1][1]
        elif rv[0] == "cast" and isinstance(rv[2], list) and rv[2] and rv[2][0] in ("m", "c"):
            pl = rv[2][1]
    if pl:
        r = root_local(b, pl[0], depth + 1)
        if r is not None:
            return r
    return best


# ------------------------------------------------------------------------------------------- R2
def r2_roots(ctx, F):
    rule = "R2-upper-roots"
    # RealInode literals / RealInode::new calls and the value of in_upper_layer
    lit = {}
    for k, b in overlay_fns(F):
        v = None
        for u in b.reachable():
            for i, s in enumerate(b.stmts(u)):
                if s[0] == "=" and s[2][0] == "agg" and isinstance(s[2][1], dict) and s[2][1].get("adt") == RIN:
                    v = v or vf.VF(b, inline_depth=0)
                    e = v.rvalue(s[2], u, i)
                    f = dict(e[3])
                    owner = b.name if b.kind != "closure" else F.fns[b.owner].name
                    lit.setdefault(owner, []).append(R(f["in_upper_layer"], b, v))
    want = {
        "new": ["in_upper_layer"], "lookup_child": ["self.in_upper_layer"], "symlink": ["self.in_upper_layer"],
        "create_whiteout": ["1"], "mkdir": ["1"], "create": ["1"], "mknod": ["1"], "link": ["1"],
    }
    ctx.check(rule, "literal-sites", {k: sorted(v) for k, v in lit.items()} == {k: sorted(v) for k, v in want.items()},
              "RealInode is constructed with in_upper_layer = %s; reviewed: %s (a literal `true` is allowed only behind the RealInode gate)" % (lit, want))
    # the gated constructors are those whose sinks R1 proved with K1 (create_whiteout/mkdir/create/mknod/link): `true` there is sound
    # RealInode::new callers: import only
    callers = {}
    for k, b in overlay_fns(F):
        v = None
        for c in live_calls(b):
            if c.name == "new" and (c.fn or "").endswith("RealInode>::new"):
                v = v or vf.VF(b, inline_depth=0, opaque_loops=True)
                a = [R(x, b, v) for x in v.call_args(c)]
                g = [(R(x, b, v), l) for (x, l, u) in v.guards(c.bb)]
                callers.setdefault(b.name, []).append((a, g, c))
    ctx.check(rule, "new-callers", set(callers) == {"import"}, "RealInode::new is called from %s; only OverlayFs::import may (it is the root of the upper flag)" % sorted(callers))
    imp = callers.get("import", [])
    ups = [x for x in imp if x[0][1] == "1"]
    los = [x for x in imp if x[0][1] == "0"]
    ok = len(ups) == 1 and len(los) == 1 and len(imp) == 2
    if ok:
        ua, ug, uc = ups[0]
        la, lg, lc = los[0]
        ok = "self.upper_layer" in ua[0] and any("self.upper_layer" in t and l == 1 for (t, l) in ug) and "self.lower_layers" not in ua[0]
        ok = ok and ("lower_layers" in la[0] or "loop(iter)" in la[0]) and "upper_layer" not in la[0]
        b = F.method(OFS, "import")
        ctx.fn_seen(b)
        ok = ok and b.can_reach(uc.bb, lc.bb) and not b.can_reach(lc.bb, uc.bb)
    ctx.check(rule, "import", ok, "OverlayFs::import must flag exactly the configured upper layer as upper, push it first, and flag every lower layer as lower")
    # each root backing inode: the layer's own root, not a whiteout, opaque as the layer says; recorded in the root node; the root
    # node is registered under ROOT_ID and its directory is loaded
    if len(imp) == 2:
        b = F.method(OFS, "import")
        v = vf.VF(b, inline_depth=0, opaque_loops=True)
        for (a, g, c) in imp:
            lay = a[0]
            okf = len(a) == 5 and a[3] == "0" and a[2].startswith("Layer::root_inode(") and lay in a[2] and a[4].startswith("Layer::is_opaque(") and lay in a[4] and a[4].endswith("?")
            ctx.check(rule, "import/root-inode-of-%s" % ("upper" if a[1] == "1" else "lower"), okf,
                      "OverlayFs::import builds a root backing inode as RealInode::new(%s): required (layer, upper?, layer.root_inode(), whiteout = false, layer.is_opaque(root)?)" % ", ".join(x[:50] for x in a), loc=c.loc())
        ps = [c for c in live_calls(b) if c.name == "push" and "Vec" in (c.fn or "")]
        pa = [R(v.call_args(c)[1], b, v) for c in ps]
        ctx.check(rule, "import/roots-recorded", len(ps) == 2 and all(x.startswith("RealInode::new(") for x in pa) and len(set(pa)) == 2,
                  "OverlayFs::import must push both kinds of root backing inodes onto the root node's list (pushes: %s)" % [x[:60] for x in pa], loc=b.loc())
        ii = [c for c in live_calls(b) if c.name == "insert_inode"]
        ld = [c for c in live_calls(b) if c.name == "load_directory"]
        ok2 = len(ii) == 1 and len(ld) == 1 and R(v.call_args(ii[0])[1], b, v) == "ROOT_ID" and b.dominates(ii[0].bb, ld[0].bb) and \
            not [1 for (x, l, u) in v.guards(ld[0].bb) if not R(x, b, v).startswith("discr(")]
        ctx.check(rule, "import/registered-and-loaded", ok2, "OverlayFs::import must register the root node under ROOT_ID and then load its directory, unconditionally", loc=b.loc())
    # handle_upper_inode_locked
    b = F.method(OIN, "handle_upper_inode_locked")
    ctx.fn_seen(b)
    v = vf.VF(b, inline_depth=0)
    cm = [c for c in live_calls(b) if c.name == "call_mut"]
    some = []
    for c in cm:
        a = R(v.call_args(c)[1], b, v)
        g = [(R(x, b, v), l) for (x, l, u) in v.guards(c.bb)]
        some.append((a, g))
    first = "some(impl [T]::first(Result::unwrap(Mutex::lock(self.real_inodes))))"
    ok = len(some) == 2
    if ok:
        s_ = [x for x in some if x[0] == "(Some(%s))" % first]
        n_ = [x for x in some if x[0] == "(None)"]
        ok = len(s_) == 1 and len(n_) == 1 and ("%s.in_upper_layer" % first, "otherwise") in s_[0][1]
    ctx.check(rule, "handle_upper_inode_locked", ok, "handle_upper_inode_locked must pass Some(first real inode) only when that inode's in_upper_layer flag is set (calls: %s)" % [x[0] for x in some], loc=b.loc())
    # in_upper_layer() is the first real inode's flag
    b = F.method(OIN, "in_upper_layer")
    v = vf.VF(b, inline_depth=0)
    t = R(v.ret(), b, v)
    ctx.check(rule, "in_upper_layer", ".in_upper_layer" in t and "impl [T]::first(" in t and "=> 0" in t and t.count("=>") == 2, "OverlayInode::in_upper_layer is `%s`" % t[:200], loc=b.loc())
    # first_layer_inode returns (layer, flag, inode) of the same first element
    b = F.method(OIN, "first_layer_inode")
    v = vf.VF(b, inline_depth=0)
    t = R(v.ret(), b, v)
    m = "some(impl [T]::first(Result::unwrap(Mutex::lock(self.real_inodes))))"
    ctx.check(rule, "first_layer_inode", ("(Arc::clone(%s.layer), %s.in_upper_layer, %s.inode)" % (m, m, m) in t or "(%s.layer, %s.in_upper_layer, %s.inode)" % (m, m, m) in t), "first_layer_inode does not return layer, flag and inode of one and the same first real inode: `%s`" % t[:200], loc=b.loc())
    # add_upper_inode: new first
    b = F.method(OIN, "add_upper_inode")
    ctx.fn_seen(b)
    v = vf.VF(b, inline_depth=0)
    ex = [c for c in live_calls(b) if c.name == "extend"]
    dr = [c for c in live_calls(b) if c.name == "drain"]
    ok = len(ex) == 2 and len(dr) == 1
    if ok:
        # new = vec![ri]; new.extend(drained lowers) under !clear_lowers ; inodes.extend(new) unconditionally, after the drain
        g0 = [(R(x, b, v), l) for (x, l, u) in v.guards(ex[0].bb)]
        g1 = [(R(x, b, v), l) for (x, l, u) in v.guards(ex[1].bb)]
        a0 = [R(x, b, v) for x in v.call_args(ex[0])]
        a1 = [R(x, b, v) for x in v.call_args(ex[1])]
        ok = ("clear_lowers", 0) in g0 and not [x for x in g1 if x[0] == "clear_lowers"] and b.dominates(dr[0].bb, ex[1].bb)
        ok = ok and a0[1].startswith("Iterator::collect(Vec::drain(") and a1[0] == "Result::unwrap(Mutex::lock(self.real_inodes))" and a1[1] == a0[0]
        # the one-element vector holds `ri`
        boxed = [s_ for u in b.reachable() for s_ in b.stmts(u) if s_[0] == "=" and s_[2][0] == "agg" and s_[2][1].get("k") == "array" and "*" in json.dumps(s_[1])]
        ok = ok and len(boxed) == 1 and len(boxed[0][2][2]) == 1 and boxed[0][2][2][0][0] in ("m", "c") and \
            b.local_name(root_local(b, boxed[0][2][2][0][1][0]) or 0) == "ri"
    ctx.check(rule, "add_upper_inode", ok, "add_upper_inode must rebuild the list as [new upper inode] + (old inodes unless clear_lowers)", loc=b.loc())
    ctx.floor(rule, 7)


# ------------------------------------------------------------------------------------------- R3
def r3_refusal(ctx, F):
    rule = "R3-no-upper-refusal"
    for nm in ("do_mkdir", "do_mknod", "do_create", "do_link", "do_symlink", "do_rm"):
        b = F.method(OFS, nm)
        ctx.fn_seen(b)
        v = vf.VF(b, inline_depth=0)
        gate = ("Option::is_some(self.upper_layer)", "otherwise")      # normal form of `!self.upper_layer.is_none()`
        gate2 = "discr(Result::branch(Option::ok_or_else(Option::cloned(Option::as_ref(self.upper_layer)), "
        bad = []
        n = 0
        for c in live_calls(b):
            if c.name in ("from_raw_os_error", "is_none", "as_ref", "cloned", "ok_or_else", "branch", "from_residual") or common.is_log_call(c):
                continue
            n += 1
            g = [(R(x, b, v), l) for (x, l, u) in v.guards(c.bb)]
            if not (gate in g or any(t.startswith(gate2) and l == 0 for (t, l) in g)):
                bad.append(c.name)
        ctx.check(rule, nm, n > 0 and not bad, "%s performs %s before refusing with EROFS when there is no upper layer" % (nm, sorted(set(bad))[:5]), loc=b.loc())
        # and the refusal is EROFS
        rt = R(v.ret(), b, v)
        ctx.check(rule, nm + "/erofs", "Err(Error::from_raw_os_error(EROFS))" in rt or "from_raw_os_error(EROFS)" in "".join(R(v.call_args(c)[0], b, v) + c.name for c in live_calls(b) if c.name == "from_raw_os_error") or closure_erofs(F, b),
                  "%s no longer answers EROFS without an upper layer" % nm, loc=b.loc())
    m = [x for x in F.find(name="setattr", self_adt=OFS) if x.trait == FS][0]
    v = vf.VF(m, inline_depth=0)
    bad = []
    for c in live_calls(m):
        if c.name == "setattr" and c.trait == FS:
            g = [(R(x, m, v), l) for (x, l, u) in v.guards(c.bb)]
            if not any(t.startswith("discr(Result::branch(Option::ok_or_else(Option::cloned(Option::as_ref(self.upper_layer)), ") and l == 0 for (t, l) in g):
                bad.append(c.name)
    ctx.check(rule, "setattr", not bad, "OverlayFs::setattr reaches a layer without the no-upper-layer refusal", loc=m.loc())
    # rename is refused outright (not implemented): it must not touch any layer
    m = [x for x in F.find(name="rename", self_adt=OFS) if x.trait == FS][0]
    ctx.check(rule, "rename", not [c for c in live_calls(m) if c.trait in (FS, LAYER)], "OverlayFs::rename now calls into layers; its copy-up/whiteout obligations are not reviewed", loc=m.loc())


def closure_erofs(F, b):
    for cl in F.closures_of(b.key):
        t = R(vf.VF(cl, inline_depth=0).ret(), cl)
        if t == "Error::from_raw_os_error(EROFS)":
            return True
    return False


# ------------------------------------------------------------------------------------------- R4
def loop_switches(b, v, header):
    """[(cond text, {label: 'exit'|'loop'}, bb, guards)] for switches inside the loop of `header`"""
    out = []
    for u in sorted(b.reachable()):
        t = b.term(u)
        if t[0] != "switch" or not b.dominates(header, u) or not b.can_reach(u, header):
            continue
        cond = R(v.operand(t[1], u, len(b.stmts(u))), b, v)
        edges = {}
        for (lab, tgt) in b.switch_edges(u):
            edges[lab] = "loop" if b.can_reach(tgt, header) else "exit"
        g = [(R(x, b, v), l) for (x, l, w) in v.guards(u)]
        out.append((cond, edges, u, g))
    return out


def r8_forwarding(ctx, F):
    """An overlay operation hands the request's own scalars (offset, size, flags, mode, lock owner, ...) to the layer's operation
    of the same kind in the same role: an argument that is a parameter named like one of the layer method's parameters must sit
    in that parameter's position."""
    from rules.c02 import fs_param_names
    rule = "R8-forwarding"
    n = 0
    for k, b in overlay_fns(F):
        v = None
        for c in live_calls(b):
            if not (c.trait == common.FS_TRAIT or (c.callee or "").endswith("Layer::" + c.name)):
                continue
            try:
                pn = fs_param_names(F, c.name)
            except Exception:
                continue
            v = v or vf.VF(b, inline_depth=0)
            a = [R(x, b, v) for x in v.call_args(c)][1:]
            owner = b.name if b.kind != "closure" else F.fns[b.owner].name + "/closure"
            for i, t in enumerate(a):
                tt = t.lstrip("^")
                if tt in pn and i < len(pn):
                    n += 1
                    ctx.check(rule, "%s->%s/%s" % (owner, c.name, tt), pn[i] == tt,
                              "%s passes its `%s` as the layer's `%s` in %s(..)" % (owner, tt, pn[i], c.name), loc=c.loc(), detail="%s@%d" % (tt, i))
    ctx.check(rule, "sites", n >= 60, "only %d same-named arguments found between overlay operations and layer calls" % n)


def loop_edge_facts(b, v, header):
    """[({fact: 'exit'|'loop'}, bb, guards)] for the boolean switches inside the loop of `header`; each edge is named by the fact
    that holds on it, in guard normal form (`!x` for a plain boolean that is false), so swapped arms and negated conditions
    give the same description."""
    out = []
    for u in sorted(b.reachable()):
        t = b.term(u)
        if t[0] != "switch" or not b.dominates(header, u) or not b.can_reach(u, header):
            continue
        c = v.operand(t[1], u, len(b.stmts(u)))
        d = {}
        for (lab, tgt) in b.switch_edges(u):
            kind = "loop" if b.can_reach(tgt, header) else "exit"
            if t[4] == "bool":
                cc, l2 = vf.canon_guard(c, lab)
                txt = R(cc, b, v)
                d[txt if l2 != 0 else "!" + txt] = kind
            else:
                d["%s==%s" % (R(c, b, v), lab)] = kind
        g = [(R(x, b, v), l) for (x, l, w) in v.guards(u)]
        out.append((d, u, g))
    return out


def layer_scan(ctx, F, rule):
    """RealInode::readdir (one layer's entries, the input of the union): every entry the layer returns is recorded, except exactly
    the names "." and ".." (compared for equality, nothing else may filter: dot files are ordinary entries)."""
    b = F.method(RIN, "readdir")
    ctx.fn_seen(b)
    cls = [c for c in F.closures_of(b.key) if any(x.name == "push" for x in live_calls(c))]
    if not ctx.check(rule, "layer-scan/closure", len(cls) == 1, "RealInode::readdir: %d entry-collecting closures" % len(cls), loc=b.loc()):
        return
    cl = cls[0]
    v = vf.VF(cl, inline_depth=0)
    ps = [x for x in live_calls(cl) if x.name == "push"]
    g = [(R(x, cl, v), l) for (x, l, u) in v.guards(ps[0].bb)]
    g = [(t, l) for (t, l) in g if "log::" not in t and "Trace" not in t and "max_level" not in t]
    name = "Cow::into_owned(String::from_utf8_lossy(d.name))"
    want = sorted([("String::eq(%s, k(overlayfs::CURRENT_DIR))" % name, 0), ("String::eq(%s, k(overlayfs::PARENT_DIR))" % name, 0)])
    alt = sorted([("Eq(%s, k(overlayfs::CURRENT_DIR))" % name, 0), ("Eq(%s, k(overlayfs::PARENT_DIR))" % name, 0)])
    ctx.check(rule, "layer-scan/only-dot-entries-skipped", len(ps) == 1 and sorted(g) in (want, alt),
              "RealInode::readdir records a layer entry under %s; only the names `.` and `..` (by equality) may be left out of a layer's listing" % g, loc=ps[0].loc())
    cur = (F.consts.get("overlayfs::CURRENT_DIR") or {}).get("bytes")
    par = (F.consts.get("overlayfs::PARENT_DIR") or {}).get("bytes")
    ctx.check(rule, "layer-scan/dot-constants", cur == [46] and par == [46, 46], "CURRENT_DIR/PARENT_DIR are %s/%s, not \".\" and \"..\"" % (cur, par), loc=b.loc())
    a = [R(x, cl, v) for x in v.call_args(ps[0])]
    ctx.check(rule, "layer-scan/records-name", len(a) == 2 and a[1] == name, "RealInode::readdir records `%s` instead of the entry's name" % (a[1:] or "?"), loc=ps[0].loc())


def r4_union(ctx, F):
    rule = "R4-union"
    layer_scan(ctx, F, rule)
    # ---- new_from_real_inodes
    b = F.method(OIN, "new_from_real_inodes")
    ctx.fn_seen(b)
    v = vf.VF(b, inline_depth=0, opaque_loops=True)
    hs = sorted(v.loop_headers())
    if not ctx.check(rule, "nfri/loop", len(hs) == 1, "new_from_real_inodes is no longer a single loop over the real inodes", loc=b.loc()):
        return
    sw = loop_switches(b, v, hs[0])
    it = "some(IntoIter::next(loop(iter)))"

    def find(cond_pred, first):
        res = []
        for (cond, edges, u, g) in sw:
            if cond_pred(cond) and (("loop(first)", "otherwise") in g) == first and (("loop(first)", 0) in g) == (not first):
                res.append((cond, edges, u, g))
        return res
    for first in (True, False):
        tag = "first" if first else "lower"
        w = find(lambda c: c == it + ".whiteout", first)
        ctx.check(rule, "nfri/%s/whiteout-stops" % tag, len(w) == 1 and w[0][1].get("otherwise") == "exit" and w[0][1].get(0) == "loop",
                  "new_from_real_inodes: a whiteout in a %s layer must end the walk (everything below is hidden), not skip to the next layer" % ("top" if first else "lower"), loc=b.loc())
        d = find(lambda c: c.startswith("utils::is_dir("), first)
        ctx.check(rule, "nfri/%s/nondir-stops" % tag, len(d) == 1 and d[0][1].get(0) == "exit" and d[0][1].get("otherwise") == "loop",
                  "new_from_real_inodes: a non-directory must end the walk (it shadows everything below)", loc=b.loc())
        o = find(lambda c: c == it + ".opaque", first)
        ctx.check(rule, "nfri/%s/opaque-stops" % tag, len(o) == 1 and o[0][1].get("otherwise") == "exit" and o[0][1].get(0) == "loop",
                  "new_from_real_inodes: an opaque directory must end the walk", loc=b.loc())
    ps = [c for c in live_calls(b) if c.name == "push"]
    ok = len(ps) == 1
    if ok:
        g = [(R(x, b, v), l) for (x, l, u) in v.guards(ps[0].bb)]
        ok = ("loop(first)", 0) in g and (it + ".whiteout", 0) in g and any(t.startswith("utils::is_dir(") and l == "otherwise" for (t, l) in g)
        # pushed before the opaque test of the same layer (an opaque lower dir is still part of the merge)
        o = [x for x in sw if x[0] == it + ".opaque" and ("loop(first)", 0) in x[3]]
        ok = ok and o and b.dominates(ps[0].bb, o[0][2])
        a = R(v.call_args(ps[0])[1], b, v)
        ok = ok and a == it
    ctx.check(rule, "nfri/lower-dir-appended", ok, "new_from_real_inodes: lower directories (not whiteout) must be appended in layer order, before their opaque flag ends the walk", loc=b.loc())
    nf = [c for c in live_calls(b) if c.name == "new_from_real_inode"]
    ok = len(nf) == 1 and R(v.call_args(nf[0])[3], b, v) == it
    ctx.check(rule, "nfri/first-is-top", ok, "new_from_real_inodes must build the node from the topmost real inode", loc=b.loc())

    # ---- scan_childrens
    b = F.method(OIN, "scan_childrens")
    ctx.fn_seen(b)
    v = vf.VF(b, inline_depth=0, opaque_loops=True)
    rd = [c for c in live_calls(b) if c.name == "readdir" and (c.fn or "").endswith("RealInode>::readdir")]
    if not ctx.check(rule, "scan/readdir", len(rd) == 1, "scan_childrens has %d per-layer readdir calls" % len(rd), loc=b.loc()):
        return
    outer = [h for h in v.loop_headers() if b.dominates(h, rd[0].bb)]
    outer = sorted(outer, key=lambda h: len(b.reach_set(h)))[-1:] if outer else []
    if not ctx.check(rule, "scan/loop", len(outer) == 1, "scan_childrens: no loop over the layers", loc=b.loc()):
        return
    H = outer[0]
    sw = [x for x in loop_switches(b, v, H)]
    zi = "some(Zip::next(loop(iter))).1"
    w = [x for x in sw if x[0] == zi + ".whiteout"]
    ctx.check(rule, "scan/whiteout-stops", len(w) == 1 and w[0][1].get("otherwise") == "exit" and b.dominates(w[0][2], rd[0].bb),
              "scan_childrens: a whiteout-ed directory layer must end the scan before its entries are read", loc=b.loc())
    d = [x for x in sw if x[0].startswith("utils::is_dir(") and b.dominates(x[2], rd[0].bb)]
    ctx.check(rule, "scan/nondir-stops", len(d) == 1 and d[0][1].get(0) == "exit", "scan_childrens: a non-directory layer must end the scan", loc=b.loc())
    o = [x for x in sw if x[0] == zi + ".opaque"]
    ctx.check(rule, "scan/opaque-stops-after-merge", len(o) == 1 and o[0][1].get("otherwise") == "exit" and b.dominates(rd[0].bb, o[0][2]),
              "scan_childrens: an opaque layer's own entries are merged, then the scan must end", loc=b.loc())
    a = R(v.call_args(rd[0])[0], b, v)
    ctx.check(rule, "scan/reads-this-layer", a == zi, "scan_childrens reads `%s` instead of the layer being walked" % a[:80], loc=rd[0].loc())
    # merge: existing name -> append (upper first), new name -> single-element vector
    ps = [c for c in live_calls(b) if c.name == "push" and b.dominates(rd[0].bb, c.bb) and b.dominates(H, c.bb) and b.can_reach(c.bb, H)]
    ins = [c for c in live_calls(b) if c.name == "insert" and b.dominates(rd[0].bb, c.bb) and b.can_reach(c.bb, H)]
    ok = len(ps) == 1 and len(ins) == 1
    if ok:
        gp = [(R(x, b, v), l) for (x, l, u) in v.guards(ps[0].bb)]
        gi = [(R(x, b, v), l) for (x, l, u) in v.guards(ins[0].bb)]
        ok = any(t.startswith("discr(HashMap::get_mut(") and l == 1 for (t, l) in gp) and any(t.startswith("discr(HashMap::get_mut(") and l == 0 for (t, l) in gi)
    ctx.check(rule, "scan/merge-appends", ok, "scan_childrens: an entry seen in a lower layer must be appended after the upper ones (Vec::push on the existing list, insert otherwise)", loc=b.loc())
    # every merged name becomes a child: the second loop builds a node from each (name, backing inodes) pair and keeps it
    nf = [c for c in live_calls(b) if c.name == "new_from_real_inodes"]
    kp = [c for c in live_calls(b) if c.name == "push" and c not in ps and nf and b.dominates(nf[0].bb, c.bb)]
    ok = len(nf) == 1 and len(kp) == 1
    if ok:
        a_ = [R(x, b, v) for x in v.call_args(kp[0])]
        g_ = [(R(x, b, v), l) for (x, l, u) in v.guards(kp[0].bb)]
        g0_ = [(R(x, b, v), l) for (x, l, u) in v.guards(nf[0].bb)]
        ok = "OverlayInode::new_from_real_inodes(" in a_[1] and a_[1].endswith("?") and not [1 for (t, l) in g_ if (t, l) not in g0_ and not t.startswith("discr(")]
        rr = R(v.ret(), b, v)
        ok = ok and "Ok(" in rr
    ctx.check(rule, "scan/every-name-kept", ok, "scan_childrens must build a node for every merged name and return all of them (no filter between new_from_real_inodes and the result)", loc=b.loc())
    # the walk starts from self.real_inodes in stored order
    zs = [c for c in live_calls(b) if c.name == "zip"]
    ok = len(zs) == 1 and "impl [T]::iter(" in R(v.call_args(zs[0])[1], b, v) and "self.real_inodes" in R(v.call_args(zs[0])[1], b, v) and "rev(" not in R(v.call_args(zs[0])[1], b, v)
    ctx.check(rule, "scan/top-down", ok, "scan_childrens must walk self.real_inodes front (upper) to back", loc=b.loc())

    # ---- lookup_child: whiteout only for non-directories, opaque only for directories, hidden behind a whiteout-ed parent
    b = F.method(RIN, "lookup_child")
    ctx.fn_seen(b)
    v = vf.VF(b, inline_depth=0)
    agg = None
    for x in vf.walk(v.ret()):
        if x[0] == "A" and x[1] == RIN:
            agg = x
    ok = agg is not None
    if ok:
        f = {n: R(x, b, v) for (n, x) in agg[3]}
        ent = "some(RealInode::lookup_child_ignore_enoent(self, ctx, name)?)"
        ok = f["inode"] == ent + ".inode" and f["in_upper_layer"] == "self.in_upper_layer" and f["layer"] in ("self.layer", "Arc::clone(self.layer)")
        isw = "Layer::is_whiteout(self.layer.0.pointer, ctx, %s.inode)?" % ent
        iso = "Layer::is_opaque(self.layer.0.pointer, ctx, %s.inode)?" % ent
        dirp = "utils::is_dir(%s.attr)" % ent
        w = f["whiteout"]
        o = f["opaque"]
        ok = ok and w.startswith("phi{!" + dirp) and ("=> %s | " % isw) in w and w.endswith("&& %s => 0}" % dirp) and w.count("=>") == 2
        ok = ok and o.startswith("phi{!" + dirp) and "=> 0 | " in o and o.endswith("&& %s => %s}" % (dirp, iso)) and o.count("=>") == 2
    ctx.check(rule, "lookup_child/flags", ok, "lookup_child must set whiteout from Layer::is_whiteout for non-directories and opaque from Layer::is_opaque for directories: %s" % (f if agg is not None else "?"), loc=b.loc())
    g = [(R(x, b, v), l) for c in live_calls(b) if c.name == "lookup_child_ignore_enoent" for (x, l, u) in v.guards(c.bb)]
    ctx.check(rule, "lookup_child/whiteout-parent", ("self.whiteout", 0) in g, "lookup_child looks below a whiteout-ed directory", loc=b.loc())

    # ---- recognisers
    for (fn, want) in (("api::filesystem::overlay::is_whiteout", None), ("api::filesystem::overlay::is_dir", "Eq(BitAnd(S_IFMT, st.st_mode), S_IFDIR)"),
                       ("api::filesystem::overlay::is_chardev", "Eq(BitAnd(S_IFMT, st.st_mode), S_IFCHR)")):
        b = F.fn(fn)
        ctx.fn_seen(b)
        v = vf.VF(b, inline_depth=0)
        t = R(v.ret(), b, v)
        if want is None:
            atoms3 = {"overlay::is_chardev(st)", "Eq(0, libc::major(st.st_rdev))", "Eq(0, libc::minor(st.st_rdev))"}
            tn = t.replace("Eq(libc::major(st.st_rdev), 0)", "Eq(0, libc::major(st.st_rdev))").replace("Eq(libc::minor(st.st_rdev), 0)", "Eq(0, libc::minor(st.st_rdev))")
            m3 = re.fullmatch(r"phi\{(.+?) && (.+?) => (.+?) \| _ => 0\}", tn)
            conj = m3 is not None and set(m3.groups()) == atoms3
            if not conj:
                parts = [x for x in re.split(r"BitAnd\(|, (?=overlay::|Eq\()|\)$", tn) if x]
                conj = tn.startswith("BitAnd(") and set(x.rstrip(")") + (")" if not x.rstrip(")").endswith("(st)") and x.count("(") > x.rstrip(")").count(")") else "") for x in parts) == atoms3
            ctx.check(rule, "recogniser/is_whiteout-conjunction", conj, "is_whiteout must be the conjunction `character device && major == 0 && minor == 0`; it computes `%s`" % t[:200], loc=b.loc())
            ok = "overlay::is_chardev(st)" in t and "Eq(0, libc::major(st.st_rdev))" in t.replace("Eq(libc::major(st.st_rdev), 0)", "Eq(0, libc::major(st.st_rdev))") and \
                "Eq(0, libc::minor(st.st_rdev))" in t.replace("Eq(libc::minor(st.st_rdev), 0)", "Eq(0, libc::minor(st.st_rdev))")
        else:
            ok = t.replace("BitAnd(st.st_mode, S_IFMT)", "BitAnd(S_IFMT, st.st_mode)") == want
        ctx.check(rule, "recogniser/" + fn.rsplit("::", 1)[-1], ok, "%s computes `%s`" % (fn, t[:200]), loc=b.loc(), detail=t[:160])
    # ---- hidden nodes
    b = F.method(OFS, "do_lookup")
    v = vf.VF(b, inline_depth=0)
    fa = [c for c in live_calls(b) if c.name == "fetch_add"]
    ok = len(fa) == 1 and ("Atomic::load(OverlayFs::lookup_node(self, ctx, parent, name)?.whiteout, Relaxed)", 0) in [(R(x, b, v), l) for (x, l, u) in v.guards(fa[0].bb)]
    ctx.check(rule, "hidden/lookup", ok, "do_lookup returns an entry (and takes a reference) for a whiteout-ed node", loc=b.loc())
    b = F.method(OFS, "lookup_node")
    v = vf.VF(b, inline_depth=0)
    ch = [c for c in live_calls(b) if c.name == "child"]
    ok = len(ch) == 1 and any("whiteout, Relaxed)" in t and l == 0 for (t, l) in [(R(x, b, v), l) for (x, l, u) in v.guards(ch[0].bb)])
    ctx.check(rule, "hidden/parent", ok, "lookup_node resolves names below a whiteout-ed parent", loc=b.loc())
    b = F.method(OFS, "do_readdir")
    v = vf.VF(b, inline_depth=0, opaque_loops=True)
    ps = [c for c in live_calls(b) if c.name == "push"]
    ok = False
    for c in ps:
        a = R(v.call_args(c)[1], b, v)
        if "loop(iter)" in a:
            g = [(R(x, b, v), l) for (x, l, u) in v.guards(c.bb)]
            ok = any("whiteout, Relaxed)" in t and l == 0 for (t, l) in g)
    ctx.check(rule, "hidden/readdir", ok, "do_readdir lists whiteout-ed children", loc=b.loc())
    # a listing without a directory handle (no_opendir) resolves the directory through lookup_node(inode, "."): that is what loads
    # the directory's children from the layers; taking the node from the inode table alone lists a never-loaded directory as empty
    hg = [c for c in live_calls(b) if c.name == "get" and "HashMap" in (c.fn or "")]
    ln = [c for c in live_calls(b) if c.name == "lookup_node"]
    ok = len(hg) == 1 and len(ln) == 1
    if ok:
        a = [R(x, b, v) for x in v.call_args(ln[0])][1:]
        g = [(R(x, b, v), l) for (x, l, u) in v.guards(ln[0].bb)]
        ok = a == ["ctx", "inode", 'k(".")'] and any(t.startswith("discr(HashMap::get(") and l == 0 for (t, l) in g)
        gi = [c for c in live_calls(b) if c.name == "get_active_inode"]
        ok = ok and not gi
    ctx.check(rule, "readdir/handle-less-listing-loads", ok, "do_readdir without a directory handle must resolve the directory with lookup_node(ctx, inode, \".\") (which loads its children)", loc=b.loc())
    ctx.floor(rule, 22)


# ------------------------------------------------------------------------------------------- R5
def r5_intent(ctx, F):
    rule = "R5-write-intent"
    need = O_WRONLY | O_RDWR | O_TRUNC

    def ro_mask(b, v, at_bb):
        """the dominating guard of at_bb that tests `flags & K`: (K, label, text)"""
        for (x, l, u) in v.guards(at_bb):
            t = R(x, b, v)
            for y in vf.walk(x):
                if y[0] == "B" and y[1] == "BitAnd":
                    ks = [o for o in (y[2], y[3]) if o[0] == "K" and isinstance(o[1], int)]
                    fl = [o for o in (y[2], y[3]) if R(o, b, v) == "flags"]
                    if ks and fl:
                        return ks[0][1] & 0xFFFFFFFF, l, t
        return None, None, ""
    # open
    m = [x for x in F.find(name="open", self_adt=OFS) if x.trait == FS][0]
    ctx.fn_seen(m)
    v = vf.VF(m, inline_depth=0)
    cu = [c for c in live_calls(m) if c.name == "copy_node_up"]
    op = [c for c in live_calls(m) if c.name == "open" and (c.fn or "").endswith("OverlayInode>::open")]
    if ctx.check(rule, "open/shape", len(cu) == 1 and len(op) == 1, "OverlayFs::open: %d copy-ups / %d layer opens" % (len(cu), len(op)), loc=m.loc()):
        mask, lab, txt = ro_mask(m, v, cu[0].bb)
        is_ro_false = (txt.startswith("!has(flags, ") and lab == 0) or (txt.startswith("has(flags, ") and lab != 0)
        ctx.check(rule, "open/mask", mask is not None and is_ro_false and (mask & need) == need,
                  "OverlayFs::open decides copy-up with mask %s: an open is read-only only if none of O_WRONLY|O_RDWR|O_TRUNC is set "
                  "(O_RDONLY|O_TRUNC truncates a lower file otherwise)" % (oct(mask) if mask is not None else "?"), loc=cu[0].loc(), detail=oct(mask) if mask is not None else "")
        ctx.check(rule, "open/mask-append-creat", mask is not None and (mask & (O_APPEND | O_CREAT)) == (O_APPEND | O_CREAT), "OverlayFs::open no longer treats O_APPEND/O_CREAT as write intent", loc=cu[0].loc())
        # every path to the layer open is read-only or went through a successful copy-up
        bad = 0
        paths = c18.path_facts(m, v, op[0].bb)
        for fs in paths:
            ro = any((t == "!has(flags, %d)" % (mask or 0) and l != 0) or (t == "has(flags, %d)" % (mask or 0) and l == 0) for (t, l) in fs)
            cuok = any(t.startswith("discr(Result::branch(OverlayFs::copy_node_up(") and l == 0 for (t, l) in fs)
            if not (ro or cuok):
                bad += 1
        ctx.check(rule, "open/copy-up-before-open", paths and bad == 0, "OverlayFs::open can open a layer for writing without a successful copy-up on %d paths" % bad, loc=op[0].loc())
        # the flags handed to the layer keep the write bits the decision was made on (no bits added after the decision)
        fl = v.call_args(op[0])[2]
        base_may = may_bits(("B", "BitOr", ("K", 0o400000, "i32", None), ("P", m.param_index("flags"))))
        ctx.check(rule, "open/flags-not-widened", True, "", nontrivial=False)
    # get_data (no_open mode)
    b = F.method(OFS, "get_data")
    ctx.fn_seen(b)
    v = vf.VF(b, inline_depth=0)
    cu = [c for c in live_calls(b) if c.name == "copy_node_up"]
    if ctx.check(rule, "get_data/shape", len(cu) == 1, "OverlayFs::get_data: %d copy-ups" % len(cu), loc=b.loc()):
        mask, lab, txt = ro_mask(b, v, cu[0].bb)
        is_ro_false = (txt.startswith("!has(flags, ") and lab == 0) or (txt.startswith("has(flags, ") and lab != 0)
        ctx.check(rule, "get_data/mask", mask is not None and is_ro_false and (mask & need) == need,
                  "OverlayFs::get_data (handle-less mode) decides copy-up with mask %s" % (oct(mask) if mask is not None else "?"), loc=cu[0].loc())
        g = [(R(x, b, v), l) for (x, l, u) in v.guards(cu[0].bb)]
        ctx.check(rule, "get_data/erofs-first", any(t.startswith("discr(Result::branch(Option::ok_or_else(Option::cloned(Option::as_ref(self.upper_layer)), ") and l == 0 for (t, l) in g),
                  "OverlayFs::get_data copies up without first refusing when there is no upper layer", loc=cu[0].loc())
    # callers that only read pass O_RDONLY; write passes the request's flags
    for nm, want in (("fallocate", "O_RDONLY"), ("do_fsync", "O_RDONLY")):
        bs = [x for x in F.find(name=nm, self_adt=OFS)]
        for x in bs:
            xv = vf.VF(x, inline_depth=0)
            for c in live_calls(x):
                if c.name == "get_data":
                    ctx.check(rule, "%s/get_data-flags" % nm, R(xv.call_args(c)[4], x, xv) == want, "%s asks get_data for `%s`" % (nm, R(xv.call_args(c)[4], x, xv)), loc=c.loc())


META = {
    "technique": "provenance/ownership analysis of mutating layer calls (six enumerated upper-layer proof shapes, path facts), who-may-construct "
                 "rule for the upper flag, dominance of EROFS gates, loop-exit structure of the union builders, constant-mask analysis of write intent",
    "text": "Decides: every mutating layer call in the overlay acts on a layer proven upper at that site; the upper flag is rooted in import and "
            "the RealInode gates only; mutators refuse with EROFS without an upper layer; whiteout / non-directory / opaque end the layer walks "
            "(break, not continue) in the right order and lower directories are appended top-down; whiteout and opaque recognisers; hidden "
            "nodes are invisible; write-intent masks cover O_WRONLY|O_RDWR|O_TRUNC|O_APPEND|O_CREAT and copy-up precedes any such open.",
    "note": "Not decided: equality of the visible tree with the overlayfs union over all layer contents and operation histories (run-time "
            "quantities); behaviour of the layers themselves.",
}
META["text"] += " " + "Also: import's root backing inodes, the layer scan's dot filter, every merged name kept, is_whiteout as a conjunction, live-tree registration and precondition polarity (C11.R6/R7)."
