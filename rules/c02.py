"""C02 — each request is decoded into exactly the operation and arguments the client sent.

R1 dispatch exhaustiveness and handler identity (from the guards of handle_message's arms)
R2 operation identity: the only FileSystem method reached from the handler of opcode X is table[X].fs
R3 argument provenance: value-flow of every argument of that call against tables/server_ops.json
R4 Arc<FS> forwarding, R5 override completeness
R6 Context::from(&InHeader)
R7 the pre-dispatch oversize refusal admits every request the negotiated limits allow
R8 request-side conversions (SetattrIn -> stat64) feed every field from the wire field of the same meaning
R9 name decoding: a name ends at the first NUL; the second of two names is accepted whenever one byte follows the first
R10 ZcReader/ZcWriter are pure adapters (one call on the wrapped reader/writer, count and offset unchanged)
"""
import json
import os

from pyfbr import core, vf
from rules import common

TABLE = os.path.join(core.VERIF, "tables", "server_ops.json")
UNHANDLED = {"CopyFileRange": "not implemented: answered ENOSYS by the catch-all arm",
             "MaxOpcode": "internal marker", "CuseInitBswapReserved": "endianness marker",
             "InitBswapReserved": "endianness marker"}
REPLY_HELPERS = {"reply_ok", "reply_error", "reply_error_explicit", "do_reply_error", "handle_attr_result",
                 "add_dirent"}


def canon(e):
    """Normalise flag tests: (x & F) != 0  ->  HAS(x, F)."""
    if not isinstance(e, tuple) or not e:
        return e
    if e[0] == "B" and e[1] in ("Ne", "Gt") and e[2][0] == "B" and e[2][1] == "BitAnd" and e[3][0] == "K" and e[3][1] == 0:
        a, b = e[2][2], e[2][3]
        if a[0] == "K":
            a, b = b, a
        return ("HAS", canon(a), canon(b))
    if e[0] in ("K", "KS", "P", "FN", "LOOP", "UNINIT", "?"):
        return e
    return tuple(canon(x) if isinstance(x, tuple) and x and isinstance(x[0], str)
                 else (tuple(canon(y) if isinstance(y, tuple) and y and isinstance(y[0], str) else
                             (tuple(canon(z) if isinstance(z, tuple) and z and isinstance(z[0], str) else z for z in y)
                              if isinstance(y, tuple) else y) for y in x) if isinstance(x, tuple) else x)
                 for x in e)


def effective_fs_calls(F, handler, trait=common.FS_TRAIT, depth=2, params=None, frame=None, vfs=None, stack=()):
    """FileSystem trait calls reached from a handler, following Server-impl helpers with the
    caller's argument expressions substituted. Returns [(body, call, [arg exprs], VF)], vfs."""
    v = vf.VF(handler, params=params or {})
    if vfs is None:
        vfs = {}
    vfs[handler.key] = v
    out = []
    for c in handler.calls():
        if c.bb not in handler.reachable() or handler.is_cleanup(c.bb):
            continue
        if c.trait == trait:
            if v.feasible(c.bb):
                out.append((handler, c, v.call_args(c), v))
        elif c.self_adt == common.SERVER and c.local and c.name not in REPLY_HELPERS and depth > 0 \
                and c.fn in F.fns and c.fn not in stack:
            if not v.feasible(c.bb):
                continue
            callee = F.fns[c.fn]
            args = v.call_args(c)
            sub, _ = effective_fs_calls(F, callee, trait, depth - 1,
                                        {i + 1: a for i, a in enumerate(args)}, frame, vfs, stack + (handler.key,))
            out += sub
    return out, vfs


def render_args(handler, entry, vfs, roots):
    (body, c, args, v) = entry
    vf.NOUPD[0] = True
    try:
        return _render_args(handler, entry, vfs, roots)
    finally:
        vf.NOUPD[0] = False


def _render_args(handler, entry, vfs, roots):
    (body, c, args, v) = entry
    return [vf.render(a, handler, roots, short=True, vfx=vfs) for a in args]


def all_roots(F, handler, vfs):
    roots = []
    for key, v in vfs.items():
        roots += common.request_roots(v, v.body)
    roots += common.ctx_roots(handler)
    return roots


def run(ctx):
    ctx.explanation = (
        "For every opcode arm of Server::handle_message the handler, the FileSystem trait method it reaches "
        "(through helpers, with constant arguments propagated) and the value-flow expression of every argument "
        "of that call are compared with a hand-confirmed protocol table (wire field -> trait argument); the "
        "Arc<FS> forwarding impl is checked method by method and parameter by parameter.")
    F = ctx.facts("S")
    if F is None:
        F = ctx.facts("D")
        if F is None:
            return
    table = json.load(open(TABLE))
    ctx.run_rule("R1-dispatch", r1_dispatch, F, table)
    ctx.run_rule("R2-R3", r2_r3, F, table)
    ctx.run_rule("R4-arc-forward", r4_arc, F)
    ctx.run_rule("R9-name-decoding", r9_names, F)
    ctx.run_rule("R10-zc-adapters", zc_adapters, F, "R10-zc-adapters")
    ctx.run_rule("R11-setxattr-size", r11_setxattr, F)
    ctx.run_rule("R6-context", r6_context, F)
    ctx.run_rule("R7-oversize-gate", r7_oversize, F)
    ctx.run_rule("R8-arg-conversions", r8_conversions, F)
    D = ctx.facts("D", required=False)
    if D is not None and D is not F:
        ctx.run_rule("R1-dispatch-D", r1_dispatch_d, D, table)
    ctx.assumptions += ["wire struct definitions are the kernel's (C13)", "FileSystem implementation behind the trait is out of scope"]


def r8_conversions(ctx, F):
    """Arguments that reach the filesystem through a conversion (`SetattrIn -> stat64`): each field of the result comes from the
    wire field of the same meaning (shared with C13.R4, restricted to request-side conversions)."""
    from rules import c13
    t = json.load(open(c13.TABLE))
    req = {k: v for k, v in t["conversions"].items() if k.startswith("SetattrIn")}
    if not req:
        raise core.Anchor("SetattrIn conversion row in tables/abi_names.json")
    vf.NOCAST[0] = False
    c13.r4_conversions(ctx, F, {"conversions": req}, floor=False)


def r1_dispatch(ctx, F, table):
    b, v, disp, others = common.dispatch_table(F)
    ctx.fn_seen(b)
    e = F.enums["abi::fuse_abi::Opcode"]
    ops = table["ops"]
    for var in e["variants"]:
        name = var["name"]
        if name in UNHANDLED:
            ctx.check("R1-dispatch", "unhandled/" + name, name not in disp,
                      "opcode %s is documented as unhandled but has a dispatch arm" % name, loc=b.loc(), detail=UNHANDLED[name])
            continue
        arms = disp.get(name, [])
        want = ops.get(name, {}).get("handler")
        if want is None:
            ctx.violation("R1-dispatch", name, "opcode %s has no row in tables/server_ops.json" % name)
            continue
        got = sorted(set(a[0] for a in arms))
        ctx.check("R1-dispatch", name, got == [want],
                  "opcode %s is dispatched to %s, the protocol table says %s" % (name, got or "nothing (falls to ENOSYS)", want),
                  loc=arms[0][1].loc() if arms else b.loc(), detail="%s -> %s" % (name, want))
    for name in disp:
        if name not in [x["name"] for x in e["variants"]]:
            ctx.violation("R1-dispatch", name, "dispatch arm for unknown opcode %s" % name)
    # every server call that takes the context away must sit under an opcode guard
    for c in others:
        ctx.check("R1-dispatch", "pre/" + c.name, c.name in ("remap_ctx_ids",),
                  "call to Server::%s in handle_message is not under an opcode test" % c.name, loc=c.loc())
    ctx.floor("R1-dispatch", 50)


def r1_dispatch_d(ctx, D, table):
    b, v, disp, others = common.dispatch_table(D)
    ops = table["ops"]
    for name, row in sorted(ops.items()):
        if row.get("feature") == "virtiofs":
            continue
        got = sorted(set(a[0] for a in disp.get(name, [])))
        ctx.check("R1-dispatch-D", name, got == [row["handler"]],
                  "default-feature build: opcode %s dispatched to %s, expected %s" % (name, got, row["handler"]), loc=b.loc())


def r2_r3(ctx, F, table):
    ops = table["ops"]
    gen = {}
    b0, v0, disp, _ = common.dispatch_table(F)
    for name, row in sorted(ops.items()):
        hs = [h for h in F.find(name=row["handler"], self_adt=common.SERVER) if h.kind == "assoc"]
        if len(hs) != 1:
            raise core.Anchor("handler Server::%s" % row["handler"])
        h = hs[0]
        ctx.fn_seen(h)
        calls, vfs = effective_fs_calls(F, h)
        roots = all_roots(F, h, vfs)
        methods = sorted(set(c.name for (_, c, _, _) in calls))
        want = row.get("fs")
        if want is None:
            ctx.check("R2-op-identity", name, not methods,
                      "%s must not invoke a filesystem operation but calls %s" % (name, methods), loc=h.loc())
            continue
        if not ctx.check("R2-op-identity", name, methods == [want],
                         "FUSE_%s is served by FileSystem::%s, the protocol requires FileSystem::%s"
                         % (name.upper(), "/".join(methods) or "<nothing>", want),
                         loc=calls[0][1].loc() if calls else h.loc(), detail="%s -> fs.%s" % (name, want)):
            # arguments are still compared below when a call exists
            pass
        # at most one filesystem call on any path
        for i, (bi, ci, _, _) in enumerate(calls):
            for j, (bj, cj, _, _) in enumerate(calls):
                if i != j and bi is bj and bi.can_reach(ci.target, cj.bb) if ci.target is not None else False:
                    ctx.violation("R2-op-identity", name + "/twice",
                                  "a path through %s invokes the filesystem twice (%s then %s)" % (h.name, ci.loc(), cj.loc()), loc=ci.loc())
        ctx.check("R2-op-identity", name + "/sites", len(calls) == row.get("sites", 1),
                  "%s has %d filesystem call sites, expected %d" % (h.name, len(calls), row.get("sites", 1)), loc=h.loc())
        if not calls:
            continue
        got = render_args(h, calls[0], vfs, roots)[1:]
        gen[name] = got
        exp = row.get("args")
        if exp is None:
            ctx.violation("R3-arg-provenance", name, "no argument row for %s in tables/server_ops.json" % name)
            continue
        if len(exp) != len(got):
            ctx.violation("R3-arg-provenance", name + "/arity", "fs.%s takes %d arguments, table has %d" % (want, len(got), len(exp)), loc=calls[0][1].loc())
            continue
        pnames = fs_param_names(F, calls[0][1].name)
        for k, (e, g) in enumerate(zip(exp, got)):
            pn = pnames[k] if k < len(pnames) else "arg%d" % k
            if e == "*":
                ctx.ok("R3-arg-provenance", "%s.%s" % (name, pn), "not decided: " + g[:80], nontrivial=False)
                continue
            if e.startswith("from:"):
                need = [x.strip() for x in e[5:].split("&")]
                ok = all(x in g for x in need)
                ctx.check("R3-arg-provenance", "%s.%s" % (name, pn), ok,
                          "%s: argument `%s` of fs.%s does not derive from %s (is `%s`)" % (name, pn, want, need, g[:300]),
                          loc=calls[0][1].loc(), detail=g[:120])
                continue
            ctx.check("R3-arg-provenance", "%s.%s" % (name, pn), vf.same_text(g, e),
                      "%s: argument `%s` of fs.%s is `%s`, the request encodes it as `%s`" % (name, pn, want, g[:300], e),
                      loc=calls[0][1].loc(), detail=g[:120])
        if len(ctx.samples) < 6:
            ctx.sample({"opcode": name, "call": "fs.%s" % want, "args": got[:6]})
    if os.environ.get("FBR_GEN"):
        print(json.dumps(gen, indent=1))
    ctx.floor("R2-op-identity", 80)
    ctx.floor("R3-arg-provenance", 150)


def r4_arc(ctx, F, only=None):
    """impl FileSystem for Arc<FS>: every trait method is overridden and forwards to the same-named
    method of the inner object with its own parameters in order. (`only`: restrict to these method names, used by C14.)"""
    tr = F.traits.get(common.FS_TRAIT)
    if tr is None:
        raise core.Anchor(common.FS_TRAIT)
    impl = [i for i in F.impls if i.get("trait") == common.FS_TRAIT and i["self_ty"].startswith("std::sync::Arc<")]
    if len(impl) != 1:
        raise core.Anchor("impl FileSystem for Arc<FS> (%d)" % len(impl))
    have = {m["name"]: m["key"] for m in impl[0]["items"] if m["kind"] == "Fn"}
    for m in tr["items"]:
        if m["kind"] != "Fn":
            continue
        n = m["name"]
        if only is not None and n not in only:
            continue
        if not ctx.check("R5-arc-override", n, n in have,
                         "Arc<FS> does not override FileSystem::%s: the default body answers instead of the wrapped filesystem" % n,
                         loc="%s:%s" % (impl[0]["file"], impl[0]["line"])):
            continue
        b = F.fn(have[n])
        ctx.fn_seen(b)
        v = vf.VF(b, inline_depth=0)
        fc = [c for c in b.calls() if c.trait == common.FS_TRAIT and c.bb in b.reachable() and not b.is_cleanup(c.bb)]
        if not ctx.check("R4-arc-forward", n + "/callee", len(fc) == 1 and fc[0].name == n,
                         "Arc<FS>::%s forwards to %s" % (n, [c.name for c in fc] or "nothing"), loc=b.loc()):
            continue
        args = v.call_args(fc[0])
        okself = args and args[0] in (("P", 1),) or (args and args[0][0] in ("C",) and args[0][3] and args[0][3][0] == ("P", 1))
        ctx.check("R4-arc-forward", n + "/self", bool(okself), "Arc<FS>::%s does not forward to its own inner filesystem" % n, loc=b.loc())
        bad = []
        for k in range(1, len(args)):
            if args[k] != ("P", k + 1):
                bad.append("param %d (%s) receives `%s`" % (k, b.local_name(k + 1), vf.render(args[k], b, short=True)))
        ctx.check("R4-arc-forward", n + "/args", not bad and len(args) == b.argc,
                  "Arc<FS>::%s does not pass its parameters through in order: %s" % (n, "; ".join(bad) or "arity"), loc=fc[0].loc())
        r = v.ret()
        ctx.check("R4-arc-forward", n + "/ret", r[0] == "C" and r[4] == (b.key, fc[0].bb),
                  "Arc<FS>::%s does not return the inner call's result" % n, loc=b.loc())
    if only is None:
        ctx.floor("R4-arc-forward", 150)
        ctx.floor("R5-arc-override", 45)
    else:
        ctx.floor("R5-arc-override", len(only))


ZC_CALLEE = {"read_to": "read_to_at", "write_from": "write_from_at"}


def zc_adapters(ctx, F, rule):
    """ZcReader / ZcWriter (what a filesystem's read/write sees of the request and reply buffers) are pure adapters: one call on
    the wrapped reader/writer with the caller's count and offset unchanged (shared with C18: the sealing test is made on
    WriteIn.size, so the adapter must not move more than the count it is given)."""
    n = 0
    for k, b in sorted(F.fns.items()):
        if not (b.self_adt or "").startswith("api::server::Zc") or b.kind != "assoc" or "async" in k:
            continue
        ctx.fn_seen(b)
        v = vf.VF(b, inline_depth=0)
        cs = [c for c in b.calls() if c.bb in b.reachable() and not b.is_cleanup(c.bb)]
        tag = "%s::%s" % (b.self_adt.rsplit("::", 1)[-1], b.name)
        ok = len(cs) == 1 and cs[0].name == ZC_CALLEE.get(b.name, b.name)
        if ok:
            a = v.call_args(cs[0])
            ok = a[0] == ("F", ("P", 1), "0") and list(a[1:]) == [("P", i) for i in range(2, b.argc + 1)]
            r = v.ret()
            ok = ok and r[0] == "C" and r[4] == (b.key, cs[0].bb)
        n += 1
        ctx.check(rule, tag, ok, "%s is not exactly `self.0.%s(<its own arguments>)`: %s" % (tag, ZC_CALLEE.get(b.name, b.name),
                  [(c.name, [vf.render(x, b, short=True)[:60] for x in v.call_args(c)]) for c in cs][:3]), loc=b.loc())
    ctx.check(rule, "adapters", n >= 6, "only %d adapter methods found" % n)


def r11_setxattr(ctx, F):
    """SETXATTR is refused as malformed exactly when the announced value size differs from the bytes that follow the name."""
    b = F.method(common.SERVER, "setxattr")
    v = vf.VF(b)
    roots = common.request_roots(v, b) + common.ctx_roots(b)
    sites = []
    for bb in sorted(b.reachable()):
        for s_ in b.stmts(bb):
            if s_[0] == "=" and s_[2][0] == "agg" and isinstance(s_[2][1], dict) and s_[2][1].get("variant") == "InvalidXattrSize":
                g = [(vf.render(x, b, roots, short=True, vfx=v), l) for (x, l, u) in v.guards(bb)]
                sites.append([(t, l) for (t, l) in g if not t.startswith("discr(")])
    ok = len(sites) == 1 and len(sites[0]) == 1 and sites[0][0][1] != 0 and sites[0][0][0].startswith("Ne(") and "SetxattrIn.size" in sites[0][0][0] and "split_at(" in sites[0][0][0] and ".1)" in sites[0][0][0]
    ctx.check("R11-setxattr-size", "refusal", ok, "Server::setxattr refuses with InvalidXattrSize under %s; required `SetxattrIn.size != len(value)`" % [[(t[:60], l) for (t, l) in s_] for s_ in sites], loc=b.loc())


def r9_names(ctx, F):
    """The two name decoders: a name ends at the first NUL (inclusive slice 0..=pos); the second of two names starts right
    after it and is accepted whenever at least one byte follows (an empty second name `\\0` is a name the filesystem must see)."""
    rule = "R9-name-decoding"
    POS = "some(Iter::position(impl [T]::iter(buf), closure({closure#0})))"
    FIRST = "CStr::from_bytes_with_nul(Index::index(buf, RangeInclusive::new(0, %s)))" % POS
    b = F.fn("bytes_to_cstr")
    ctx.fn_seen(b)
    v = vf.VF(b, inline_depth=0)
    r = vf.render(v.ret(), b, short=True, vfx=v)
    ctx.check(rule, "bytes_to_cstr/first-nul", "==1 => Result::map_err(%s, " % FIRST in r, "bytes_to_cstr does not cut the name at the first NUL byte (inclusive): %s" % r[:300], loc=b.loc())
    e = F.method("api::server::ServerUtil", "extract_two_cstrs")
    ctx.fn_seen(e)
    ev = vf.VF(e, inline_depth=0)
    r = vf.render(ev.ret(), e, short=True, vfx=ev)
    second = "bytes_to_cstr(Index::index(buf, RangeFrom{start: Add(1, %s)}))" % POS
    ctx.check(rule, "two/result", "Ok((%s?, %s?))" % (FIRST, second) in r,
              "extract_two_cstrs does not return (buf[0..=pos], bytes_to_cstr(buf[pos+1..])): %s" % r[:400], loc=e.loc())
    ctx.check(rule, "two/accepts-any-second", vf.fact("Lt(Add(1, %s), impl [T]::len(buf))" % POS) in r and "Lt(Add(2" not in r and "Le(Add(" not in r,
              "extract_two_cstrs must accept a second name whenever pos + 1 < len (one byte, the NUL of an empty name, is enough): %s" % r[:300], loc=e.loc())
    for fn in (b, e):
        cl = F.closures_of(fn.key)
        t = [vf.render(vf.VF(c, inline_depth=0).ret(), c, short=True) for c in cl]
        ctx.check(rule, fn.name + "/searches-nul", any(x in ("Eq(0, x)", "Eq(x, 0)", "Eq(0, *x)", "Eq(*x, 0)") for x in t), "%s no longer searches for the byte 0 (%s)" % (fn.name, t), loc=fn.loc())


def r6_context(ctx, F):
    c = [b for b in F.fns.values() if b.name == "from" and (b.self_ty or "").endswith("filesystem::Context")
         and "InHeader" in b.key]
    if len(c) != 1:
        raise core.Anchor("impl From<&InHeader> for Context (%d)" % len(c))
    b = c[0]
    ctx.fn_seen(b)
    r = vf.VF(b).ret()
    if r[0] != "A":
        ctx.violation("R6-context", "shape", "shape not recognised: %s" % vf.render(r, b, short=True), loc=b.loc())
        return
    got = {n: vf.render(x, b, short=True) for (n, x) in r[3]}
    want = {"uid": "source.uid", "gid": "source.gid", "pid": "(source.pid as i32)"}
    for k, w in want.items():
        g = got.get(k, "<missing>")
        gg = g.replace("(", "").replace(" as i32)", "")
        ww = w.replace("(", "").replace(" as i32)", "")
        ctx.check("R6-context", k, gg.split(".")[-1] == ww.split(".")[-1] and gg.split(".")[0] == got.get("uid", "x").split(".")[0],
                  "Context.%s is built from `%s`, must be the header's %s" % (k, g, k), loc=b.loc(), detail=g)


def strip_upd(e):
    while e[0] in ("UPD", "UPDF"):
        e = e[1]
    if e[0] == "F":
        return ("F", strip_upd(e[1]), e[2])
    return e


def r7_oversize(ctx, F):
    """The only size-based refusal before dispatch is `header.len > K` with K large enough for a
    maximal WRITE (max_write payload + fuse_in_header + fuse_write_in): a smaller or differently
    computed bound refuses well-formed requests the INIT reply promised to accept."""
    b = F.method(common.SERVER, "handle_message")
    v = vf.VF(b)
    sites = [c for c in b.calls() if c.name == "reply_error_explicit" and c.bb in b.reachable() and not b.is_cleanup(c.bb)]
    if len(sites) != 1:
        raise core.Anchor("oversize refusal in handle_message (%d reply_error_explicit sites)" % len(sites))
    c = sites[0]
    size_guards = []
    for (cond, lab, u) in v.guards(c.bb):
        if cond[0] == "B" and cond[1] in ("Eq", "Ne") and (common.is_k_opcode(cond[2]) or common.is_k_opcode(cond[3])):
            continue
        if cond[0] == "D":
            continue   # Result discriminants of the header decode / id remap
        size_guards.append((cond, lab))
    if len(size_guards) != 1:
        ctx.violation("R7-oversize-gate", "shape", "shape not recognised: %d non-opcode guards on the oversize refusal" % len(size_guards), loc=c.loc())
        return
    cond, lab = size_guards[0]
    # normal form of the guard: `constant < header.len` (or `<=`) on the true edge
    big = strip_upd(cond[3]) if cond[0] == "B" else None
    hdr_roots = [r for (r, n) in common.request_roots(v, b) if n == "InHeader"]
    ok = cond[0] == "B" and cond[1] in ("Lt", "Le") and lab != 0 and big is not None and big[0] == "F" and big[2] == "len" \
        and ((big[1][0] == "F" and big[1][2] == "in_header") or big[1] in hdr_roots) and cond[2][0] == "K"
    if not ctx.check("R7-oversize-gate", "form", ok,
                     "the oversize refusal is not of the form `header.len > constant`: `%s`" % vf.render(cond, b, short=True)[:200],
                     loc=c.loc(), detail=vf.render(cond, b, short=True)[:120]):
        return
    K = cond[2][1] - (1 if cond[1] == "Le" else 0)
    maxbuf = F.const("api::server::MAX_BUFFER_SIZE")
    need = maxbuf + F.structs["abi::fuse_abi::InHeader"]["size"] + F.structs["abi::fuse_abi::WriteIn"]["size"]
    ctx.check("R7-oversize-gate", "bound", K >= need,
              "requests longer than %d bytes are refused, but a maximal WRITE is %d bytes (max_write %d + headers)" % (K, need, maxbuf),
              loc=c.loc(), detail="%d >= %d" % (K, need))
    # no other early return depends on the length
    ctx.sample({"oversize_gate": vf.render(cond, b, short=True), "K": K, "needed": need})


META = {
    "technique": "MIR value-flow of dispatch guards and call arguments vs. frozen protocol table; forwarding check over trait/impl tables",
    "text": "Decides the structural clauses: every opcode arm calls the tabled handler, the handler reaches exactly the tabled "
            "FileSystem method once per path, every argument of that call has the tabled provenance from the wire struct "
            "(incl. all flag-conditional arguments), Arc<FS> forwards every method with its parameters in order.",
    "note": "Holds for all inputs because it is a statement about every path of the type-checked code; the table "
            "(tables/server_ops.json) is the protocol oracle, hand-confirmed against linux/fuse.h semantics. Not decided: "
            "payload byte contents; the filesystem behind the trait.",
}


def fs_param_names(F, method, trait=common.FS_TRAIT):
    """Parameter names of a FileSystem trait method (from the default body's debug info), without self."""
    b = F.fns.get("%s::%s" % (trait, method))
    if b is None:
        return []
    out = {}
    for d in b.raw.get("dbg", []):
        if d.get("arg") is not None and len(d.get("place", [])) == 1:
            out[d["place"][0]] = d["name"]
    return [out.get(i, "arg%d" % i) for i in range(2, b.argc + 1)]
META["text"] += " " + 'Also: the two name decoders (first NUL, second name accepted whenever a byte follows), ZcReader/ZcWriter are pure adapters.'
