"""C17 — guest memory written by the server is always marked dirty (virtio-fs transport).

R1 who may turn the descriptor-chain slices into raw pointers
R2 every path that lets guest memory be written marks exactly the written amount dirty (same amount it marks used)
R3 consume_for_write / consume_for_read pass the constant flag; writers use the former, readers the latter
R4 IoBuffers::mark_dirty walks the buffers like the allocator does (truncate to the count, stop only at count 0)
R2 (cont.) only IoBuffers::consume and the async file read may call mark_dirty
"""
from pyfbr import core, vf
from rules import common
from rules import c04

IOB = c04.IOB
VFW = c04.VFW


def live_calls(b):
    r = b.reachable()
    return [c for c in b.calls() if c.bb in r and not b.is_cleanup(c.bb)]


def run(ctx):
    ctx.explanation = (
        "Who-may-call and pairing rules over the transport code: only the three slice allocators expose guest memory as raw "
        "pointers; the one generic consumer marks dirty exactly the amount the copy closure reports (and marks the same amount "
        "used) when asked to; the write-side wrapper always asks, the read-side wrapper never does; every writer method goes "
        "through the write-side wrapper; the dirty walk covers the same prefix of the chain as the allocator.")
    F = ctx.facts("S")
    if F is None:
        return
    ctx.run_rule("R1-raw-exposure", r1_exposure, F)
    ctx.run_rule("R2-mark-amount", r2_amount, F)
    ctx.run_rule("R3-flag-wrappers", r3_wrappers, F)
    ctx.run_rule("R4-dirty-walk", r4_walk, F)
    ctx.floor('R1-raw-exposure', 3)
    ctx.floor('R2-mark-amount', 4)
    ctx.floor('R3-flag-wrappers', 9)
    ctx.floor('R4-dirty-walk', 3)
    A = ctx.facts("A", required=False)
    if A is not None:
        ctx.run_rule("R2-mark-amount-async", r2_async, A)
    ctx.assumptions += ["page-granular minimality of the marking is not examined", "vm-memory's bitmap implementation is trusted"]


def r1_exposure(ctx, F):
    users = set()
    for k, b in F.fns.items():
        if not k.startswith("transport::"):
            continue
        for c in live_calls(b):
            if c.name in ("from_volatile_slice", "ptr_guard_mut", "ptr_guard") or (c.name == "as_ptr" and "VolatileSlice" in (c.fn or "")):
                owner = b if b.kind != "closure" else F.fns[b.owner]
                if owner.self_adt == IOB or "IoBuffers" in (owner.self_ty or ""):
                    users.add(owner.name)
    allowed = {"allocate_file_volatile_slice", "prepare_io_buf", "prepare_mut_io_buf"}
    merged = not [x for x in F.find(name="allocate_file_volatile_slice", self_adt=IOB)]      # the allocator merged back into its only caller
    if merged:
        allowed = allowed | {"consume"}
    for u in sorted(users):
        ctx.check("R1-raw-exposure", u, u in allowed, "IoBuffers::%s exposes chain slices as raw memory; only %s may" % (u, sorted(allowed)))
    ctx.check("R1-raw-exposure", "allocator", "allocate_file_volatile_slice" in users or (merged and "consume" in users), "the slice allocator was not found")
    # who calls the allocator: only consume()
    callers = set()
    for k, b in F.fns.items():
        for c in live_calls(b):
            if c.name == "allocate_file_volatile_slice":
                callers.add(b.name if b.kind != "closure" else F.fns[b.owner].name)
    ctx.check("R1-raw-exposure", "allocator-callers", callers == {"consume"} or (merged and not callers), "allocate_file_volatile_slice is called by %s; only consume (which does the dirty/used accounting) may" % sorted(callers))


def r2_amount(ctx, F):
    c04.r4_counters(ctx, F)
    b = F.method(IOB, "consume")
    v = vf.VF(b)
    md = [c for c in live_calls(b) if c.name == "mark_dirty"]
    if md:
        g = [(vf.render(cond, b, short=True), lab) for (cond, lab, u) in v.guards(md[0].bb)]
        ctx.check("R2-mark-amount", "consume/when-asked", ("mark_dirty", "otherwise") in g and len([x for x in g if x[0] == "mark_dirty"]) == 1,
                  "consume does not mark dirty exactly when its mark_dirty argument is true (guards %s)" % [x for x in g if "dirty" in x[0]], loc=md[0].loc())
        # after the copy closure ran, before returning Ok
        cl = [c for c in live_calls(b) if c.name == "call_once"]
        ctx.check("R2-mark-amount", "consume/after-copy", len(cl) == 1 and b.dominates(cl[0].bb, md[0].bb),
                  "consume marks memory dirty before the copy has told how many bytes it wrote", loc=md[0].loc())

    # who marks: only consume (after the copy, by the copied amount) and the async file read; a marking placed anywhere else is
    # by an amount nobody has written yet (over-marking on short reads and errors)
    callers = {}
    for k, fb in F.fns.items():
        if not k.startswith("transport::"):
            continue
        for c in live_calls(fb):
            if c.name == "mark_dirty" and (c.self_adt == IOB or "IoBuffers" in (c.callee or "")):
                owner = fb
                while owner.kind in ("closure", "coroutine") and owner.owner in F.fns:
                    owner = F.fns[owner.owner]
                callers.setdefault(owner.name, c)
    for nm, c in sorted(callers.items()):
        ctx.check("R2-mark-amount", "marker/" + nm, nm in ("consume", "async_write_from_at"),
                  "%s marks guest memory dirty itself; only IoBuffers::consume (after the copy, by the amount copied) may" % nm, loc=c.loc())
    ctx.check("R2-mark-amount", "marker/consume-present", "consume" in callers, "IoBuffers::consume no longer marks dirty (callers of mark_dirty: %s)" % sorted(callers), loc=b.loc())


def r2_async(ctx, A):
    from rules.c20 import async_frame
    ms = [x for x in A.fns.values() if x.self_adt == VFW and x.name == "async_write_from_at"]
    if len(ms) != 1:
        raise core.Anchor("VirtioFsWriter::async_write_from_at")
    body, v = async_frame(A, ms[0])
    md = [c for c in live_calls(body) if c.name == "mark_dirty"]
    mu = [c for c in live_calls(body) if c.name == "mark_used"]
    ok = len(md) == 1 and len(mu) == 1
    if ok:
        x = vf.render(v.call_args(md[0])[1], ms[0], short=True)
        y = vf.render(v.call_args(mu[0])[1], ms[0], short=True)
        ok = x == y and body.dominates(md[0].bb, mu[0].bb)
    ctx.check("R2-mark-amount-async", "async_write_from_at", ok, "VirtioFsWriter::async_write_from_at does not mark the bytes read into guest memory dirty (same amount as marked used)", loc=ms[0].loc())


def r3_wrappers(ctx, F):
    for nm, flag in (("consume_for_write", 1), ("consume_for_read", 0)):
        bs = [x for x in F.fns.values() if x.name == nm and "IoBuffers" in (x.self_ty or "")]
        if len(bs) != 1:
            raise core.Anchor("IoBuffers::%s (%d)" % (nm, len(bs)))
        b = bs[0]
        ctx.fn_seen(b)
        v = vf.VF(b, inline_depth=0)
        cs = [c for c in live_calls(b)]
        ok = len(cs) == 1 and cs[0].name == "consume"
        if ok:
            a = v.call_args(cs[0])
            ok = a[0] == ("P", 1) and a[1][0] == "K" and a[1][1] == flag and a[2] == ("P", 2) and a[3] == ("P", 3)
            r = v.ret()
            ok = ok and r[0] == "C" and r[4] == (b.key, cs[0].bb)
        ctx.check("R3-flag-wrappers", nm, ok,
                  "IoBuffers::%s is not exactly `self.consume(%s, count, f)`: the dirty marking for %s depends on something else" % (nm, "true" if flag else "false", "writes" if flag else "reads"), loc=b.loc())
    # users
    wr, rd = set(), set()
    for k, b in F.fns.items():
        if not k.startswith("transport::"):
            continue
        owner = b if b.kind != "closure" else F.fns.get(b.owner, b)
        for c in live_calls(b):
            if c.name == "consume_for_write":
                wr.add((owner.self_adt or owner.self_ty or "").rsplit("::", 1)[-1].split("<")[0] + "::" + owner.name)
            if c.name == "consume_for_read":
                rd.add((owner.self_adt or owner.self_ty or "").rsplit("::", 1)[-1].split("<")[0] + "::" + owner.name)
            if c.name == "consume" and owner.name not in ("consume_for_write", "consume_for_read", "ioctl"):
                ctx.violation("R3-flag-wrappers", "direct-consume/" + owner.name, "%s calls IoBuffers::consume directly, bypassing the read/write wrappers" % owner.name, loc=c.loc())
    for u in sorted(wr):
        ctx.check("R3-flag-wrappers", "writer/" + u, u.startswith("VirtioFsWriter::"), "%s writes guest memory but is not a VirtioFsWriter method" % u)
    for u in sorted(rd):
        ctx.check("R3-flag-wrappers", "reader/" + u, u.startswith("Reader::"), "%s uses the read-side wrapper" % u)
    need = {"VirtioFsWriter::write", "VirtioFsWriter::write_from", "VirtioFsWriter::write_from_at"}
    ctx.check("R3-flag-wrappers", "writer-methods", need <= wr, "VirtioFsWriter methods not going through consume_for_write: %s" % sorted(need - wr))
    ctx.check("R3-flag-wrappers", "reader-methods", len(rd) >= 3, "only %d Reader methods use consume_for_read" % len(rd))
    # no VirtioFsWriter method uses the read-side wrapper
    ctx.check("R3-flag-wrappers", "writer-never-read-wrapper", not any(u.startswith("VirtioFsWriter::") for u in rd), "a VirtioFsWriter method uses consume_for_read: its writes are never marked dirty")


def r4_walk(ctx, F):
    c04.r3_truncate(ctx, F)
    b = F.method(IOB, "mark_dirty")
    ctx.fn_seen(b)
    v = vf.VF(b)
    mk = [c for c in live_calls(b) if c.name == "mark_dirty" and c.fn != b.key]
    ok = len(mk) == 1
    if ok:
        a = [vf.render(x, b, short=True, vfx=v) for x in v.call_args(mk[0])]
        ok = a[1] == "0" and "len(" in a[2]
    ctx.check("R4-dirty-walk", "bitmap-call", ok, "IoBuffers::mark_dirty does not mark (0, len) of each truncated slice in its bitmap", loc=b.loc())
    # ... for every slice walked: no iteration of the loop can come back to the loop header without having passed the bitmap call
    if ok:
        hs0 = [h for h in v.loop_headers() if b.dominates(h, mk[0].bb) and b.can_reach(mk[0].bb, h)]
        okm = len(hs0) == 1
        if okm:
            h0 = hs0[0]
            okm = all(h0 not in b.reach_set(sx, avoid={mk[0].bb}) for sx in b.succ[h0] if b.can_reach(sx, h0))
        ctx.check("R4-dirty-walk", "bitmap-call-unconditional", okm,
                  "IoBuffers::mark_dirty can finish an iteration (a slice the server wrote into) without marking it in the bitmap: "
                  "every page of the written range must be logged, whatever the log already contains", loc=mk[0].loc())
    # loop exits: only `rem == 0` and iterator exhaustion
    exits = []
    hs = v.loop_headers()
    loop = set()
    for h in hs:
        for u in b.reachable():
            if b.can_reach(h, u) and b.can_reach(u, h):
                loop.add(u)
    def is_rem_zero_test(u):
        op = b.term(u)[1]
        if op[0] == "k" or len(op[1]) != 1:
            return False
        sd = b.single_def(op[1][0])
        if not sd or sd[2] != "assign" or sd[4][0] != "bin" or sd[4][1] != "Eq":
            return False
        a, c = sd[4][2], sd[4][3]
        def root_name(x, d=0):
            if x[0] == "k" or len(x[1]) != 1 or d > 4:
                return None
            l = x[1][0]
            if b.names.get(l):
                return b.names[l]
            sd2 = b.single_def(l)
            if sd2 and sd2[2] == "assign" and sd2[4][0] == "use":
                return root_name(sd2[4][1], d + 1)
            return None
        for (x, y) in ((a, c), (c, a)):
            if root_name(x) == "rem" and y[0] == "k" and isinstance(y[1], dict) and y[1].get("v") == 0:
                return True
        return False
    for u in sorted(loop):
        if b.term(u)[0] == "switch":
            for (lab, t) in b.switch_edges(u):
                if t not in loop and b.term(t)[0] != "unreachable":
                    txt = vf.render(v.operand(b.term(u)[1], u, len(b.stmts(u))), b, short=True)[:160]
                    kind = "count-used-up" if is_rem_zero_test(u) and lab != 0 else ("chain-end" if txt.startswith("discr(") and "next(" in txt and lab == 0 else "other")
                    exits.append((kind, txt, lab))
    bad = [e for e in exits if e[0] == "other"]
    ctx.check("R4-dirty-walk", "loop-exits", len(exits) == 2 and not bad,
              "IoBuffers::mark_dirty leaves its loop on %s; it may stop only when the count is used up or the chain ends "
              "(a zero-length descriptor in the middle must not end the walk)" % exits, loc=b.loc(), detail=str(exits))


META = {
    "technique": "who-may-call, forwarding and amount-pairing rules over the transport MIR; loop-exit analysis of the dirty walk",
    "text": "Decides: only the slice allocators expose guest memory; the single consumer marks dirty exactly when asked, after the copy, the amount the "
            "copy reported, and marks the same amount used; consume_for_write/read are exact constant-flag forwarders; all VirtioFsWriter write "
            "methods use the write-side wrapper and no writer uses the read-side one; the dirty walk truncates like the allocator and stops only "
            "at count 0 or end of chain; the async file-read path marks what it marks used; nothing else calls IoBuffers::mark_dirty.",
    "note": "Not decided: page-granular minimality (no over-marking) beyond `amount = bytes written`; bitmap implementation of vm-memory.",
}
