"""C15 — handles and descriptors are released when the client releases them.

R1 raw fd ownership: every descriptor produced by open/openat/dup/open_by_handle_at is, on every non-error path,
   wrapped in an owning object (from_raw_fd) or closed
R2 borrowed descriptors: a File built over a descriptor that belongs to another object is wrapped in ManuallyDrop
   before any exit can drop it
R3 handle table discipline: release/get compare the stored inode before acting; do_release removes handle then cookie;
   destroy clears both tables
R4 per-request temporaries (no_open / no_opendir) are never inserted into the handle table; handle insertion in
   create is guarded by the negotiated toggle that release uses
R5 handle numbers come from the single counter
R6 lookup references (which pin inode objects and their descriptors) are returned or given back on every path (C08.R1/R2)
R3 (cont.) directory-position records are stored only under the runtime opendir mode; InodeMap/InodeStore clear empty every map
R6 (cont.) give-back on entry.inode (C08.R1)
R3 (cont.) every caller of HandleMap::get passes (handle, inode); do_release is called with (inode, handle); Vfs::destroy reaches every backend
"""
from pyfbr import core, vf
from rules import common

PFS = "passthrough::PassthroughFs"
HMAP = "passthrough::HandleMap"
FD_PRODUCERS = ("libc::open", "libc::open64", "libc::openat", "libc::openat64", "libc::dup", "libc::creat",
                "passthrough::file_handle::open_by_handle_at")
FD_CONSUMERS = ("from_raw_fd", "close")


def live_calls(b):
    r = b.reachable()
    return [c for c in b.calls() if c.bb in r and not b.is_cleanup(c.bb)]


def in_passthrough(k):
    return k.startswith("passthrough::") and "async_io" not in k


def run(ctx):
    ctx.explanation = (
        "Ownership and table-discipline rules over the passthrough filesystem: raw descriptors flow into an owner or close() "
        "on every non-error path; File objects built over borrowed descriptors cannot be dropped; handle-table operations "
        "compare the owning inode before acting and are the only place handles enter or leave the table; temporaries of the "
        "no_open/no_opendir modes never enter it.")
    F = ctx.facts("S") or ctx.facts("D")
    if F is None:
        return
    ctx.run_rule("R1-fd-ownership", r1_fd_ownership, F)
    ctx.run_rule("R2-borrowed-fd", r2_borrowed, F)
    ctx.run_rule("R3-handle-table", r3_table, F)
    ctx.run_rule("R4-temporaries", r4_temporaries, F)
    ctx.run_rule("R5-handle-numbers", r5_numbers, F)
    # inode objects (and their O_PATH descriptors) are released with their references: shared with C08
    from rules import c08
    ctx.run_rule("R6-reference-pairing", c08.r1_entry_pairing, F)
    ctx.run_rule("R6-reference-pairing", c08.r2_readdir, F)
    ctx.floor('R1-fd-ownership', 4)
    ctx.floor('R2-borrowed-fd', 3)
    ctx.floor('R3-handle-table', 30)
    ctx.floor('R4-temporaries', 5)
    ctx.floor('R5-handle-numbers', 3)
    ctx.floor("R1-entry-pairing", 14)
    ctx.floor("R2-readdir-pairing", 6)
    ctx.assumptions += ["RAII: owning objects (File, OwnedFd, Arc<HandleData>) close on drop",
                        "descriptor counts after arbitrary histories / injected EMFILE are not examined"]


def error_edge_targets(b, v, val):
    """Blocks entered on the 'descriptor is negative' edge of a test of val."""
    out = set()
    for u in b.reachable():
        t = b.term(u)
        if t[0] != "switch":
            continue
        c = v.operand(t[1], u, len(b.stmts(u)))
        if c[0] == "B" and c[1] in ("Lt", "Ge", "Eq", "Ne", "Le", "Gt"):
            a, k = c[2], c[3]
            if k[0] == "K" and (vf.strip_casts(a) == vf.strip_casts(val) or any(x == val for x in vf.walk(a))):
                for (lab, tgt) in b.switch_edges(u):
                    truth = (lab != 0)
                    neg = (c[1] == "Lt" and k[1] == 0 and truth) or (c[1] == "Ge" and k[1] == 0 and not truth) or \
                          (c[1] == "Eq" and k[1] == -1 and truth) or (c[1] == "Ne" and k[1] == -1 and not truth) or \
                          (c[1] == "Le" and k[1] == -1 and truth) or (c[1] == "Gt" and k[1] == -1 and not truth)
                    if neg:
                        out.add(tgt)
    return out


def r1_fd_ownership(ctx, F):
    n = 0
    for k, b in sorted(F.fns.items()):
        if not in_passthrough(k):
            continue
        v = None
        for c in live_calls(b):
            if (c.fn or "") not in FD_PRODUCERS:
                continue
            n += 1
            ctx.fn_seen(b)
            v = v or vf.VF(b)
            val = v.call_expr(c)
            cons = set()
            for d in live_calls(b):
                if d.name in FD_CONSUMERS and d is not c:
                    for a in v.call_args(d):
                        if vf.strip_casts(a) == vf.strip_casts(val) or any(x == val for x in vf.walk(a)):
                            cons.add(d.bb)
            # returned to the caller as a raw descriptor (wrapper functions): accepted when the function's result is the fd
            rets = set(b.return_blocks())
            errs = error_edge_targets(b, v, val)
            start = c.target
            leak = False
            if start is not None:
                reach = b.reach_set(start, avoid=cons | errs) if start not in cons | errs else set()
                leak = bool(reach & rets)
            if leak:
                # a wrapper that hands the descriptor itself back (e.g. the extern declaration shim) is not a leak
                r = v.ret()
                if any(x == val for x in vf.walk(r)) and b.name in ("open_by_handle_at",):
                    leak = False
            name = b.name if b.kind != "closure" else F.fns[b.owner].name + "/closure"
            ctx.check("R1-fd-ownership", "%s/%s#%d" % (name, c.fn.rsplit("::", 1)[-1], sum(1 for x in live_calls(b) if x.fn == c.fn and x.bb < c.bb)), not leak,
                      "%s: the descriptor returned by %s is neither wrapped in an owner nor closed on a non-error path" % (name, c.fn), loc=c.loc())
    ctx.check("R1-fd-ownership", "producers", n >= 4, "only %d raw descriptor producers found in passthrough" % n)


def r2_borrowed(ctx, F):
    """File::from_raw_fd(x) with x = as_raw_fd(..) of another owner: every path from the construction to a return
    passes through ManuallyDrop::new / mem::forget / into_raw_fd of that File."""
    n = 0
    for k, b in sorted(F.fns.items()):
        if not in_passthrough(k):
            continue
        v = None
        for c in live_calls(b):
            if c.name != "from_raw_fd" or not ("std::fs::File" in (c.fn or "") or "File" in (c.res or c.fn or "")):
                continue
            v = v or vf.VF(b)
            a = v.call_args(c)[0]
            a0 = vf.strip_casts(a)
            borrowed = a0[0] == "C" and a0[1].endswith("as_raw_fd")
            if not borrowed:
                continue
            n += 1
            ctx.fn_seen(b)
            fval = v.call_expr(c)
            safe = set()
            for d in live_calls(b):
                if d.name in ("new",) and "ManuallyDrop" in (d.fn or "") or d.name in ("forget", "into_raw_fd"):
                    if any(x == fval for x in vf.walk(v.call_args(d)[0])):
                        safe.add(d.bb)
            rets = set(b.return_blocks())
            reach = b.reach_set(c.target, avoid=safe) if c.target is not None and c.target not in safe else set()
            bad = sorted(reach & rets)
            # which calls can fail in between (for the report)
            between = sorted(set(x.name for x in live_calls(b) if x.bb in reach and x.name not in ("branch", "from_residual", "as_raw_fd", "clone", "deref")))
            name = b.name if b.kind != "closure" else F.fns[b.owner].name + "/closure"
            ctx.check("R2-borrowed-fd", name, not bad,
                      "%s builds a File over a borrowed descriptor and can return before wrapping it in ManuallyDrop (after %s): "
                      "dropping it closes a descriptor another object still owns" % (name, between[:6]), loc=c.loc())
    ctx.check("R2-borrowed-fd", "sites", n >= 2, "only %d borrowed-descriptor File constructions found" % n)


def r3_table(ctx, F):
    # HandleMap::release: removal only where the stored inode equals the caller's
    b = F.method(HMAP, "release")
    ctx.fn_seen(b)
    v = vf.VF(b)
    rm = [c for c in live_calls(b) if c.name in ("remove", "remove_entry")]
    ok = len(rm) == 1
    if ok:
        g = [(vf.render(cond, b, short=True), lab) for (cond, lab, u) in v.guards(rm[0].bb)]
        ok = any(t.startswith("Eq(") and ".inode" in t and "inode)" in t and lab != 0 for (t, lab) in g)
    ctx.check("R3-handle-table", "release/inode-checked", ok,
              "HandleMap::release removes a handle without first comparing its inode with the caller's: a release naming the wrong inode destroys someone else's handle",
              loc=b.loc())
    r = vf.render(v.ret(), b, short=True, vfx=v)
    ctx.check("R3-handle-table", "release/ebadf", "EBADF" in r or "ebadf" in r, "HandleMap::release no longer reports EBADF for a foreign handle", loc=b.loc())
    # HandleMap::get filters by inode
    b = F.method(HMAP, "get")
    ctx.fn_seen(b)
    fl = [c for c in live_calls(b) if c.name == "filter"]
    ok = len(fl) == 1
    if ok:
        cl = [x for x in F.closures_of(b.key)]
        ok = any("Eq(" in vf.render(vf.VF(x).ret(), x, short=True) and "inode" in vf.render(vf.VF(x).ret(), x, short=True) for x in cl)
    ctx.check("R3-handle-table", "get/inode-checked", ok, "HandleMap::get hands out a handle without comparing its inode", loc=b.loc())
    # do_release: release then remove_cookie, cookie only after a successful release
    b = F.method(PFS, "do_release")
    ctx.fn_seen(b)
    v = vf.VF(b, inline_depth=0)
    rl = [c for c in live_calls(b) if c.name == "release"]
    rc = [c for c in live_calls(b) if c.name == "remove_cookie"]
    ok = len(rl) == 1 and len(rc) == 1 and b.dominates(rl[0].bb, rc[0].bb)
    if ok:
        a1, a2 = v.call_args(rl[0]), v.call_args(rc[0])
        ok = a1[1] == ("P", b.param_index("handle")) and a1[2] == ("P", b.param_index("inode")) and a2[1] == ("P", b.param_index("handle"))
    ctx.check("R3-handle-table", "do_release/sequence", ok, "do_release is not `release(handle, inode)?; remove_cookie(handle)`", loc=b.loc())
    # destroy clears handle table (handles + cookies) and inode table
    ds = [x for x in F.find(name="destroy", self_adt=PFS) if x.trait == common.FS_TRAIT]
    if len(ds) != 1:
        raise core.Anchor("PassthroughFs::destroy")
    d = ds[0]
    v = vf.VF(d, inline_depth=0)
    cl = sorted(vf.render(v.call_args(c)[0], d, short=True) for c in live_calls(d) if c.name == "clear")
    ctx.check("R3-handle-table", "destroy/clears", cl == ["self.handle_map", "self.inode_map"], "destroy clears %s, required the handle and inode tables" % cl, loc=d.loc())
    hc = F.method(HMAP, "clear")
    v = vf.VF(hc, inline_depth=0)
    n = len([c for c in live_calls(hc) if c.name == "clear"])
    ctx.check("R3-handle-table", "clear/both", n == 2, "HandleMap::clear clears %d of its 2 tables (handles, cookies)" % n, loc=hc.loc())
    # the inode table's clear empties the store, and the store's clear empties each of its three maps
    im = F.method("passthrough::InodeMap", "clear")
    ctx.fn_seen(im)
    iv = vf.VF(im, inline_depth=0)
    t = [vf.render(iv.call_args(c)[0], im, short=True) for c in live_calls(im) if c.name == "clear"]
    ctx.check("R3-handle-table", "clear/inode-map", len(t) == 1 and "self.inodes" in t[0], "InodeMap::clear clears %s, not the store behind self.inodes" % t, loc=im.loc())
    st = F.method("passthrough::inode_store::InodeStore", "clear")
    ctx.fn_seen(st)
    sv = vf.VF(st, inline_depth=0)
    t = sorted(vf.render(sv.call_args(c)[0], st, short=True) for c in live_calls(st) if c.name == "clear")
    fields = sorted("self." + f["name"] for f in F.structs["passthrough::inode_store::InodeStore"]["fields"])
    ctx.check("R3-handle-table", "clear/inode-store", t == fields, "InodeStore::clear clears %s; the store's maps are %s" % (t, fields), loc=st.loc())
    # every lookup of a handle names (handle, inode) in that order: the table compares the stored inode with the second argument
    ng = 0
    for fb in F.fns.values():
        if not in_passthrough(fb.key) or fb.self_adt == HMAP:
            continue
        for c in live_calls(fb):
            if c.name == "get" and (c.self_adt == HMAP or (c.callee or "").endswith("HandleMap>::get")):
                ng += 1
                fv = vf.VF(fb, inline_depth=0)
                a = [vf.render(x, fb, short=True) for x in fv.call_args(c)][1:]
                okh = len(a) == 2 and ("handle" in a[0] or a[0] in ("h", "fh")) and a[1] == "inode"
                ctx.check("R3-handle-table", "get-callers/%s#%d" % (fb.name, ng), okh, "%s looks a handle up as HandleMap::get(%s); required (handle, inode)" % (fb.name, ", ".join(a)), loc=c.loc())
    ctx.check("R3-handle-table", "get-callers", ng >= 2, "only %d callers of HandleMap::get found" % ng)
    release_toggles(ctx, F, "R3-handle-table")
    from rules import c12
    c12.vfs_destroy(ctx, F, "R3-handle-table")
    c12.configured_toggle_readers(ctx, F, "R3-handle-table")

    # directory-position records exist only in opendir mode: where no RELEASEDIR ever arrives (runtime no_opendir, which is not the
    # configured flag: init also sets it when the backend sits below a vfs), nothing would remove them again
    n = 0
    for fb in F.fns.values():
        if not in_passthrough(fb.key) or fb.self_adt == HMAP:
            continue
        for c in live_calls(fb):
            if c.name == "set_cookie" and c.self_adt == HMAP or (c.name == "set_cookie" and (c.callee or "").startswith("passthrough::")):
                n += 1
                fv = vf.VF(fb, inline_depth=0)
                g = [(vf.render(cond, fb, short=True), lab) for (cond, lab, u) in fv.guards(c.bb)]
                need = ("Atomic::load(self.no_opendir, Relaxed)", 0)
                ok = need in g
                if not ok:
                    # or every caller of this helper tests it
                    sites = [(ob, oc) for ob in F.fns.values() if in_passthrough(ob.key) for oc in live_calls(ob) if oc.callee == fb.key]
                    ok = bool(sites) and all(need in [(vf.render(cond, ob, short=True), lab) for (cond, lab, u) in vf.VF(ob, inline_depth=0).guards(oc.bb)] for (ob, oc) in sites)
                ctx.check("R3-handle-table", "cookie-record/%s/opendir-mode-only" % fb.name, ok,
                          "%s stores a directory-position record without testing the negotiated no_opendir state (guards: %s): with no_opendir in force "
                          "there is no RELEASEDIR to remove it" % (fb.name, [t[:60] for (t, l) in g][:3]), loc=c.loc())
    ctx.check("R3-handle-table", "cookie-record/writers", n >= 1, "no caller of HandleMap::set_cookie found", loc=b.loc())


def release_toggles(ctx, F, rule):
    """release/releasedir route to do_release under their own negotiated toggle (shared with C12)."""
    for nm, tog in (("release", "no_open"), ("releasedir", "no_opendir")):
        m = [x for x in F.find(name=nm, self_adt=PFS) if x.trait == common.FS_TRAIT][0]
        v = vf.VF(m, inline_depth=0)
        dr = [c for c in live_calls(m) if c.name == "do_release"]
        ok = len(dr) == 1
        if ok:
            g = [(vf.render(cond, m, short=True), lab) for (cond, lab, u) in v.guards(dr[0].bb)]
            ok = any("self.%s," % tog in t and lab == 0 for (t, lab) in g) and not any("self.no_open" in t and "self.%s," % tog not in t for (t, lab) in g)
            ok = ok and [vf.render(x, m, short=True) for x in v.call_args(dr[0])][1:] == ["inode", "handle"]
        ctx.check(rule, "%s/toggle" % nm, ok, "%s does not release the handle exactly when `%s` is off" % (nm, tog), loc=m.loc())


def r4_temporaries(ctx, F):
    # callers of HandleMap::insert
    ins = F.method(HMAP, "insert")
    callers = []
    for k, b in F.fns.items():
        if not in_passthrough(k):
            continue
        for c in live_calls(b):
            if c.fn == ins.key:
                callers.append((b, c))
    names = sorted(set((b.name if b.kind != "closure" else F.fns[b.owner].name) for (b, c) in callers))
    ctx.check("R4-temporaries", "insert-callers", names == ["create", "do_open"], "handles are inserted by %s; only do_open and create may" % names)
    for nm in ("get_data", "get_dirdata"):
        b = F.method(PFS, nm)
        ctx.fn_seen(b)
        bad = [c for c in live_calls(b) if c.name == "insert"]
        ctx.check("R4-temporaries", nm + "/not-inserted", not bad, "%s inserts its per-request temporary into the handle table" % nm, loc=b.loc())
    # create: insertion guarded by the negotiated no_open atomic (the same toggle release tests)
    for (b, c) in callers:
        owner = b if b.kind != "closure" else F.fns[b.owner]
        if owner.name != "create":
            continue
        v = vf.VF(b, inline_depth=0)
        g = [(vf.render(cond, b, short=True), lab) for (cond, lab, u) in v.guards(c.bb)]
        ok = any("load(self.no_open" in t.replace("^", "") and ((lab == 0 and not t.startswith("Not(")) or (lab != 0 and t.startswith("Not("))) for (t, lab) in g)
        ctx.check("R4-temporaries", "create/toggle", ok,
                  "create inserts a handle under `%s`; it must be the negotiated no_open switch that release also tests, "
                  "otherwise the handle can never be released" % [t for (t, l) in g if "no_open" in t], loc=c.loc())
    # do_open is only reached when the toggle is off: open -> !no_open, opendir -> !no_opendir
    for nm, tog in (("open", "no_open"), ("opendir", "no_opendir")):
        m = [x for x in F.find(name=nm, self_adt=PFS) if x.trait == common.FS_TRAIT][0]
        v = vf.VF(m, inline_depth=0)
        dr = [c for c in live_calls(m) if c.name == "do_open"]
        ok = len(dr) == 1
        if ok:
            g = [(vf.render(cond, m, short=True), lab) for (cond, lab, u) in v.guards(dr[0].bb)]
            ok = any("self.%s" % tog in t and lab == 0 for (t, lab) in g)
        ctx.check("R4-temporaries", "%s/toggle" % nm, ok, "%s opens a handle although `%s` may be on (the client will never release it)" % (nm, tog), loc=m.loc())


def r5_numbers(ctx, F):
    ins = F.method(HMAP, "insert")
    n = 0
    for k, b in F.fns.items():
        if not in_passthrough(k):
            continue
        v = None
        for c in live_calls(b):
            if c.fn == ins.key:
                v = v or vf.VF(b, inline_depth=0)
                n += 1
                t = vf.render(v.call_args(c)[1], b, short=True)
                ctx.check("R5-handle-numbers", "%s#%d" % (b.name, n), "fetch_add(self.next_handle" in t.replace("^", ""),
                          "%s inserts handle number `%s`, not one drawn from next_handle" % (b.name, t[:100]), loc=c.loc(), detail=t[:80])
    ctx.check("R5-handle-numbers", "sites", n >= 2, "only %d handle insertions found" % n)


META = {
    "technique": "ownership/pairing dataflow over MIR (descriptor producer -> owner or close on all non-error paths; no exit between borrowed-File creation and ManuallyDrop), dominance of inode comparison over table removal, who-may-call for table insertion",
    "text": "Decides: every raw descriptor obtained in passthrough code is owned or closed on each non-error path; a File over a borrowed descriptor "
            "cannot be dropped (no exit before ManuallyDrop); the handle table removes/hands out a handle only after comparing its inode; "
            "do_release/destroy sequences; only do_open/create insert handles, with counter-drawn numbers, under the negotiated toggles; "
            "per-request temporaries never enter the table; directory-position records are stored only under the negotiated (runtime) opendir mode.",
    "note": "Not decided: descriptor counts after arbitrary histories or injected EMFILE; liveness of inode objects (C08).",
}
META["text"] += " " + 'Also: directory-position records only in opendir mode; clear() empties every map; give-back on entry.inode.'
