"""C01 — untrusted request bytes never crash the server nor corrupt the reply stream.

R1 reply typestate per handler (at most one reply; exactly one after the filesystem answered; none for no-reply opcodes)
R2 FORGET/BATCH_FORGET never answer (handlers and the oversize gate)
R3 request-controlled allocation sizes are bounded before the allocation
R4 inventory of potential panic sites on the request path (frozen, reviewed)
R5 inventory of unsafe operations on the request path + length operands of raw copies
R6 one message, one write (reply_ok / do_reply_error / FuseDevWriter::commit)
R7 reply frame fields (len, unique, error)
R8 every appending writer method is dominated by a refusing space check (shared with C04)
R9 the pre-dispatch id remap cannot fail silently
R3-layout (shared with C12.R3) the INIT compat replies cut the slice at the size of the array they fill (the reviewed `unwrap()`s cannot fail); R3-split (shared with C04) the header/body split of a reply buffer cuts inside the buffer that holds the split point
R6 (cont.) the result of every write a reply helper issues is propagated (`?` or returned)
"""
import json
import re
import os

from pyfbr import core, vf
from rules import common
from rules import c04

TABLE = os.path.join(core.VERIF, "tables", "request_path.json")
REPLY_FNS = ("reply_ok", "reply_error", "reply_error_explicit", "do_reply_error", "handle_attr_result")
NO_REPLY = {"Forget": "FUSE_FORGET has no reply", "BatchForget": "FUSE_BATCH_FORGET has no reply",
            "Interrupt": "FUSE_INTERRUPT has no reply of its own"}
OPTIONAL_REPLY = {"NotifyReply": "the kernel sends FUSE_NOTIFY_REPLY with noreply set; only an error is reported"}


def live_calls(b):
    r = b.reachable()
    return [c for c in b.calls() if c.bb in r and not b.is_cleanup(c.bb)]


def in_scope(k):
    return (k.startswith("api::server") or (k.startswith("transport::") and "linux_session" not in k)
            or k in ("bytes_to_cstr", "encode_io_error_kind") or k.startswith("common::file_buf"))


def run(ctx):
    ctx.explanation = (
        "Structural clauses decided on every path of Server::handle_message, its handlers and the transport code they use: "
        "a reply typestate automaton over each handler's CFG (closures that reply on the error arm of `?` included), the "
        "no-reply opcodes, dominance of a bound over every request-controlled allocation, a reviewed inventory of every "
        "potential panic site and unsafe operation on the request path, single-write framing of replies and the refusing "
        "space check before every buffer write.")
    F = ctx.facts("S") or ctx.facts("D")
    if F is None:
        return
    table = json.load(open(TABLE))
    ctx.run_rule("R1-reply-typestate", r1_typestate, F, table)
    ctx.run_rule("R2-forget-silent", r2_forget, F)
    ctx.run_rule("R3-bounded-alloc", r3_alloc, F, table)
    ctx.run_rule("R4-panic-inventory", r4_panics, F, table)
    ctx.run_rule("R5-unsafe-inventory", r5_unsafe, F, table)
    ctx.run_rule("R6-one-write", r6_one_write, F)
    ctx.run_rule("R7-frame", r7_frame, F)
    ctx.run_rule("R7-frame-error", r7_error, F)
    ctx.run_rule("R8-space-check", c04.r3_space_check, F)
    ctx.counts["R8-space-check"] = ctx.counts.get("R3-space-check", 0)
    ctx.run_rule("R9-remap", r9_remap, F)
    A_ = ctx.facts("A", required=False)
    if A_ is not None:
        ctx.run_rule("R2-forget-silent", r2_forget_async, A_)
    # reviewed `unwrap()`s of the INIT compat replies rest on slice length == array length (C12.R3); the header/body split of
    # a reply buffer must cut at the remainder inside the buffer that holds the split point (C04.R3-split)
    from rules import c12
    vf.NOUPD[0] = True
    try:
        ctx.run_rule("R3-layout", c12.r3_layout, F, json.load(open(c12.TABLE)))
    finally:
        vf.NOUPD[0] = False
    ctx.run_rule("R3-split", c04.r3_split, F)
    ctx.assumptions += ["no undefined behaviour inside vm-memory/nix/std", "the filesystem behind the trait is out of scope",
                        "delivery by the kernel is out of scope"]


# ------------------------------------------------------------------ R1

class ReplyFlow:
    """Forward dataflow over a handler: states are (replies capped at 2, fs_called, result tag)."""

    def __init__(self, F):
        self.F = F
        self.summ = {}

    def closure_replies(self, F, key):
        b = F.fns.get(key)
        if b is None:
            return 0
        n = 0
        for c in live_calls(b):
            if c.name in REPLY_FNS and c.self_adt == common.SRVCTX:
                n += 1
        return n

    def events(self, b):
        """{bb: ('reply', n) | ('fs',) | ('helper', key)} and {(switch_bb, target): n} edge events."""
        F = self.F
        ev = {}
        edge_ev = {}
        v = vf.VF(b)
        for c in live_calls(b):
            if c.name in REPLY_FNS and c.self_adt == common.SRVCTX:
                ev[c.bb] = ("reply", 1)
            elif c.name == "commit" and (c.self_adt or "").endswith("Writer") and b.self_adt == common.SERVER:
                ev[c.bb] = ("reply", 1)
            elif c.trait == common.FS_TRAIT:
                ev[c.bb] = ("fs",)
            elif c.self_adt == common.SERVER and c.local and c.fn in F.fns and c.fn != b.key:
                callee = F.fns[c.fn]
                if callee.argc >= 2 and callee.local_ty(2).startswith("api::server::SrvContext<"):
                    ev[c.bb] = ("helper", c.fn)
            elif c.name == "map_err" and len(c.args) == 2:
                # x.map_err(|e| { reply...; e })?  : the closure's reply happens on the Err arm only
                a1 = v.call_args(c)[1]
                if a1[0] == "CL":
                    n = self.closure_replies(F, a1[1])
                    if n:
                        # find the Try::branch consuming this result and its Break edge
                        tgt = c.target
                        hops = 0
                        while tgt is not None and hops < 4:
                            cc = b.call_at(tgt)
                            if cc is not None and cc.name == "branch":
                                sw = cc.target
                                if sw is not None and b.term(sw)[0] == "switch":
                                    for (lab, t) in b.switch_edges(sw):
                                        if lab == 1:
                                            edge_ev[(sw, t)] = n
                                break
                            t = b.term(tgt)
                            tgt = t[1] if t[0] == "goto" else None
                            hops += 1
                        else:
                            ev[c.bb] = ("reply", n)     # shape not recognised: count it unconditionally
        return ev, edge_ev

    def result_tag(self, b, bb):
        """Tag set by statements/terminator of bb assigning the return place."""
        tag = None
        for s in b.stmts(bb):
            if s[0] == "=" and s[1] == [0]:
                rv = s[2]
                if rv[0] == "agg" and rv[1].get("k") == "adt" and rv[1]["adt"].endswith("Result"):
                    tag = "Ok" if rv[1]["variant"] == "Ok" else "Err"
                else:
                    tag = "other"
        t = b.term(bb)
        if t[0] == "call" and t[1]["dest"] == [0]:
            c = b.call_at(bb)
            if c.name == "from_residual":
                tag = "Err"
            elif c.name in REPLY_FNS or (c.self_adt == common.SERVER):
                tag = "Reply"
            else:
                tag = "other"
        return tag

    def analyse(self, b):
        ev, edge_ev = self.events(b)
        states = {0: {(0, False, None)}}
        work = [0]
        while work:
            bb = work.pop()
            out = set()
            for (n, fs, tag) in states.get(bb, ()):
                e = ev.get(bb)
                t2 = self.result_tag(b, bb) or tag
                outs = [(n, fs, t2)]
                if e:
                    if e[0] == "reply":
                        outs = [(min(2, n + e[1]), fs, t2)]
                    elif e[0] == "fs":
                        outs = [(n, True, t2)]
                    elif e[0] == "helper":
                        hs = self.summary(e[1])
                        to_ret = b.term(bb)[0] == "call" and b.term(bb)[1]["dest"] == [0]
                        outs = [(min(2, n + k), fs or f2, (tg if to_ret else t2)) for (k, f2, tg) in hs]
                for st in outs:
                    out.add(st)
            for s in b.succ[bb]:
                add = edge_ev.get((bb, s), 0)
                new = set((min(2, n + add), fs, tag) for (n, fs, tag) in out)
                if not new <= states.get(s, set()):
                    states.setdefault(s, set()).update(new)
                    work.append(s)
        rets = set()
        for r in b.return_blocks():
            for st in states.get(r, ()):
                # the return block's own statements were applied on exit; recompute tag
                rets.add(st)
        # states are recorded at block entry; apply the return block's transfer
        final = set()
        for r in b.return_blocks():
            for (n, fs, tag) in states.get(r, ()):
                final.add((n, fs, self.result_tag(b, r) or tag))
        return final

    def summary(self, key):
        if key not in self.summ:
            self.summ[key] = {(0, False, None)}
            self.summ[key] = set(self.analyse(self.F.fns[key]))
        return self.summ[key]


def r1_typestate(ctx, F, table):
    flow = ReplyFlow(F)
    b0, v0, disp, _ = common.dispatch_table(F)
    for op, arms in sorted(disp.items()):
        hname = arms[0][0]
        hs = [h for h in F.find(name=hname, self_adt=common.SERVER) if h.kind == "assoc"]
        if len(hs) != 1:
            raise core.Anchor("handler Server::%s" % hname)
        h = hs[0]
        ctx.fn_seen(h)
        fin = flow.analyse(h)
        counts = sorted(set(n for (n, _, _) in fin))
        ctx.check("R1-reply-typestate", op + "/at-most-one", max(counts) <= 1,
                  "a path through Server::%s emits more than one reply" % hname, loc=h.loc(), detail=str(counts))
        if op in NO_REPLY:
            ctx.check("R1-reply-typestate", op + "/never", counts == [0],
                      "Server::%s can answer although %s" % (hname, NO_REPLY[op]), loc=h.loc())
            continue
        if op in OPTIONAL_REPLY:
            ctx.ok("R1-reply-typestate", op + "/optional", OPTIONAL_REPLY[op], nontrivial=False)
            continue
        after_fs = sorted(set(n for (n, fs, _) in fin if fs))
        # after the filesystem answered: exactly one reply, except when the reply itself failed to encode (Err returned)
        bad_fs = sorted(set((n, tag) for (n, fs, tag) in fin if fs and not (n == 1 or (n == 0 and tag == "Err"))))
        ctx.check("R1-reply-typestate", op + "/exactly-one-after-fs", not bad_fs and 1 in after_fs,
                  "Server::%s: after the filesystem was called some path returns with (replies, result) = %s (exactly one reply is required)"
                  % (hname, bad_fs or after_fs), loc=h.loc(), detail=str(after_fs))
        silent_ok = [(n, fs, tag) for (n, fs, tag) in fin if n == 0 and tag == "Ok"]
        ctx.check("R1-reply-typestate", op + "/no-silent-ok", not silent_ok,
                  "Server::%s can return Ok without having replied: the client would wait forever" % hname, loc=h.loc())
    # handle_message itself: the catch-all and the oversize arm reply exactly once
    ctx.floor("R1-reply-typestate", 120)
    ctx.sample({"typestate": "states = (replies, fs_called, result); e.g. lookup", "lookup": sorted(str(x) for x in flow.analyse(F.method(common.SERVER, "lookup")))})


# ------------------------------------------------------------------ R2

def r2_forget(ctx, F):
    for nm in ("forget", "batch_forget"):
        h = F.method(common.SERVER, nm)
        ctx.fn_seen(h)
        bodies = [h] + F.closures_of(h.key)
        bad = []
        for b in bodies:
            for c in live_calls(b):
                if (c.name in REPLY_FNS and c.self_adt == common.SRVCTX) or c.name in ("commit", "write_all", "write", "write_vectored") and "Writer" in (c.self_adt or c.self_ty or ""):
                    bad.append(c)
        ctx.check("R2-forget-silent", nm, not bad, "Server::%s contains a reply (%s)" % (nm, [c.name for c in bad]), loc=(bad[0].loc() if bad else h.loc()))
    b = F.method(common.SERVER, "handle_message")
    v = vf.VF(b)
    sites = [c for c in live_calls(b) if c.name in REPLY_FNS and c.self_adt == common.SRVCTX]
    for c in sites:
        pos, neg = common.opcode_guards(v, c.bb)
        # a reply in handle_message is either under the false edges of both forget opcodes, or in the catch-all
        ok = ("Forget" in neg and "BatchForget" in neg)
        ctx.check("R2-forget-silent", "handle_message@%s" % ("oversize" if "Lookup" not in neg else "catch-all"), ok,
                  "handle_message can reply to FORGET/BATCH_FORGET: the reply at line %s is not excluded for both opcodes (excluded: %s)"
                  % (c.line, sorted(set(neg))[:6]), loc=c.loc())
    ctx.check("R2-forget-silent", "handle_message/sites", len(sites) == 2, "handle_message has %d direct reply sites, expected 2 (oversize refusal, unknown opcode)" % len(sites), loc=b.loc())


def r2_forget_async(ctx, A):
    """The async dispatcher: every reply it issues itself (oversize / short-buffer refusal, unknown opcode) is excluded for FORGET and
    BATCH_FORGET, like in handle_message."""
    from rules.c20 import async_frame
    ha = A.method(common.SERVER, "async_handle_message")
    body, va = async_frame(A, ha)
    sites = [c for c in live_calls(body) if c.self_adt == common.SRVCTX and ("reply" in c.name)]
    for c in sites:
        pos, neg = common.opcode_guards(va, c.bb)
        ok = ("Forget" in neg and "BatchForget" in neg)
        ctx.check("R2-forget-silent", "async_handle_message@%s" % ("refusal" if "Lookup" not in neg else "catch-all"), ok,
                  "async_handle_message can reply to FORGET/BATCH_FORGET: the reply at line %s is not excluded for both opcodes (excluded: %s)" % (c.line, sorted(set(neg))[:6]), loc=c.loc())
    ctx.check("R2-forget-silent", "async_handle_message/sites", len(sites) >= 2, "async_handle_message has %d direct reply sites, expected the refusal(s) and the unknown-opcode reply" % len(sites), loc=ha.loc())


# ------------------------------------------------------------------ R3

ALLOC = ("with_capacity", "from_elem", "set_len", "reserve", "resize", "reserve_exact")


def request_fields(e):
    """Request-derived leaves of an expression: fields of decoded structs / header."""
    out = set()
    for x in vf.walk(e):
        if x[0] == "F":
            base = x[1]
            if base[0] == "F" and base[2] == "0" and base[1][0] == "V" and base[1][2] == "Ok":
                out.add(x)
            elif base[0] == "F" and base[2] == "in_header":
                out.add(x)
            elif base[0] == "P" and x[2] in ("len", "count", "size", "in_size"):
                out.add(x)
    return out


def r3_alloc(ctx, F, table):
    rows = table["allocations"]
    seen = set()
    for k, b in sorted(F.fns.items()):
        if not (k.startswith("api::server") and "async_io" not in k):
            continue
        v = None
        for c in live_calls(b):
            if c.name not in ALLOC:
                continue
            if not ((c.fn or "").startswith("std::vec") or (c.fn or "").startswith("alloc::vec")):
                continue
            v = v or vf.VF(b)
            args = v.call_args(c)
            size = args[-1] if c.name != "from_elem" else args[1]
            if c.name == "set_len":
                size = args[1]
            flds = request_fields(size)
            name = b.name if b.kind != "closure" else (F.fns[b.owner].name + "/closure")
            key = "%s/%s" % (name, c.name)
            seen.add(key)
            if not flds and size[0] == "K":
                ctx.ok("R3-bounded-alloc", key, "constant size", nontrivial=False)
                continue
            row = rows.get(key)
            if row is None:
                ctx.violation("R3-bounded-alloc", key, "allocation of request-controlled size `%s` in %s is not in the reviewed table"
                              % (vf.render(size, b, short=True)[:160], b.name), loc=c.loc())
                continue
            if row.get("kind") == "checked-sub-of-header-len":
                t = vf.render(size, b, short=True)
                cl = [vf.render(vf.VF(x).ret(), x, short=True) for x in F.closures_of(b.key)]
                ok = "checked_sub" in t and ".len" in t and "Sub(" not in t and "Add(" not in t and "Mul(" not in t \
                    and all("checked_sub" in y for y in cl)
                ctx.check("R3-bounded-alloc", key, ok,
                          "%s: the body length `%s` is no longer derived from header.len by checked subtraction only" % (b.name, t[:200]), loc=c.loc(), detail=t[:120])
                continue
            # a dominating comparison of the same request field against a bound, on the bounding edge
            gs = v.guards(c.bb)
            found = None
            for (cond, lab, u) in gs:
                if cond[0] == "B" and cond[1] in ("Gt", "Ge", "Lt", "Le"):
                    cf = request_fields(cond)
                    if cf & flds or (not flds and cf):
                        # Gt/Ge(size, bound) must be on the false edge; Lt/Le on the true edge
                        # guards are in normal form: always `Lt/Le(a, b)` on the true edge; an upper bound has the request value on the left
                        lhs_has = bool(request_fields(cond[2]))
                        upper = cond[1] in ("Lt", "Le") and lhs_has and lab != 0
                        if upper:
                            found = cond
            if found is None:
                # the bound may be applied as `checked_op(..).filter(|&n| n <= LIMIT)` on the way to the allocation
                cands_ = list(vf.walk(size))
                for (cond_, lab_, u_) in gs:
                    if request_fields(cond_) & flds or (not flds and request_fields(cond_)):
                        cands_ += list(vf.walk(cond_))
                for x in cands_:
                    if x[0] == "C" and x[1].endswith("Option::<T>::filter") and len(x[3]) == 2 and x[3][1][0] == "CL" and x[3][1][1] in F.fns:
                        cb = F.fns[x[3][1][1]]
                        t = vf.render(vf.VF(cb, inline_depth=0).ret(), cb, short=True)
                        pn = cb.local_name(2) if cb.argc >= 2 else ""
                        if re.match(r"(Le|Lt)\(\*?%s, " % re.escape(pn), t) or re.match(r"(Le|Lt)\((size|_2), ", t):
                            found = ("KS", "filter(%s)" % t, "")
            ctx.check("R3-bounded-alloc", key, found is not None,
                      "%s allocates `%s` bytes/elements from the request without a dominating upper bound on that value"
                      % (b.name, vf.render(size, b, short=True)[:120]), loc=c.loc(),
                      detail=vf.render(found, b, short=True)[:160] if found else "")
            if found is not None:
                ctx.sample({"allocation": key, "size": vf.render(size, b, short=True)[:100], "bound": vf.render(found, b, short=True)[:160]})
    for key in rows:
        ctx.check("R3-bounded-alloc", "listed/" + key, key in seen, "allocation site %s of the table no longer exists" % key)
    ctx.floor("R3-bounded-alloc", 8)


# ------------------------------------------------------------------ R4

PANICKY_FN = {
    "unwrap": ("std::option::Option", "std::result::Result"), "expect": ("std::option::Option", "std::result::Result"),
    "unwrap_err": ("std::result::Result",), "index": ("std::ops::Index", "<"), "index_mut": ("std::ops::IndexMut", "<"),
    "split_at": ("core::slice", "std::slice", "impl [T]"), "split_at_mut": ("core::slice", "std::slice"),
    "copy_from_slice": ("core::slice", "std::slice"), "from_elem": ("std::vec", "alloc::vec"),
    "panic_fmt": ("core::panicking", "std::rt"), "panic": ("core::panicking",), "begin_panic": ("std::",),
    "unreachable_display": ("core::panicking",), "assert_failed": ("core::panicking",),
}


def panic_sites(F, b, v):
    """[(kind, line)] of potential panic sites in body b, constant-only arithmetic excluded."""
    out = []
    for bb in sorted(b.reachable()):
        if b.is_cleanup(bb):
            continue
        t = b.term(bb)
        if t[0] == "assert":
            kind = t[3]
            if kind in ("misaligned", "nullptr"):
                continue        # debug-build pointer checks inserted by rustc, not source-level panics
            ops = t[6]
            vals = [v.operand(o, bb, len(b.stmts(bb))) for o in ops]
            if vals and all(x[0] == "K" or (x[0] == "C" and "size_of" in x[1]) or (x[0] == "CAST" and x[1][0] == "K") for x in vals):
                continue        # constant operands: cannot depend on the request
            out.append(("assert:" + kind, t[-1]))
        elif t[0] == "call":
            c = b.call_at(bb)
            pre = PANICKY_FN.get(c.name)
            if pre and not c.exp:
                full = (c.res or c.fn or "")
                if any(p in full for p in pre) or c.trait in ("std::ops::Index", "std::ops::IndexMut"):
                    out.append(("call:" + c.name, c.line))
            elif c.name in ("panic_fmt", "panic", "assert_failed", "panic_display", "unreachable_display") and "panicking" in (c.fn or ""):
                out.append(("call:panic", c.line))
    return out


def in_async(F, b):
    """closures / coroutine bodies of an async fn (the asynchronous path is C20's scope)"""
    x = b
    n = 0
    while x is not None and x.owner and n < 6:
        x = F.fns.get(x.owner)
        n += 1
        if x is not None and "async" in x.name:
            return True
    return False


def module_of(key):
    """Module path of a function key: everything before the first impl/closure segment
    (`transport::fusedev::<...>::write_from::{closure#0}` -> `transport::fusedev`)."""
    head = key.split("::<", 1)[0] if "::<" in key else key
    if head.startswith("<"):
        # `<T as Trait>::f` at crate root level
        return ""
    parts = head.split("::")
    # a free function: drop its own name (and closure segments)
    if "::<" not in key:
        while parts and parts[-1].startswith("{"):
            parts.pop()
        parts = parts[:-1]
    return "::".join(parts)


def r4_panics(ctx, F, table):
    """Potential panic sites per (module, kind) must not exceed the reviewed inventory. The inventory lists the sites per
    function with the reason each cannot fire on request data; the comparison is per module so that moving code between
    functions of one module (extract/inline a helper) is not reported, while any additional site is."""
    rows = table["panic_sites"]
    total = 0
    gen = {}
    have = {}
    where = {}
    for k, b in sorted(F.fns.items()):
        if not in_scope(k) or "async_io" in k or "async" in b.name or in_async(F, b):
            continue
        v = vf.VF(b)
        sites = panic_sites(F, b, v)
        if not sites:
            continue
        ctx.fn_seen(b)
        byk = {}
        for (kind, line) in sites:
            byk.setdefault(kind, []).append(line)
        gen[k] = {kind: len(ls) for kind, ls in byk.items()}
        m = module_of(k)
        for kind, ls in byk.items():
            total += len(ls)
            have[(m, kind)] = have.get((m, kind), 0) + len(ls)
            where.setdefault((m, kind), []).append("%s (lines %s%s)" % (k.rsplit("::", 1)[-1] if "::<" not in k else k.split(">::", 1)[-1], ls,
                                                                         "" if k in rows and kind in rows[k] else ", NOT in the inventory"))
    allowed = {}
    for k, row in rows.items():
        m = module_of(k)
        for kind, n in row.items():
            if kind == "why":
                continue
            n = n.get("n", 0) if isinstance(n, dict) else n
            allowed[(m, kind)] = allowed.get((m, kind), 0) + n
    for (m, kind), n in sorted(have.items()):
        ctx.check("R4-panic-inventory", "%s/%s" % (m or "crate", kind), n <= allowed.get((m, kind), 0),
                  "%d potential panic site(s) `%s` in module %s, %d reviewed: a request-path panic site that is not in the reviewed inventory; sites: %s"
                  % (n, kind, m or "crate", allowed.get((m, kind), 0), "; ".join(where[(m, kind)])[:600]), loc=m, detail="%d <= %d" % (n, allowed.get((m, kind), 0)))
    if os.environ.get("FBR_GEN"):
        print("PANIC", json.dumps(gen, indent=1))
    ctx.extra["panic_sites_inventoried"] = total
    ctx.floor("R4-panic-inventory", 20)


# ------------------------------------------------------------------ R5

def r5_unsafe(ctx, F, table):
    """Like R4: per (module, operation) counts against the reviewed inventory."""
    rows = table["unsafe_ops"]
    gen = {}
    have_u = {}
    where_u = {}
    for k, b in sorted(F.fns.items()):
        if not in_scope(k) or "async" in k.rsplit("::", 1)[-1] or "async_io" in k:
            continue
        ops = []
        for c in live_calls(b):
            if c.d.get("unsafe") and not c.exp:
                ops.append(c.name)
        # raw pointer dereferences
        for bb in b.reachable():
            if b.is_cleanup(bb):
                continue
            for s in b.stmts(bb):
                if s[0] == "=":
                    for pl in [s[1]] + ([s[2][2]] if s[2][0] in ("ref", "rawptr") else []) + \
                            ([s[2][1][1]] if s[2][0] == "use" and s[2][1][0] != "k" else []):
                        if len(pl) > 1 and pl[1] == "*" and b.local_ty(pl[0]).startswith("*"):
                            ops.append("deref-raw")
        if not ops:
            continue
        ctx.fn_seen(b)
        cnt = {}
        for o in ops:
            cnt[o] = cnt.get(o, 0) + 1
        gen[k] = cnt
        m = module_of(k)
        for o, n in cnt.items():
            have_u[(m, o)] = have_u.get((m, o), 0) + n
            where_u.setdefault((m, o), []).append(k.split(">::", 1)[-1] + ("" if o in rows.get(k, {}) else " (NOT in the inventory)"))
    allowed_u = {}
    for k, row in rows.items():
        for o, n in row.items():
            if o != "why":
                allowed_u[(module_of(k), o)] = allowed_u.get((module_of(k), o), 0) + n
    for (m, o), n in sorted(have_u.items()):
        ctx.check("R5-unsafe-inventory", "%s/%s" % (m or "crate", o), n <= allowed_u.get((m, o), 0),
                  "module %s performs %d unsafe `%s` operation(s) on the request path, %d reviewed; in: %s" % (m or "crate", n, o, allowed_u.get((m, o), 0), "; ".join(where_u[(m, o)])[:500]),
                  loc=m, detail="%d <= %d" % (n, allowed_u.get((m, o), 0)))
    if os.environ.get("FBR_GEN"):
        print("UNSAFE", json.dumps(gen, indent=1))
    # raw copies: length = min of the two slices' lengths
    for k, b in F.fns.items():
        if not in_scope(k):
            continue
        v = None
        for c in live_calls(b):
            if c.name == "copy_nonoverlapping":
                v = v or vf.VF(b)
                a = v.call_args(c)
                n = vf.render(a[2], b, short=True)
                s = vf.render(a[0], b, short=True)
                d = vf.render(a[1], b, short=True)
                ok = n.startswith("cmp::min(") or n.startswith("Ord::min(")
                ctx.check("R5-unsafe-inventory", "copy-len/%s" % k.rsplit("::", 3)[-3 if b.kind == "closure" else -1], ok,
                          "raw copy in %s uses length `%s`, required min(len(src), len(dst))" % (k, n), loc=c.loc(), detail="%s <- %s x %s" % (d[:60], s[:60], n[:80]))
    # get_message_body: set_len(len) is followed by read_exact(&mut buf) whose failure returns before any use
    b = F.method("api::server::ServerUtil", "get_message_body")
    sl = [c for c in live_calls(b) if c.name == "set_len"]
    rx = [c for c in live_calls(b) if c.name == "read_exact"]
    ok = len(sl) == 1 and len(rx) == 1 and b.dominates(sl[0].bb, rx[0].bb)
    if ok:
        # no use of buf between set_len and read_exact: the only calls in between are borrows
        between = [c for c in live_calls(b) if b.dominates(sl[0].bb, c.bb) and b.dominates(c.bb, rx[0].bb) and c not in (sl[0], rx[0])]
        ok = all(c.name in ("deref_mut", "as_mut_slice", "borrow_mut") for c in between)
    ctx.check("R5-unsafe-inventory", "get_message_body/filled", ok,
              "get_message_body: the uninitialised buffer is not filled by read_exact before any other use", loc=b.loc())
    ctx.floor("R5-unsafe-inventory", 15)


# ------------------------------------------------------------------ R6 / R7

WRITER_CALLS = ("write", "write_all", "write_vectored", "commit", "async_write", "async_write2", "async_write3", "async_commit", "async_write_all")


def write_results_propagate(ctx, F, rule, want_async=False):
    """The result of every write the reply helpers issue is propagated (`?` or returned): a failed write must not be reported
    as a delivered reply (shared with C20 for the async helpers)."""
    n = 0
    for b in sorted(F.fns.values(), key=lambda x: x.key):
        if b.self_adt != common.SRVCTX or b.kind != "assoc" or "reply" not in b.name:
            continue
        is_async = b.key in F.async_fns
        if is_async != want_async:
            continue
        if is_async:
            from rules.c20 import async_frame
            body, v = async_frame(F, b)
        else:
            body, v = b, vf.VF(b)
        for c in live_calls(body):
            if c.name not in WRITER_CALLS or not ((c.self_adt or "").endswith("Writer") or c.trait == "std::io::Write"):
                continue
            e = v.call_expr(c)
            used = any(x == e for x in vf.walk(v.ret()))
            for d in live_calls(body):
                if d.name == "branch" and any(x == e for x in vf.walk(v.call_args(d)[0])):
                    used = True
            n += 1
            ctx.check(rule, "%s/%s-result#%d" % (b.name, c.name, n), used,
                      "%s drops the result of %s: a failed write would be reported as a delivered reply" % (b.name, c.name), loc=c.loc())
    ctx.check(rule, "write-results/sites", n >= (4 if want_async else 5), "only %d writer calls found in the %s reply helpers" % (n, "async" if want_async else "sync"))


def r6_one_write(ctx, F):
    write_results_propagate(ctx, F, "R6-one-write")
    b = [x for x in F.fns.values() if x.name == "reply_ok" and x.self_adt == common.SRVCTX and "sync_io" in x.key and x.kind == "assoc"]
    if len(b) != 1:
        raise core.Anchor("SrvContext::reply_ok")
    b = b[0]
    ctx.fn_seen(b)
    ws = [c for c in live_calls(b) if c.trait == "std::io::Write" and c.name in ("write", "write_vectored", "write_all")]
    names = sorted(set(c.name for c in ws))
    ctx.check("R6-one-write", "reply_ok/calls", names == ["write", "write_vectored"] or names == ["write_vectored"],
              "reply_ok emits the message with %s; one write/write_vectored per message is required" % names, loc=b.loc())
    for i, c in enumerate(ws):
        others = [d for d in ws if d is not c and b.can_reach(c.target, d.bb)] if c.target is not None else []
        ctx.check("R6-one-write", "reply_ok/single#%d" % i, not others, "reply_ok: a path performs two writes for one message", loc=c.loc())
    cm = [c for c in live_calls(b) if c.name == "commit"]
    ctx.check("R6-one-write", "reply_ok/no-commit", not cm, "reply_ok commits: plain replies must be a single direct write", loc=b.loc())
    # every return path passes one write
    v = vf.VF(b)
    rets_without = []
    wblocks = set(c.bb for c in ws)
    # blocks reachable from entry avoiding all write blocks that still reach a return with Ok
    reach = b.reach_set(0, avoid=wblocks)
    for r in b.return_blocks():
        if r in reach:
            val = vf.render(v.local_at(0, r, len(b.stmts(r))), b, short=True)
            if "Ok(" in val and "from_residual" not in val:
                rets_without.append(r)
    ctx.check("R6-one-write", "reply_ok/every-path", not rets_without, "reply_ok can return without writing the message", loc=b.loc())
    # do_reply_error: write_all(header) then commit(None)
    e = [x for x in F.fns.values() if x.name == "do_reply_error" and x.self_adt == common.SRVCTX and "sync_io" in x.key and x.kind == "assoc"][0]
    ctx.fn_seen(e)
    wa = [c for c in live_calls(e) if c.name in ("write_all", "write", "write_vectored") and c.trait == "std::io::Write"]
    cm = [c for c in live_calls(e) if c.name == "commit"]
    ok = len(wa) == 1 and len(cm) == 1 and e.dominates(wa[0].bb, cm[0].bb)
    ctx.check("R6-one-write", "do_reply_error/sequence", ok, "do_reply_error is not `write_all(header); commit(None)`", loc=e.loc())
    if ok:
        ve = vf.VF(e)
        a = ve.call_args(cm[0])[1]
        ctx.check("R6-one-write", "do_reply_error/commit-none", a[0] == "A" and a[2] == "None", "do_reply_error commits with a second writer", loc=cm[0].loc())
    # FuseDevWriter::commit: one write or writev per path, nothing when unbuffered
    c0 = F.method(c04.FDW, "commit")
    ctx.fn_seen(c0)
    vc = vf.VF(c0)
    ws = [c for c in live_calls(c0) if c.name in ("write", "writev") and (c.fn or "").startswith("nix::")]
    ctx.check("R6-one-write", "commit/sites", len(ws) == 3, "FuseDevWriter::commit has %d device write sites, expected 3 (other only / self only / both)" % len(ws), loc=c0.loc())
    for i, c in enumerate(ws):
        others = [d for d in ws if d is not c and c.target is not None and c0.can_reach(c.target, d.bb)]
        ctx.check("R6-one-write", "commit/single#%d" % i, not others, "FuseDevWriter::commit can issue two device writes for one message", loc=c.loc())
        g = [(vf.render(cond, c0, short=True), lab) for (cond, lab, u) in vc.guards(c.bb)]
        ctx.check("R6-one-write", "commit/buffered#%d" % i, ("self.buffered", "otherwise") in g or ("Not(self.buffered)", 0) in g,
                  "FuseDevWriter::commit writes although the writer is not buffered (guards %s)" % g[:3], loc=c.loc())
    # splitting handlers reply through a commit-terminated sequence, never reply_ok after split_at
    for h in common.handler_bodies(F):
        sp = [c for c in live_calls(h) if c.name == "split_at" and (c.self_adt or "").endswith("Writer")]
        if not sp:
            continue
        ctx.fn_seen(h)
        for c in live_calls(h):
            if c.name == "reply_ok" and c.self_adt == common.SRVCTX and any(h.can_reach(s.target, c.bb) for s in sp if s.target is not None):
                ctx.violation("R6-one-write", "%s/reply_ok-after-split" % h.name,
                              "%s calls reply_ok after splitting the writer: the reply would stay in the buffer" % h.name, loc=c.loc())
        cm = [c for c in live_calls(h) if c.name == "commit"]
        ctx.check("R6-one-write", "%s/commit" % h.name, len(cm) == 1 and all(h.dominates(s.bb, cm[0].bb) for s in sp),
                  "%s splits the writer but does not commit exactly once afterwards" % h.name, loc=h.loc())


def r7_frame(ctx, F):
    b = [x for x in F.fns.values() if x.name == "reply_ok" and x.self_adt == common.SRVCTX and "sync_io" in x.key and x.kind == "assoc"][0]
    v = vf.VF(b)
    hdr = vf.def_value(v, b, "header")
    if hdr is None or hdr[0] != "A":
        ctx.violation("R7-frame", "reply_ok/header", "shape not recognised: reply_ok header", loc=b.loc())
        return
    vf.NOCAST[0] = True
    try:
        f = {k: vf.render(x, b, short=True, vfx=v) for (k, x) in hdr[3]}
        # header.len = size_of<OutHeader> + len(<slice of `out`>) + len(<slice of `data`>), whatever the locals are called
        lens = []
        consts = []

        def terms(e):
            if e[0] == "CAST":
                return terms(e[1])
            if e[0] == "B" and e[1] == "Add":
                return terms(e[2]) + terms(e[3])
            return [e]
        for t in terms(dict(hdr[3])["len"]):
            tt = vf.render(t, b, short=True, vfx=v)
            if tt == "size_of<OutHeader>":
                consts.append(tt)
            else:
                deps = {x[1] for x in vf.walk(t) if x[0] == "P"}
                lens.append((tt.startswith("impl [T]::len("), tuple(sorted(b.local_name(i) for i in deps))))
    finally:
        vf.NOCAST[0] = False
    ok = consts == ["size_of<OutHeader>"] and sorted(lens) == [(True, ("data",)), (True, ("out",))]
    ctx.check("R7-frame", "reply_ok/len", ok, "reply_ok header: len is `%s`, required size_of<OutHeader> + len(bytes of out) + len(data)" % f.get("len"), loc=b.loc(), detail=f.get("len"))
    for k, w in (("error", "0"), ("unique", "self.in_header.unique")):
        ctx.check("R7-frame", "reply_ok/" + k, f.get(k) == w, "reply_ok header: %s is `%s`, required `%s`" % (k, f.get(k), w), loc=b.loc(), detail=f.get(k))
    # the slices written are exactly header, bytes of `out`, `data` in this order
    ws = [c for c in live_calls(b) if c.trait == "std::io::Write" and c.name == "write_vectored"]
    for c in ws:
        a = v.call_args(c)[1]
        elems = None
        for x in vf.walk(a):
            if x[0] == "ARR":
                elems = x[1]
                break
        order = []
        for el in (elems or []):
            if any(y == hdr for y in vf.walk(el)):
                order.append("header")
            else:
                deps = {b.local_name(y[1]) for y in vf.walk(el) if y[0] == "P"} - {"self"}
                order.append("+".join(sorted(deps)) or "?")
        allowed = (["header", "data"], ["header", "out"], ["header", "out", "data"])
        ctx.check("R7-frame", "reply_ok/order@%s" % "+".join(order), order in allowed,
                  "reply_ok writes its parts in the order %s; required header, bytes of out, data" % order, loc=c.loc(), detail=str(order))


def r7_error(ctx, F):
    """The error reply's header: len = header only, error = the NEGATED errno on every arm (raw errno and the ErrorKind fallback),
    unique = the request's (shared with C03.R3)."""
    from rules import c03
    t = json.load(open(c03.TABLE))
    vf.NOUPD[0] = True
    vf.NOCAST[0] = True
    try:
        c03.r3_errno(ctx, F, t)
    finally:
        vf.NOUPD[0] = False
        vf.NOCAST[0] = False


def r9_remap(ctx, F):
    b = F.method(common.SERVER, "remap_ctx_ids")
    ctx.fn_seen(b)
    # in-crate implementations of id_remap / id_remap_with_nodeid never return Err
    n = 0
    for x in F.fns.values():
        if x.name in ("id_remap", "id_remap_with_nodeid") and x.kind == "assoc" and x.trait == common.FS_TRAIT:
            n += 1
            ctx.fn_seen(x)
            v = vf.VF(x)
            r = v.ret()
            errs = [y for y in vf.walk(r) if y[0] == "A" and y[1].endswith("Result") and y[2] == "Err"]
            fwd = [c for c in live_calls(x) if c.name in ("id_remap", "id_remap_with_nodeid", "remap_ctx_ids")]
            ctx.check("R9-remap", x.key.split("::<")[-1][:60], not errs,
                      "%s can fail: handle_message would return before dispatch without any reply" % x.key, loc=x.loc())
    dflt = F.fns.get(common.FS_TRAIT + "::id_remap_with_nodeid")
    ctx.check("R9-remap", "count", n >= 2, "only %d id_remap implementations found" % n)


META = {
    "technique": "reply typestate dataflow over handler CFGs, dominance of bounds over request-sized allocations, reviewed inventories of panic/unsafe sites, single-write framing rules (MIR)",
    "text": "Decides: per opcode, no path replies twice, every path that reached the filesystem replies exactly once, FORGET/BATCH_FORGET "
            "never reply (also in the oversize gate), no handler returns Ok silently; each request-sized allocation is dominated by an upper "
            "bound on that value; the set of potential panic sites and unsafe operations on the request path equals a reviewed inventory; "
            "replies are framed by one write (or header+commit) with len/unique/error as required; writers refuse before writing.",
    "note": "Inventory rules (R4/R5) flag any new panic-capable or unsafe construct on the request path for review rather than proving its "
            "absence of failure; entries of tables/request_path.json were confirmed by reading. Not decided: UB inside dependencies, "
            "kernel delivery.",
}
META["text"] += " " + 'Also: the INIT compat replies cut their slice at the array size (C12.R3), the header/body split cuts inside the buffer holding the split point (C04).'
