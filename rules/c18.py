"""C18 — a size-sealed export never lets a client change a file's size.

R1 inventory of size-affecting sinks reachable from the passthrough FileSystem entry points
R2 gate: every path to such a sink either saw sealing switched off or passed the refusal that covers that sink
   (seal_size_check for write/fallocate, outright refusal for setattr SIZE, flag refusal for O_APPEND / O_TRUNC)
R3 seal_size_check arm shapes and the provenance of its arguments
R3 (cont.) the sealing comparison is `file_size < offset + size`, the overflow test is on (offset, size)
R4 handle flags: the cached flags word tracks the descriptor (shared with C05.R5)
R5 ZcReader/ZcWriter move exactly the count they are given (shared with C02.R10)
"""
from pyfbr import core, vf
from rules import common
from rules import c08

PFS = c08.PFS


def live_calls(b):
    r = b.reachable()
    return [c for c in b.calls() if c.bb in r and not b.is_cleanup(c.bb)]


def run(ctx):
    ctx.explanation = (
        "Every size-affecting system call or data write reachable from the passthrough FileSystem entry points is inventoried; "
        "for each one all CFG paths from the function entry are enumerated with their branch decisions (contradictory "
        "decisions pruned), and each path must contain either `seal_size is off` or the refusal that covers the sink; the "
        "refusal function's arms and the values handed to it are compared with the sealing rule.")
    F = ctx.facts("S") or ctx.facts("D")
    if F is None:
        return
    ctx.run_rule("R1-sink-inventory", r1_sinks, F)
    ctx.run_rule("R2-gates", r2_gates, F)
    ctx.run_rule("R3-check-shape", r3_shape, F)
    from rules import c05, c02
    ctx.run_rule("R5-zc-adapters", c02.zc_adapters, F, "R5-zc-adapters")
    vf.NOUPD[0] = True
    vf.NOCAST[0] = True
    try:
        ctx.run_rule("R4-handle-flags", c05.handle_flag_tracking, F, "R4-handle-flags")
    finally:
        vf.NOUPD[0] = False
        vf.NOCAST[0] = False
    ctx.floor('R1-sink-inventory', 9)
    ctx.floor('R2-gates', 10)
    ctx.floor('R3-check-shape', 12)
    ctx.floor('R5-zc-adapters', 6)
    ctx.floor('R4-handle-flags', 3)
    ctx.assumptions += ["files that did not exist before (created through the export) are outside the property", "sizes after arbitrary histories are not examined"]


SINKS = {
    "ftruncate": "libc::ftruncate", "fallocate64": "libc::fallocate64", "fallocate": "libc::fallocate", "ftruncate64": "libc::ftruncate64",
    "truncate": "libc::truncate", "fcntl": "libc::fcntl", "posix_fallocate": "libc::posix_fallocate", "copy_file_range": "libc::copy_file_range",
}


def sink_sites(F):
    """[(body, call, kind)] in non-async passthrough code."""
    out = []
    for k, b in F.fns.items():
        if not k.startswith("passthrough::") or "async_io" in k or "overlay" in k:
            continue
        for c in live_calls(b):
            if (c.fn or "") in SINKS.values():
                out.append((b, c, c.fn.rsplit("::", 1)[-1]))
            elif c.name == "read_to" and (c.trait or "").endswith("ZeroCopyReader"):
                out.append((b, c, "data-write"))
            elif c.name == "open_file" and "InodeData" in (c.fn or ""):
                out.append((b, c, "reopen"))
    return out


def r1_sinks(ctx, F):
    sites = sink_sites(F)
    got = sorted("%s/%s" % ((b.name if b.kind != "closure" else F.fns[b.owner].name), kind) for (b, c, kind) in sites)
    want = ["check_fd_flags/fcntl", "fallocate/fallocate64", "open_inode/reopen", "setattr/ftruncate", "setattr/ftruncate", "write/data-write"]
    for g in sorted(set(got)):
        ctx.check("R1-sink-inventory", g, g in want, "new size-affecting operation %s in the passthrough filesystem: it must be covered by a sealing gate" % g)
    for w in sorted(set(want)):
        ctx.check("R1-sink-inventory", "present/" + w, w in got, "size-affecting operation %s is gone (inventory out of date)" % w)
    # create_file_excl can only create: O_CREAT|O_EXCL are always added
    b = F.method(PFS, "create_file_excl")
    v = vf.VF(b, inline_depth=0)
    oa = [c for c in live_calls(b) if c.name == "openat"]
    ok = len(oa) == 1
    if ok:
        t = vf.render(v.call_args(oa[0])[2], b, short=True)
        ok = "O_CREAT" in t and "O_EXCL" in t and "BitOr" in t
    ctx.check("R1-sink-inventory", "create_file_excl/exclusive", ok, "create_file_excl no longer forces O_CREAT|O_EXCL: it could open (and truncate) an existing file", loc=b.loc())


def path_facts(b, v, target_bb, roots=None):
    """All consistent decision paths from entry to target_bb as lists of (fact text, label) in the normal form of
    VF.switch_cond: comparisons stated positively (label 'otherwise'), flag tests as has(x, F) with a truth label."""
    cache = {}

    def fact(u, lab):
        if (u, lab) not in cache:
            c, l = v.switch_cond(u, lab)
            cache[(u, lab)] = (vf.render(c, b, roots, short=True), l)
        return cache[(u, lab)]

    def consistent(facts, bb, lab):
        t, l = fact(bb, lab)
        nt = vf.neg_fact(t) if l != 0 and t.startswith(("Lt(", "Le(", "Eq(", "Ne(")) else None
        for (u, ul) in facts:
            t2, l2 = fact(u, ul)
            if t2 == t and (l2 == 0) != (l == 0):
                return False
            if nt is not None and t2 == nt and l2 != 0:
                return False
        return True
    paths = b.enum_paths(0, target=target_bb, consistent=consistent, limit=20000)
    return [[fact(u, lab) for (u, lab) in p] for p in paths]


def seal_off(facts):
    return any("Atomic::load(self.seal_size" in t and lab == 0 and not t.startswith("Not(") for (t, lab) in facts)


def seal_on(facts):
    return any("Atomic::load(self.seal_size" in t and lab != 0 and not t.startswith("Not(") for (t, lab) in facts)


def r2_gates(ctx, F):
    vf.NOUPD[0] = True
    try:
        _r2(ctx, F)
    finally:
        vf.NOUPD[0] = False


def _r2(ctx, F):
    # ---- write: the data write
    b = c08.pfs_method(F, "write")
    ctx.fn_seen(b)
    v = vf.VF(b, inline_depth=0)
    rt = [c for c in live_calls(b) if c.name == "read_to"]
    chk = [c for c in live_calls(b) if c.name == "seal_size_check"]
    if ctx.check("R2-gates", "write/shape", len(rt) == 1 and len(chk) == 1, "write: %d data writes / %d seal checks" % (len(rt), len(chk)), loc=b.loc()):
        chk_ok_edge = None
        tb = b.call_at(chk[0].target)
        bad = []
        n = 0
        for facts in path_facts(b, v, rt[0].bb):
            n += 1
            if seal_off(facts):
                continue
            passed = any(t.startswith("discr(Result::branch(PassthroughFs::seal_size_check(") and lab == 0 for (t, lab) in facts)
            noappend = any(t in ("has(flags, O_APPEND)",) and lab == 0 for (t, lab) in facts) or any(t == "!has(flags, O_APPEND)" and lab != 0 for (t, lab) in facts)
            if not (passed and noappend):
                bad.append([t for (t, l) in facts if "seal" in t or "O_APPEND" in t])
        ctx.check("R2-gates", "write/data-write", n > 0 and not bad,
                  "write: the file data can be written on a sealed export without both the size check and the O_APPEND refusal "
                  "(decisions on such a path: %s)" % (bad[:1],), loc=rt[0].loc())
        # the descriptor's flags are set from the request before the data write and after the O_APPEND refusal
        cf = [c for c in live_calls(b) if c.name == "check_fd_flags"]
        ok = len(cf) == 1 and b.dominates(cf[0].bb, rt[0].bb) and vf.render(v.call_args(cf[0])[-1], b, short=True) == "flags"
        ctx.check("R2-gates", "write/fd-flags-from-request", ok, "write: the descriptor's flags are not reset from this request's flags before the data is written", loc=b.loc())
        if cf:
            bad = []
            for facts in path_facts(b, v, cf[0].bb):
                if seal_off(facts):
                    continue
                if not any(t == "has(flags, O_APPEND)" and lab == 0 for (t, lab) in facts):
                    bad.append(1)
            ctx.check("R2-gates", "write/setfl-append", not bad,
                      "write: on a sealed export the request's flags (possibly O_APPEND) are applied to the descriptor before being refused", loc=cf[0].loc())
    # ---- fallocate
    b = c08.pfs_method(F, "fallocate")
    ctx.fn_seen(b)
    v = vf.VF(b, inline_depth=0)
    fa = [c for c in live_calls(b) if (c.fn or "").startswith("libc::fallocate")]
    if ctx.check("R2-gates", "fallocate/shape", len(fa) == 1, "fallocate: %d allocation calls" % len(fa), loc=b.loc()):
        bad = []
        for facts in path_facts(b, v, fa[0].bb):
            if seal_off(facts):
                continue
            if not any(t.startswith("discr(Result::branch(PassthroughFs::seal_size_check(") and lab == 0 for (t, lab) in facts):
                bad.append([t for (t, l) in facts if "seal" in t])
        ctx.check("R2-gates", "fallocate/fallocate64", not bad, "fallocate reaches fallocate64 on a sealed export without passing seal_size_check (%s)" % bad[:1], loc=fa[0].loc())
    # ---- setattr: SIZE refused outright
    b = c08.pfs_method(F, "setattr")
    ctx.fn_seen(b)
    v = vf.VF(b, inline_depth=0)
    ft = [c for c in live_calls(b) if (c.fn or "").startswith("libc::ftruncate")]
    ctx.check("R2-gates", "setattr/shape", len(ft) >= 1, "setattr: no ftruncate call found", loc=b.loc())
    for i, c in enumerate(ft):
        bad = []
        for facts in path_facts(b, v, c.bb):
            if not seal_off(facts):
                bad.append([t for (t, l) in facts if "seal" in t or "SIZE" in t])
        ctx.check("R2-gates", "setattr/ftruncate#%d" % i, not bad,
                  "setattr can truncate/extend a file although the export is sealed (decisions: %s)" % (bad[:1],), loc=c.loc())
    # the refusal is EPERM and only depends on SIZE && seal
    # ---- open_inode: O_TRUNC refused under seal
    b = F.method(PFS, "open_inode")
    ctx.fn_seen(b)
    v = vf.VF(b, inline_depth=0)
    of = [c for c in live_calls(b) if c.name == "open_file"]
    if ctx.check("R2-gates", "open_inode/shape", len(of) == 1, "open_inode: %d reopen calls" % len(of), loc=b.loc()):
        bad = []
        for facts in path_facts(b, v, of[0].bb):
            if seal_off(facts):
                continue
            if not any(t == "has(flags, O_TRUNC)" and lab == 0 for (t, lab) in facts):
                bad.append([t for (t, l) in facts if "seal" in t or "TRUNC" in t])
        ctx.check("R2-gates", "open_inode/reopen", not bad,
                  "open_inode reopens a file with the client's flags on a sealed export without refusing O_TRUNC: a truncating open/create empties the file (%s)" % bad[:1], loc=of[0].loc())
        # all client-flag opens go through open_inode
    callers = set()
    for k, x in F.fns.items():
        if k.startswith("passthrough::") and "async_io" not in k:
            for c in live_calls(x):
                if c.name == "open_file" and "InodeData" in (c.fn or ""):
                    callers.add(x.name)
    ctx.check("R2-gates", "reopen-callers", callers == {"open_inode"}, "InodeData::open_file is called by %s; only the gated open_inode may" % sorted(callers))


def r3_shape(ctx, F):
    b = F.method(PFS, "seal_size_check")
    ctx.fn_seen(b)
    v = vf.VF(b, inline_depth=0)
    vf.NOUPD[0] = True
    try:
        r = vf.render(v.ret(), b, short=True, vfx=v)
    finally:
        vf.NOUPD[0] = False
    # overflow test first
    ov = [c for c in live_calls(b) if c.name == "checked_add"]
    ok = len(ov) == 1 and all(b.dominates(ov[0].bb, u) for u in b.reachable() if b.term(u)[0] == "switch" and u != ov[0].bb and "opcode" in vf.render(v.operand(b.term(u)[1], u, len(b.stmts(u))), b, short=True))
    if ok:
        a_ = sorted(vf.render(x, b, short=True) for x in v.call_args(ov[0]))
        ok = a_ == ["offset", "size"]
    ctx.check("R3-check-shape", "overflow-first", ok, "seal_size_check no longer rejects offset+size overflow before anything else", loc=b.loc())
    # arms: enumerate (opcode, op) -> result by walking the decision paths to each return-value assignment
    results = {}
    for bb in b.reachable():
        for i, s in enumerate(b.stmts(bb)):
            if s[0] == "=" and s[1] == [0]:
                val = vf.render(v.rvalue(s[2], bb, i), b, short=True)
                for facts in path_facts(b, v, bb):
                    key = []
                    for (t, lab) in facts:
                        if t.startswith("discr(opcode)") or "opcode" in t and t.startswith("discr("):
                            key.append("opcode=%s" % lab)
                        elif t.startswith("BitAnd(") and "mode" in t:
                            key.append("op=%s" % lab)
                        elif t in ("Lt(file_size, Add(offset, size))", "Lt(file_size, Add(size, offset))") and lab != 0:
                            key.append("beyond")
                        elif t in ("Le(Add(offset, size), file_size)", "Le(Add(size, offset), file_size)") and lab != 0:
                            key.append("within")
                        elif (t.startswith("Lt(") or t.startswith("Le(")) and lab != 0:
                            key.append("compares:" + t[:60])      # some other size comparison: not the sealing test
                    results.setdefault(tuple(key), set()).add(val)
    opv = {v_["name"]: v_["discr"] for v_ in F.enums["abi::fuse_abi::Opcode"]["variants"]}
    W, FA = opv["Write"], opv["Fallocate"]
    PUNCH, ZERO, COLL, INS = 2, 16, 8, 32

    def res(*key):
        return results.get(tuple(key))
    exp = [
        (("opcode=%d" % W, "beyond"), "EPERM", "a write reaching beyond the current size"),
        (("opcode=%d" % W, "within"), "Ok", "a write within the current size"),
        (("opcode=%d" % FA, "op=0", "beyond"), "EPERM", "fallocate(allocate) beyond the size"),
        (("opcode=%d" % FA, "op=%d" % PUNCH, "beyond"), "EPERM", "fallocate(PUNCH_HOLE) beyond the size"),
        (("opcode=%d" % FA, "op=%d" % ZERO, "beyond"), "EPERM", "fallocate(ZERO_RANGE) beyond the size"),
        (("opcode=%d" % FA, "op=0", "within"), "Ok", "fallocate within the size"),
        (("opcode=%d" % FA, "op=%d" % COLL), "EPERM", "fallocate(COLLAPSE_RANGE)"),
        (("opcode=%d" % FA, "op=%d" % INS), "EPERM", "fallocate(INSERT_RANGE)"),
        (("opcode=%d" % FA, "op=otherwise"), "EINVAL", "unknown fallocate mode"),
        (("opcode=otherwise",), "ENOSYS", "any other opcode"),
    ]
    import os
    if os.environ.get("FBR_DEBUG"):
        for k, val in sorted(results.items(), key=str):
            print(k, val)
    for key, want, what in exp:
        got = res(*key)
        ok = got is not None and all((want.lower() in g.lower()) if want != "Ok" else g.startswith("Ok(") for g in got)
        ctx.check("R3-check-shape", "arm/" + ",".join(key), ok, "seal_size_check: %s yields %s, required %s" % (what, sorted(got) if got else "no such arm", want), loc=b.loc())
    # the op word ignores KEEP_SIZE and UNSHARE_RANGE only
    mask = None
    for u in b.reachable():
        if b.term(u)[0] == "switch":
            t = vf.render(v.operand(b.term(u)[1], u, len(b.stmts(u))), b, short=True)
            if t.startswith("BitAnd(") and "mode" in t:
                mask = t
    ctx.check("R3-check-shape", "mode-mask", mask is not None and ("-66" in mask or "Not(65)" in mask or "Not(BitOr(" in mask),
              "seal_size_check classifies the fallocate mode as `%s`; only KEEP_SIZE and UNSHARE_RANGE may be ignored" % mask, loc=b.loc(), detail=str(mask))
    # argument provenance at the two call sites
    for nm, want in (("write", ["Write", "st_size", "offset", "size", "0"]), ("fallocate", ["Fallocate", "st_size", "offset", "length", "mode"])):
        m = c08.pfs_method(F, nm)
        mv = vf.VF(m, inline_depth=0)
        cs = [c for c in live_calls(m) if c.name == "seal_size_check"]
        if not ctx.check("R3-check-shape", nm + "/call", len(cs) == 1, "%s calls seal_size_check %d times" % (nm, len(cs)), loc=m.loc()):
            continue
        vf.NOCAST[0] = True
        try:
            a = [vf.render(x, m, short=True) for x in mv.call_args(cs[0])[1:]]
        finally:
            vf.NOCAST[0] = False
        ok = a[0].endswith(want[0]) and a[1].endswith(".st_size") and "stat_fd(" in a[1] and a[2] == want[2] and a[3] == want[3] and a[4] == want[4]
        ctx.check("R3-check-shape", nm + "/args", ok, "%s hands seal_size_check (%s); required (Opcode::%s, current size from stat, %s, %s, %s)" % (nm, ", ".join(x[:60] for x in a), want[0], want[2], want[3], want[4]), loc=cs[0].loc(), detail=str(a)[:200])


META = {
    "technique": "sink inventory + path-fact gate analysis over MIR (all decision paths to each size-affecting sink, contradictory branches pruned), table of refusal arms",
    "text": "Decides: the set of size-affecting operations (data write, ftruncate, fallocate64, F_SETFL with request flags, reopen with request flags) "
            "is the inventoried one; every decision path to each of them on a sealed export passes the refusal that covers it (size check and "
            "O_APPEND refusal for write, size check for fallocate, outright refusal for setattr SIZE, O_TRUNC refusal for reopen); create can only "
            "create; seal_size_check's arms and the values handed to it are the sealing rule's.",
    "note": "Not decided: file sizes after arbitrary request histories; behaviour of files created through the export.",
}
META["text"] += " " + 'Also: operands of the sealing comparison, the cached handle flags track the descriptor (C05.R5), the zero-copy adapters move exactly the given count (C02.R10).'
