"""C08 — an inode stays valid exactly as long as the client holds lookup references to it.

R1 entry-returning operations return the entry of exactly one do_lookup; a looked-up entry that is not returned
   is forgotten on every other exit
R2 readdir forgets its temporary reference on every path; readdirplus forgets every entry it did not deliver
R3 forget_one: root exempt first; saturating decrement by the request's count; removal only on the zero edge of
   a successful compare-exchange; keep_mapping provenance
R4 do_lookup: found -> CAS curr -> curr+1; inserted -> count 1; raced -> fetch_add(1)
R5 who may write the reference count / remove from the store
R6 inode-number layout constants (host/virtual fields disjoint and within the VFS limit)
R1 (cont.) an explicit `return Err` after the lookup counts like `?`; whatever is given back is entry.inode, once
R7 identity lookup: by file handle first, by id only without a conflicting handle (combinator or control-flow spelling)
R8 the provided FileSystem::batch_forget forwards every (inode, count) pair
"""
import re
from pyfbr import core, vf
from rules import common

PFS = "passthrough::PassthroughFs"
ISTORE = "passthrough::inode_store::InodeStore"
ENTRY_OPS = ("lookup", "mkdir", "mknod", "symlink", "link", "create")


def live_calls(b):
    r = b.reachable()
    return [c for c in b.calls() if c.bb in r and not b.is_cleanup(c.bb)]


def pfs_method(F, name):
    c = [x for x in F.find(name=name, self_adt=PFS) if x.trait == common.FS_TRAIT and x.kind == "assoc"]
    if len(c) != 1:
        raise core.Anchor("PassthroughFs::%s (%d)" % (name, len(c)))
    return c[0]


def run(ctx):
    ctx.explanation = (
        "Reference-pairing rules over the passthrough filesystem's MIR: each lookup reference taken by do_lookup is either "
        "handed to the client in the returned entry or given back with forget_one on every other path; the decrement, removal "
        "and increment sites have the required shape (saturating, compare-exchange guarded, root exempt); only the three "
        "accounting functions touch the count; number-layout constants are disjoint.")
    F = ctx.facts("S") or ctx.facts("D")
    if F is None:
        return
    ctx.run_rule("R1-entry-pairing", r1_entry_pairing, F)
    ctx.run_rule("R2-readdir-pairing", r2_readdir, F)
    ctx.run_rule("R3-forget-shape", r3_forget, F)
    ctx.run_rule("R4-lookup-shape", r4_lookup, F)
    ctx.run_rule("R5-who-may", r5_who, F)
    ctx.run_rule("R6-number-layout", r6_layout, F)
    ctx.run_rule("R7-identity-lookup", r7_identity, F)
    from rules import c09
    ctx.run_rule("R8-batch-forget-default", c09.batch_forget_default, F)
    ctx.floor('R1-entry-pairing', 14)
    ctx.floor('R2-readdir-pairing', 6)
    ctx.floor('R3-forget-shape', 10)
    ctx.floor('R4-lookup-shape', 4)
    ctx.floor('R5-who-may', 5)
    ctx.floor('R6-number-layout', 6)
    ctx.floor('R7-identity-lookup', 4)
    ctx.assumptions += ["number stability against the host and fd-based liveness after unlink are not examined"]


def forget_blocks(b, v, ino_expr):
    out = set()
    for c in live_calls(b):
        if c.name == "forget_one":
            a = v.call_args(c)
            if vf.strip_upd(a[2]) == vf.strip_upd(ino_expr):
                out.add(c.bb)
    return out


def r7_identity(ctx, F):
    """Which cached inode answers for a looked-up file: the one with the same file handle if there is a handle; otherwise the one
    with the same (ino, dev, mnt) id - but, when the lookup has a handle, only an entry that has none (an entry with a
    different handle is a different file that reused the inode number)."""
    rule = "R7-identity-lookup"
    top = F.fns.get("passthrough::<passthrough::InodeMap>::get_alt_locked")
    if top is None:
        raise core.Anchor("InodeMap::get_alt_locked")
    ctx.fn_seen(top)
    want = {
        "passthrough::<passthrough::InodeMap>::get_alt_locked": "Option::cloned(Option::or_else(Option::and_then(handle, closure({closure#0})), closure({closure#1})))",
        "passthrough::<passthrough::InodeMap>::get_alt_locked::{closure#0}": "InodeStore::get_by_handle(^inodes, h)",
        "passthrough::<passthrough::InodeMap>::get_alt_locked::{closure#1}": "Option::filter(InodeStore::get_by_id(^inodes, ^id), closure({closure#0}))",
        "passthrough::<passthrough::InodeMap>::get_alt_locked::{closure#1}::{closure#0}":
            "phi{!Option::is_some(^handle) => 1 | Option::is_some(^handle) => Option::is_none(InodeHandle::file_handle(data.handle))}",
    }
    tv = vf.VF(top, inline_depth=0)
    tr = vf.render(tv.ret(), top, short=True, vfx=tv)
    if tr == want[top.key]:
        # combinator spelling: handle.and_then(by_handle).or_else(|| by_id.filter(pred)).cloned()
        for k, w in want.items():
            b = F.fns.get(k)
            if b is None:
                raise core.Anchor(k)
            v = vf.VF(b, inline_depth=0)
            r = vf.render(v.ret(), b, short=True, vfx=v)
            alt = w.replace("phi{!Option::is_some(^handle) => 1 | Option::is_some(^handle) => Option::is_none(InodeHandle::file_handle(data.handle))}",
                            "BitOr(Option::is_none(^handle), Option::is_none(InodeHandle::file_handle(data.handle)))")
            ctx.check(rule, k.split("InodeMap>::", 1)[1], r in (w, alt), "%s computes `%s`; required `%s`" % (k.split("InodeMap>::", 1)[1], r[:200], w), loc=b.loc(), detail=r[:120])
    else:
        # control-flow spelling: decided on the paths to each `Some(..)` result
        from rules import c18
        res = []
        for bb in sorted(top.reachable()):
            for i, s_ in enumerate(top.stmts(bb)):
                if s_[0] == "=" and s_[2][0] == "agg" and isinstance(s_[2][1], dict) and s_[2][1].get("variant") == "Some" and s_[2][1].get("adt", "").endswith("Option"):
                    val = vf.render(tv.rvalue(s_[2], bb, i), top, short=True, vfx=tv)
                    paths = [[(t, l) for (t, l) in pf] for pf in c18.path_facts(top, tv, bb)]
                    res.append((val, paths))
        byh = [x for x in res if "get_by_handle(inodes, some(handle))" in x[0]]
        byi = [x for x in res if "get_by_id(inodes, id)" in x[0]]
        ok1 = len(byh) == 1 and all(any(t == "discr(handle)" and l == 1 for (t, l) in pf) for pf in byh[0][1])
        ctx.check(rule, "by-handle-first", ok1 and len(res) == 2, "get_alt_locked must answer with the entry of the same file handle when the lookup has one (results: %s)" % [x[0][:60] for x in res], loc=top.loc())
        def admits(pf):
            return any((t == "Option::is_some(handle)" and l == 0) or (t == "discr(handle)" and l != 1 and not any(t2 == "Option::is_some(handle)" and l2 != 0 for (t2, l2) in pf)) for (t, l) in pf) or \
                any(t.startswith("Option::is_some(InodeHandle::file_handle(") and l == 0 for (t, l) in pf)
        ok2 = len(byi) == 1 and bool(byi[0][1]) and all(admits(pf) for pf in byi[0][1])
        ctx.check(rule, "by-id-only-without-conflicting-handle", ok2,
                  "get_alt_locked may fall back to the entry with the same id only if the lookup has no handle or that entry has none", loc=top.loc())
        if byh and byi:
            # the by-id answer is given only after the by-handle probe missed (or there was no handle)
            ok3 = all(any(t.startswith("discr(InodeStore::get_by_handle(") and l != 1 for (t, l) in pf) or any(t == "discr(handle)" and l != 1 for (t, l) in pf) for pf in byi[0][1])
            ctx.check(rule, "by-id-after-handle-miss", ok3, "get_alt_locked consults the id index although a handle lookup could still answer", loc=top.loc())
    b = F.method("passthrough::InodeMap", "get_alt")
    v = vf.VF(b, inline_depth=0)
    r = vf.render(v.ret(), b, short=True, vfx=v)
    ctx.check(rule, "get_alt", r == "InodeMap::get_alt_locked(Result::unwrap(RwLock::read(self.inodes)), id, handle)", "InodeMap::get_alt computes `%s`" % r[:200], loc=b.loc())


def r1_entry_pairing(ctx, F):
    for nm in ENTRY_OPS:
        b = pfs_method(F, nm)
        ctx.fn_seen(b)
        v = vf.VF(b, inline_depth=0)
        dl = [c for c in live_calls(b) if c.name == "do_lookup"]
        if not ctx.check("R1-entry-pairing", nm + "/one-lookup", len(dl) == 1,
                         "PassthroughFs::%s takes %d lookup references for one returned entry" % (nm, len(dl)), loc=b.loc()):
            continue
        c = dl[0]
        res = v.call_expr(c)
        entry = vf.field(("V", res, "Ok"), "0", 0)
        r = v.ret()
        returned = any(x == entry or x == res for x in vf.walk(r))
        ctx.check("R1-entry-pairing", nm + "/returned", returned, "PassthroughFs::%s does not return the entry it looked up" % nm, loc=b.loc())
        # error exits after the reference was taken
        # success continuation of `do_lookup(..)?`: the Continue edge of its Try::branch, or the call target when returned directly
        start = c.target
        tb = b.call_at(start) if start is not None else None
        if tb is not None and tb.name == "branch":
            sw = tb.target
            start = [t for (lab, t) in b.switch_edges(sw) if lab == 0][0] if sw is not None and b.term(sw)[0] == "switch" else None
        elif r == res or (r[0] == "PHI" and any(x == res for (_, x) in r[2])):
            ctx.ok("R1-entry-pairing", nm + "/no-late-exit", "entry is the function's result", nontrivial=True)
            continue
        if start is None:
            ctx.violation("R1-entry-pairing", nm + "/shape", "shape not recognised after do_lookup in %s" % nm, loc=c.loc())
            continue
        fb = forget_blocks(b, v, vf.field(entry, "inode"))
        region = b.reach_set(start, avoid=fb)
        # (a `?` whose result is stored in a local - the body of a spliced helper - is not an exit of this function)
        late = [x for x in live_calls(b) if x.bb in region and x.name == "from_residual" and x.dest == [0]]
        # explicit `return Err(..)` without the give-back counts like a `?`
        for u in sorted(region):
            for s_ in b.stmts(u):
                if s_[0] == "=" and s_[1] == [0] and s_[2][0] == "agg" and isinstance(s_[2][1], dict) and s_[2][1].get("variant") == "Err":
                    ctx.violation("R1-entry-pairing", nm + "/no-late-exit", "PassthroughFs::%s returns an error after do_lookup took a reference without "
                                  "forget_one(entry.inode, 1): the inode and its descriptor stay pinned although the client never received the entry" % nm,
                                  loc=b.loc(s_[3]))
        # whatever is given back is the looked-up inode, once
        for x in live_calls(b):
            if x.name == "forget_one":
                a = v.call_args(x)
                ok = vf.strip_upd(a[2]) == vf.strip_upd(vf.field(entry, "inode")) and a[3][0] == "K" and a[3][1] == 1
                ctx.check("R1-entry-pairing", nm + "/gives-back-the-entry", ok,
                          "PassthroughFs::%s gives back `%s` x `%s` on its error path; the reference do_lookup took is on entry.inode, once"
                          % (nm, vf.render(a[2], b, short=True), vf.render(a[3], b, short=True)), loc=x.loc())
        names = []
        for x in late:
            # which fallible call does this exit belong to
            a = v.call_args(x)[0]
            cs = [y for y in vf.walk(a) if y[0] == "C"]
            names.append(vf.shortname(cs[0][1]) if cs else "?")
        ctx.check("R1-entry-pairing", nm + "/no-late-exit", not late,
                  "PassthroughFs::%s can fail (%s) after do_lookup took a reference and returns the error without forget_one: the inode and its "
                  "descriptor stay pinned although the client never received the entry" % (nm, sorted(set(names))), loc=(late[0].loc() if late else b.loc()))


def r2_readdir(ctx, F):
    # readdir: closure does do_lookup then forget_one(entry.inode, 1) on every path
    b = pfs_method(F, "readdir")
    ctx.fn_seen(b)
    cls = [x for x in F.closures_of(b.key) if any(c.name == "do_lookup" for c in live_calls(x))]
    if len(cls) != 1:
        raise core.Anchor("readdir closure with do_lookup (%d)" % len(cls))
    cl = cls[0]
    v = vf.VF(cl, inline_depth=0)
    dl = [c for c in live_calls(cl) if c.name == "do_lookup"][0]
    entry = vf.field(("V", v.call_expr(dl), "Ok"), "0", 0)
    fo = [c for c in live_calls(cl) if c.name == "forget_one"]
    ok = len(fo) == 1
    if ok:
        a = v.call_args(fo[0])
        ok = vf.strip_upd(a[2]) == vf.field(entry, "inode") and a[3][0] == "K" and a[3][1] == 1
    ctx.check("R2-readdir-pairing", "readdir/forget-args", ok, "readdir's temporary lookup is not given back with forget_one(entry.inode, 1)", loc=cl.loc())
    if fo:
        # every path from the successful lookup to the closure's return passes the forget
        tb = cl.call_at(dl.target)
        start = dl.target
        if tb is not None and tb.name == "branch" and tb.target is not None and cl.term(tb.target)[0] == "switch":
            start = [t for (lab, t) in cl.switch_edges(tb.target) if lab == 0][0]
        reach = cl.reach_set(start, avoid={fo[0].bb})
        ctx.check("R2-readdir-pairing", "readdir/always", not (reach & set(cl.return_blocks())),
                  "readdir: a path returns from the per-entry callback without giving the temporary reference back", loc=cl.loc())
    # readdirplus: the reference is released whenever the entry was not delivered (Ok(0) and Err)
    b = pfs_method(F, "readdirplus")
    ctx.fn_seen(b)
    cls = [x for x in F.closures_of(b.key) if any(c.name == "do_lookup" for c in live_calls(x))]
    if len(cls) != 1:
        raise core.Anchor("readdirplus closure with do_lookup (%d)" % len(cls))
    cl = cls[0]
    v = vf.VF(cl, inline_depth=0)
    dl = [c for c in live_calls(cl) if c.name == "do_lookup"][0]
    entry = vf.field(("V", v.call_expr(dl), "Ok"), "0", 0)
    want_ino = vf.field(entry, "inode")
    # forget sites: in this closure or in closures nested in it (the `inspect` callback)
    sites = []
    for body in [cl] + [x for x in F.fns.values() if x.raw.get("parent") == cl.key]:
        bv = v if body is cl else vf.VF(body, inline_depth=0)
        for c in live_calls(body):
            if c.name == "forget_one":
                sites.append((body, bv, c))
    ctx.check("R2-readdir-pairing", "readdirplus/forget-site", len(sites) >= 1, "readdirplus never gives back the reference of an undelivered entry", loc=cl.loc())
    for (body, bv, c) in sites:
        a = bv.call_args(c)
        ino = a[2]
        if body is not cl:
            # captured variable: resolve through the closure construction in the parent
            cons = None
            for bb in cl.reachable():
                for i, s in enumerate(cl.stmts(bb)):
                    if s[0] == "=" and s[2][0] == "agg" and s[2][1].get("fn") == body.key:
                        cons = v.rvalue(s[2], bb, i)
            if cons is not None:
                ino = vf.subst(ino, {1: cons})
        ok = vf.strip_upd(ino) == want_ino and a[3][0] == "K" and a[3][1] == 1
        ctx.check("R2-readdir-pairing", "readdirplus/forget-args", ok,
                  "readdirplus gives back `%s`, not the inode number do_lookup returned (`entry.inode`): the reference of an entry that did not "
                  "fit is never released" % vf.render(ino, cl, [(entry, "entry")], short=True)[:120], loc=c.loc())
        if body is not cl:
            # Result::inspect callback: runs for Ok values only, must test `delivered == 0`
            g = [(vf.render(cond, body, short=True), lab) for (cond, lab, u) in bv.guards(c.bb)]
            ctx.check("R2-readdir-pairing", "readdirplus/on-not-delivered", any((t.startswith("Eq(0, ") or (t.startswith("Eq(") and t.endswith(", 0)"))) and lab != 0 for (t, lab) in g),
                      "readdirplus: the reference is not released on the `delivered 0 bytes` edge (guards %s)" % g, loc=c.loc())
    direct = [x for x in sites if x[0] is cl]
    if direct:
        # the forget is in the per-entry callback itself: every path that returns without it must have seen
        # `add_entry(..)` succeed with a non-zero count
        ae = [c for c in live_calls(cl) if c.fn is None or c.name in ("call_mut", "call")]
        ok = len(ae) == 1
        bad_paths = []
        if ok:
            res = v.call_expr(ae[0])
            payload = vf.field(("V", res, "Ok"), "0", 0)
            roots = [(payload, "delivered"), (res, "res")]
            for path in cl.enum_paths(ae[0].target, avoid={x[2].bb for x in direct}):
                facts = [(v.guard_text(u, lab, roots, vfx=v, body=cl), lab) for (u, lab) in path]
                txt = [t for (t, _) in facts]
                is_ok = any(t == "discr(res)==0" for t in txt)
                nonzero = any(t in ("Lt(0, delivered)", "Ne(0, delivered)", "Le(1, delivered)") for t in txt)
                if not (is_ok and nonzero):
                    bad_paths.append(txt)
        ctx.check("R2-readdir-pairing", "readdirplus/on-not-delivered", ok and not bad_paths,
                  "readdirplus: a path returns without releasing the reference although the entry was not delivered (decisions on that path: %s)" % (bad_paths[:1],), loc=cl.loc())
    # the Err result of add_entry must release the reference too
    err_handled = False
    for body in [cl] + [x for x in F.fns.values() if x.raw.get("parent") == cl.key]:
        for c in live_calls(body):
            if c.name == "forget_one":
                bv = vf.VF(body, inline_depth=0)
                gs = [vf.render(cond, body, short=True) + "==" + str(lab) for (cond, lab, u) in bv.guards(c.bb)]
                if any("discr(" in g and g.endswith("==1") for g in gs) or body.name in ("inspect_err",):
                    err_handled = True
    uses_inspect_only = any(c.name == "inspect" for c in live_calls(cl)) and not any(c.name in ("inspect_err", "map_err", "or_else") for c in live_calls(cl))
    # the producer reports a consumer error only if no entry (with its reference) was delivered before
    from rules import c16
    c16.err_first_only(ctx, F, "R2-readdir-pairing")
    ctx.check("R2-readdir-pairing", "readdirplus/on-error", err_handled or not uses_inspect_only or bool(direct),
              "readdirplus releases the reference only through Result::inspect (Ok values): when the reply callback fails the entry was not "
              "delivered but its lookup reference is kept", loc=cl.loc())


def r3_forget(ctx, F):
    b = F.method(PFS, "forget_one")
    ctx.fn_seen(b)
    v = vf.VF(b)
    cas = [c for c in live_calls(b) if c.name == "compare_exchange"]
    ld = [c for c in live_calls(b) if c.name == "load" and "atomic" in (c.fn or "").lower()]
    rm = [c for c in live_calls(b) if c.name == "remove"]
    # root test dominates everything else
    first = [c for c in live_calls(b)]
    ok = all(any(vf.render(cond, b, short=True) in ("Ne(ROOT_ID, inode)", "Ne(inode, ROOT_ID)") and lab != 0 for (cond, lab, u) in v.guards(c.bb)) for c in first)
    ctx.check("R3-forget-shape", "root-exempt", ok and first, "forget_one touches the store before (or without) exempting the root inode", loc=b.loc())
    if not ctx.check("R3-forget-shape", "cas", len(cas) == 1 and len(ld) >= 1 and len(rm) == 1, "forget_one: expected one load/compare_exchange/remove, found %d/%d/%d: the decrement is not a compare-exchange loop" % (len(ld), len(cas), len(rm)), loc=b.loc()):
        return
    a = v.call_args(cas[0])
    cur, new = vf.render(a[1], b, short=True), vf.render(a[2], b, short=True)
    ctx.check("R3-forget-shape", "cas-expected", cur.startswith("Atomic::load(") and ".refcount" in cur, "forget_one's compare-exchange expects `%s`, not the value just loaded" % cur[:120], loc=cas[0].loc())
    ctx.check("R3-forget-shape", "saturating", new == "impl u64::saturating_sub(%s, count)" % cur, "forget_one computes the new count as `%s`; required saturating_sub(current, count)" % new[:160], loc=cas[0].loc(), detail=new[:120])
    g = [(vf.render(cond, b, short=True), lab) for (cond, lab, u) in v.guards(rm[0].bb)]
    okcas = any(t.startswith("Result::is_ok(Atomic::compare_exchange(") and lab != 0 for (t, lab) in g)
    okzero = any((t.startswith("Eq(0, impl u64::saturating_sub(") or t.startswith("Eq(impl u64::saturating_sub(")) and lab != 0 for (t, lab) in g)
    ctx.check("R3-forget-shape", "remove-after-cas", okcas, "forget_one removes the inode without a successful compare-exchange", loc=rm[0].loc())
    ctx.check("R3-forget-shape", "remove-at-zero", okzero, "forget_one removes the inode although the new count is not known to be 0", loc=rm[0].loc())
    km = vf.render(v.call_args(rm[0])[2], b, short=True, vfx=v)
    km_ok = re.fullmatch(r"phi\{!self\.cfg\.use_host_ino => 1 \| self\.cfg\.use_host_ino => Lt\(MAX_HOST_INO, .*\.id\.ino\)\}", km) is not None
    ctx.check("R3-forget-shape", "keep-mapping-exact", km_ok, "forget_one must keep the (id -> number) record exactly for numbers it minted itself: `!use_host_ino || id.ino > MAX_HOST_INO`; it computes `%s`" % km[:200], loc=rm[0].loc())
    ctx.check("R3-forget-shape", "keep-mapping", "use_host_ino" in km and "MAX_HOST_INO" in km, "forget_one's keep_mapping is `%s`" % km[:200], loc=rm[0].loc(), detail=km[:160])
    # orderings are not Relaxed
    for c in cas + ld[:1]:
        t = [vf.render(x, b, short=True) for x in v.call_args(c)[1:]]
        ctx.check("R3-forget-shape", "ordering/" + c.name, "Relaxed" not in t, "forget_one uses Relaxed ordering in %s" % c.name, loc=c.loc())
    # forget / batch_forget hold the write guard across forget_one
    for nm in ("forget", "batch_forget"):
        m = pfs_method(F, nm)
        mv = vf.VF(m, inline_depth=0)
        gm = [c for c in live_calls(m) if c.name == "get_map_mut"]
        fo = [c for c in live_calls(m) if c.name == "forget_one"]
        ok = len(gm) == 1 and len(fo) == 1 and m.dominates(gm[0].bb, fo[0].bb)
        if ok:
            a = mv.call_args(fo[0])
            ok = "get_map_mut" in vf.render(a[1], m, short=True)
            if nm == "forget":
                ok = ok and a[2] == ("P", m.param_index("inode")) and a[3] == ("P", m.param_index("count"))
            else:
                # the loop runs over the request vector exactly as received: every (inode, count) pair is applied
                it = [c for c in live_calls(m) if c.name == "into_iter"]
                src = mv.call_args(it[0])[0] if len(it) == 1 else None
                unchanged = src == ("P", m.param_index("requests"))
                ctx.check("R3-forget-shape", "batch_forget/all-requests", unchanged,
                          "batch_forget does not apply every (inode, count) pair of the request as received (it iterates `%s`): "
                          "entries are dropped or merged before the counts are subtracted" % (vf.render(src, m, short=True)[:120] if src else "?"), loc=m.loc())
                ok = ok and vf.render(a[2], m, short=True).endswith(".0") and vf.render(a[3], m, short=True).endswith(".1")
        ctx.check("R3-forget-shape", nm + "/under-write-guard", ok, "PassthroughFs::%s does not call forget_one on the write-locked store with the request's inode/count" % nm, loc=m.loc())


def r4_lookup(ctx, F):
    b = F.method(PFS, "do_lookup")
    ctx.fn_seen(b)
    v = vf.VF(b, inline_depth=0)
    cas = [c for c in live_calls(b) if c.name == "compare_exchange"]
    if ctx.check("R4-lookup-shape", "cas", len(cas) == 1, "do_lookup has %d compare-exchange sites on the fast path" % len(cas), loc=b.loc()):
        a = v.call_args(cas[0])
        cur, new = vf.render(a[1], b, short=True), vf.render(a[2], b, short=True)
        ctx.check("R4-lookup-shape", "increment", new == "impl u64::saturating_add(%s, 1)" % cur, "do_lookup's fast path sets the count to `%s`, required current+1" % new[:120], loc=cas[0].loc())
    fa = [c for c in live_calls(b) if c.name == "fetch_add" and "refcount" in vf.render(v.call_args(c)[0], b, short=True)]
    ok = len(fa) == 1
    if ok:
        ok = vf.render(v.call_args(fa[0])[1], b, short=True) == "1"
    ctx.check("R4-lookup-shape", "raced-increment", ok, "do_lookup: the raced-insert arm does not add exactly one reference", loc=b.loc())
    nw = [c for c in live_calls(b) if c.name == "new" and "InodeData" in (c.fn or "")]
    ok = len(nw) == 1
    if ok:
        ok = vf.render(v.call_args(nw[0])[2], b, short=True) == "1"
    ctx.check("R4-lookup-shape", "insert-count", ok, "do_lookup inserts a new inode with a reference count other than 1", loc=b.loc())
    # the inode number limit
    g = []
    ins = [c for c in live_calls(b) if c.name == "insert_locked"]
    if ins:
        g = [(vf.render(cond, b, short=True), lab) for (cond, lab, u) in v.guards(ins[0].bb)]
    ctx.check("R4-lookup-shape", "number-limit", any("VFS_MAX_INO" in t and t.startswith("Le(") and t.endswith(", VFS_MAX_INO)") and lab != 0 for (t, lab) in g),
              "do_lookup inserts an inode number without refusing numbers above VFS_MAX_INO", loc=b.loc())


def r5_who(ctx, F):
    writers = {}
    for k, b in F.fns.items():
        if not k.startswith("passthrough::") or "async_io" in k:
            continue
        v = None
        for c in live_calls(b):
            if c.name in ("store", "fetch_add", "fetch_sub", "compare_exchange", "swap", "fetch_update", "compare_exchange_weak") and "atomic" in (c.fn or "").lower():
                v = v or vf.VF(b, inline_depth=0)
                t = vf.render(v.call_args(c)[0], b, short=True)
                if t.endswith(".refcount"):
                    nm = b.name if b.kind != "closure" else F.fns[b.owner].name
                    writers.setdefault(nm, set()).add(c.name)
    for nm, ops in sorted(writers.items()):
        ctx.check("R5-who-may", "refcount-writer/" + nm, nm in ("do_lookup", "forget_one"), "%s modifies an inode's reference count (%s); only do_lookup and forget_one may" % (nm, sorted(ops)))
        ctx.check("R5-who-may", "refcount-ops/" + nm, "store" not in ops and "swap" not in ops, "%s overwrites the reference count with a plain store/swap: concurrent updates are lost" % nm)
    ctx.check("R5-who-may", "writers", set(writers) == {"do_lookup", "forget_one"}, "reference count writers are %s" % sorted(writers))
    rm = F.method(ISTORE, "remove")
    callers = set()
    for k, b in F.fns.items():
        for c in live_calls(b):
            if c.fn == rm.key:
                callers.add(b.name if b.kind != "closure" else F.fns[b.owner].name)
    ctx.check("R5-who-may", "store-remove-callers", callers == {"forget_one"}, "InodeStore::remove is called by %s; only forget_one may" % sorted(callers))


def r6_layout(ctx, F):
    mx = F.const("passthrough::util::MAX_HOST_INO") if "passthrough::util::MAX_HOST_INO" in F.consts else F.const("passthrough::MAX_HOST_INO")
    vmax = F.const("api::vfs::VFS_MAX_INO")
    ctx.check("R6-number-layout", "host-field", mx == (1 << 47) - 1, "MAX_HOST_INO is %#x, not 2^47-1" % mx)
    flag = None
    for k, c in F.consts.items():
        if k.endswith("VIRTUAL_INODE_FLAG") and "v" in c:
            flag = c["v"]
    ctx.check("R6-number-layout", "virtual-flag", flag == 1 << 55, "VIRTUAL_INODE_FLAG is %s, not 1<<55" % flag)
    ctx.check("R6-number-layout", "fits-vfs", flag is not None and (flag | (0xff << 47) | mx) <= vmax, "host/device/virtual fields exceed VFS_MAX_INO")
    # InodeStore insert/remove keep the three maps in step
    ins = F.method(ISTORE, "insert")
    v = vf.VF(ins, inline_depth=0)
    t = sorted(set(vf.render(v.call_args(c)[0], ins, short=True) for c in live_calls(ins) if c.name == "insert"))
    ctx.check("R6-number-layout", "store-insert", t == ["self.by_handle", "self.by_id", "self.data"], "InodeStore::insert updates %s" % t, loc=ins.loc())
    rm = F.method(ISTORE, "remove")
    v = vf.VF(rm, inline_depth=0)
    t = sorted(set(vf.render(v.call_args(c)[0], rm, short=True) for c in live_calls(rm) if c.name == "remove"))
    ctx.check("R6-number-layout", "store-remove", "self.data" in t and "self.by_id" in t and "self.by_handle" in t, "InodeStore::remove updates %s" % t, loc=rm.loc())
    # with remove_data_only the (key -> number) maps survive, so that a forgotten file gets the same number again
    for c in live_calls(rm):
        if c.name == "remove":
            tgt = vf.render(v.call_args(c)[0], rm, short=True)
            g = [(vf.render(cond, rm, short=True), lab) for (cond, lab, u) in v.guards(c.bb)]
            if tgt in ("self.by_id", "self.by_handle"):
                ctx.check("R6-number-layout", "store-remove/keeps-%s" % tgt.split(".")[1], ("remove_data_only", 0) in g,
                          "InodeStore::remove drops the %s entry even when only the data is to be removed: a file looked up again after being "
                          "forgotten gets a different inode number" % tgt, loc=c.loc())
            elif tgt == "self.data":
                ctx.check("R6-number-layout", "store-remove/data-always", not any(t == "remove_data_only" for (t, l) in g),
                          "InodeStore::remove does not always remove the inode data", loc=c.loc())


META = {
    "technique": "reference pairing over MIR (do_lookup result returned or forgotten on every exit), shape rules for the decrement/increment sites, who-may-write the count, constant relations",
    "text": "Decides: each entry-returning operation takes exactly one lookup reference and either returns that entry or forgets it on every "
            "other exit; readdir always gives its temporary reference back; readdirplus gives back the reference of every entry it did not "
            "deliver (with the number do_lookup returned); forget_one exempts the root, decrements saturating by compare-exchange and removes "
            "only at zero; do_lookup adds exactly one reference on each of its three arms; only do_lookup/forget_one touch the count; only "
            "forget_one removes from the store.",
    "note": "Not decided: injectivity/stability of numbers against the host; liveness through open descriptors after unlink.",
}
META["text"] += " " + "Also: the reference given back on an error path is the looked-up inode's, once, also for explicit `return Err`."
