"""C04 — transport readers/writers move every byte exactly once, in order, within bounds.

R1 delegation: Bytes<usize> for FileVolatileSlice, the Writer enum, `impl FileReadWriteVolatile for &mut T`
R2 syscall table of `impl FileReadWriteVolatile for File`
R3 bounds: space check before every appending writer method; truncation in the slice allocators;
   split points meet; raw-parts arithmetic of FuseDevWriter::split_at
R4 consumed-counter coherence (mark_used)
R5 append position of raw file reads into the fusedev buffer
R6 async siblings agree with the sync methods (cfg A)
R2-copy-loop VirtioFsWriter::write copies min(remaining, slice) bytes per slice, advances source and total by that amount
R6 (cont.) unrolled async vectored I/O: the k-th operation of a group runs at the group offset plus the lengths of the k earlier buffers; FuseDevWriter async writers append each byte-slice argument once in order and account every direct write/read; async slice preparers truncate like the sync allocator
R7 FuseDevWriter::commit arms
R2-copy-loop (cont.) FuseDevWriter::write / write_vectored effects (append when buffered, one accounted device write otherwise); the provided read_exact[_at]/write_all[_at] loops advance slice and offset by what was moved
R8 retry: whole-buffer loops retry only on the Interrupted edge, run while count > 0, treat a zero-length transfer as an error, count down by what was moved
R6 (cont.) VirtioFsWriter::async_write2/3 refuse on the combined length first; FuseDevWriter async writers return the total
"""
import re
from pyfbr import core, vf
from rules import common

BYTES_TRAIT = "vm_memory::Bytes"
FRWV = "common::file_traits::FileReadWriteVolatile"
FDW = "transport::fusedev::FuseDevWriter"
VFW = "transport::virtiofs::VirtioFsWriter"
IOB = "transport::IoBuffers"


def live_calls(b):
    r = b.reachable()
    return [c for c in b.calls() if c.bb in r and not b.is_cleanup(c.bb)]


def run(ctx):
    ctx.explanation = (
        "Structural clauses of the transport layer decided on every path of the type-checked code: adapters "
        "delegate to the same-named operation with their own arguments; file I/O methods call the matching "
        "system call on the slice's own pointer/length; every appending writer method is dominated by a space "
        "check of the amount it writes; slice allocation truncates to the requested count; the two halves of a "
        "split meet at one point; raw reads into the fusedev buffer land at the current length; counters are "
        "advanced by the amount consumed.")
    F = ctx.facts("S") or ctx.facts("D")
    if F is None:
        return
    ctx.run_rule("R1-delegation", r1_delegation, F)
    ctx.run_rule("R2-syscall", r2_syscalls, F)
    ctx.run_rule("R3-space-check", r3_space_check, F)
    ctx.run_rule("R3-truncate", r3_truncate, F)
    ctx.run_rule("R3-split", r3_split, F)
    ctx.run_rule("R4-counters", r4_counters, F)
    ctx.run_rule("R5-append-position", r5_append, F, False)
    ctx.run_rule("R7-commit", r7_commit, F)
    ctx.run_rule("R2-copy-loop", r2_copy_loop, F)
    ctx.run_rule("R8-retry", r8_retry, F)
    A = ctx.facts("A", required=False)
    if A is not None:
        ctx.run_rule("R6-async-siblings", r6_async, A)
        ctx.run_rule("R8-retry", r8_retry, A, True)
        from rules import c17
        ctx.run_rule("R2-mark-amount-async", c17.r2_async, A)     # the async file read advances the writer by what it read (shared with C17)
        ctx.run_rule("R3-truncate", r3_truncate, A, ("prepare_io_buf", "prepare_mut_io_buf"))
    else:
        ctx.notes.append("configuration A unavailable: async sibling rules skipped")
    ctx.assumptions += ["vm-memory's VolatileSlice operations are correct", "byte contents and concurrent guest writes are not examined"]


# ------------------------------------------------------------------ R1

def forward_ok(ctx, rule, key, b, callee_ok, self_ok=None, what=""):
    """b must consist of one call to an accepted callee, passing its own parameters 2.. in order and
    returning the call's result (or a value derived only from it)."""
    ctx.fn_seen(b)
    v = vf.VF(b, inline_depth=0)
    cs = [c for c in live_calls(b) if callee_ok(c)]
    others = [c for c in live_calls(b) if not callee_ok(c) and c.name not in ("as_volatile_slice", "deref", "deref_mut", "borrow_mut", "borrow")]
    if not ctx.check(rule, key + "/callee", len(cs) == 1,
                     "%s %s delegates to %s instead of exactly one same-named operation" % (what, b.name, [c.name for c in live_calls(b)]),
                     loc=b.loc()):
        return False
    c = cs[0]
    args = v.call_args(c)
    bad = []
    for k in range(1, len(args)):
        if args[k] != ("P", k + 1):
            bad.append("argument %d receives `%s` instead of parameter `%s`" % (k, vf.render(args[k], b, short=True), b.local_name(k + 1)))
    ok = ctx.check(rule, key + "/args", not bad and len(args) == b.argc,
                   "%s %s does not pass its parameters through in order: %s" % (what, b.name, "; ".join(bad) or "arity"), loc=c.loc())
    if self_ok is not None:
        ctx.check(rule, key + "/self", self_ok(args[0]), "%s %s does not operate on its own object: `%s`" % (what, b.name, vf.render(args[0], b, short=True)), loc=c.loc())
    r = v.ret()
    ctx.check(rule, key + "/ret", r[0] == "C" and r[4] == (b.key, c.bb), "%s %s does not return the delegate's result" % (what, b.name), loc=b.loc())
    return ok


def r1_delegation(ctx, F):
    # (a) Bytes<usize> for FileVolatileSlice -> VolatileSlice::<same name>
    n = 0
    for b in F.fns.values():
        if b.self_adt == "common::file_buf::FileVolatileSlice" and (b.trait or "").startswith(BYTES_TRAIT) and b.kind == "assoc":
            n += 1
            forward_ok(ctx, "R1-delegation", "FileVolatileSlice::" + b.name, b,
                       lambda c, b=b: c.name == b.name and "VolatileSlice" in (c.self_adt or c.self_ty or c.fn or "")
                       and "FileVolatileSlice" not in (c.self_adt or c.self_ty or ""),
                       lambda a: a[0] == "C" and a[1].endswith("as_volatile_slice") and a[3] and a[3][0] == ("P", 1),
                       "FileVolatileSlice as Bytes:")
    ctx.check("R1-delegation", "FileVolatileSlice/count", n >= 10, "only %d Bytes methods found on FileVolatileSlice" % n)
    # (b) impl FileReadWriteVolatile for &mut T -> (**self).<same name>
    n = 0
    for b in F.fns.values():
        if (b.self_ty or "") == "&mut T" and b.trait == FRWV and b.kind == "assoc":
            n += 1
            forward_ok(ctx, "R1-delegation", "&mut T::" + b.name, b,
                       lambda c, b=b: c.name == b.name and c.trait == FRWV,
                       lambda a: a == ("P", 1), "&mut T as FileReadWriteVolatile:")
    ctx.check("R1-delegation", "&mut T/count", n >= 12, "only %d FileReadWriteVolatile methods found on &mut T" % n)
    # (c) Writer enum: each arm calls the same-named method of the variant's writer with the same args
    n = 0
    for b in F.fns.values():
        if b.self_adt == "transport::Writer" and b.kind == "assoc" and b.name in (
                "write", "write_vectored", "flush", "available_bytes", "bytes_written", "commit", "split_at", "write_from_at"):
            n += 1
            ctx.fn_seen(b)
            v = vf.VF(b, inline_depth=0)
            cs = [c for c in live_calls(b) if c.self_adt in (FDW, VFW) or (c.trait == "std::io::Write" and c.name == b.name)]
            names = sorted(set(c.name for c in cs))
            ctx.check("R1-delegation", "Writer::%s/callee" % b.name, names == [b.name] and len(cs) >= 1,
                      "Writer::%s arms call %s" % (b.name, names), loc=b.loc())
            for c in cs:
                args = v.call_args(c)
                recv = args[0]
                var = None
                x = recv
                while x[0] in ("F", "V"):
                    if x[0] == "V":
                        var = x[2]
                    x = x[1]
                which = {"FuseDev": "FuseDevWriter", "VirtioFs": "VirtioFsWriter"}.get(var)
                callee_ty = (c.self_adt or c.self_ty or "")
                ctx.check("R1-delegation", "Writer::%s/%s/recv" % (b.name, var), x == ("P", 1) and which is not None and which in callee_ty,
                          "Writer::%s arm %s calls %s on `%s`" % (b.name, var, callee_ty, vf.render(recv, b, short=True)), loc=c.loc())
                bad = [k for k in range(1, len(args)) if args[k] != ("P", k + 1)]
                ctx.check("R1-delegation", "Writer::%s/%s/args" % (b.name, var), not bad,
                          "Writer::%s arm %s does not pass its parameters in order" % (b.name, var), loc=c.loc())
    ctx.check("R1-delegation", "Writer/count", n >= 7, "only %d Writer methods found" % n)
    ctx.floor("R1-delegation", 110)


# ------------------------------------------------------------------ R2

SYSCALLS = {
    "read_volatile": ("libc::read", False, False), "write_volatile": ("libc::write", False, False),
    "read_at_volatile": ("libc::pread64", False, True), "write_at_volatile": ("libc::pwrite64", False, True),
    "read_vectored_volatile": ("libc::readv", True, False), "write_vectored_volatile": ("libc::writev", True, False),
    "read_vectored_at_volatile": ("libc::preadv64", True, True), "write_vectored_at_volatile": ("libc::pwritev64", True, True),
}


def r2_syscalls(ctx, F):
    n = 0
    for b in F.fns.values():
        if (b.self_ty or "") == "std::fs::File" and b.trait == FRWV and b.name in SYSCALLS:
            n += 1
            ctx.fn_seen(b)
            want, vec, at = SYSCALLS[b.name]
            v = vf.VF(b)
            sc = [c for c in live_calls(b) if (c.fn or "").startswith("libc::")]
            if not ctx.check("R2-syscall", b.name + "/call", [c.fn for c in sc] == [want],
                             "File::%s issues %s, the operation is %s" % (b.name, [c.fn for c in sc], want), loc=b.loc()):
                continue
            a = v.call_args(sc[0])
            fd = vf.render(a[0], b, short=True)
            ctx.check("R2-syscall", b.name + "/fd", "as_raw_fd(self)" in fd, "File::%s uses descriptor `%s`, not its own" % (b.name, fd), loc=sc[0].loc())
            if not vec:
                p = vf.render(vf.strip_casts(a[1]), b, short=True)
                ln = vf.render(vf.strip_casts(a[2]), b, short=True)
                ctx.check("R2-syscall", b.name + "/buf", p == "FileVolatileSlice::as_ptr(slice)" or p == "slice.addr",
                          "File::%s passes pointer `%s`, not the slice's" % (b.name, p), loc=sc[0].loc(), detail=p)
                ctx.check("R2-syscall", b.name + "/len", ln in ("FileVolatileSlice::len(slice)", "slice.size"),
                          "File::%s passes length `%s`, not the slice's" % (b.name, ln), loc=sc[0].loc(), detail=ln)
            else:
                p = vf.render(vf.strip_casts(a[1]), b, short=True)
                ln = vf.render(vf.strip_casts(a[2]), b, short=True)
                ctx.check("R2-syscall", b.name + "/iov", "bufs" in p, "File::%s iovec pointer `%s`" % (b.name, p), loc=sc[0].loc(), detail=p)
                ctx.check("R2-syscall", b.name + "/iovcnt", "len(" in ln, "File::%s iovec count `%s` is not a length" % (b.name, ln), loc=sc[0].loc(), detail=ln)
            if at:
                off = vf.render(vf.strip_casts(a[3]), b, short=True)
                ctx.check("R2-syscall", b.name + "/offset", off == "offset", "File::%s passes offset `%s`, not its `offset` parameter" % (b.name, off), loc=sc[0].loc())
            # the syscall result is tested: negative -> last_os_error
            neg = [c for c in live_calls(b) if c.name == "last_os_error"]
            ctx.check("R2-syscall", b.name + "/errno", len(neg) == 1, "File::%s does not convert a failing result with last_os_error()" % b.name, loc=b.loc())
    ctx.check("R2-syscall", "count", n == 8, "%d of 8 file I/O methods found" % n)
    ctx.floor("R2-syscall", 40)


# ------------------------------------------------------------------ R3

# raw effects on the buffer; calls to other (checked) writer methods are delegation and safe by induction
RAW_EFFECTS = ("extend_from_slice", "do_write", "writev", "pwrite", "account_written", "consume_for_write", "consume",
               "read_vectored_volatile", "read_vectored_at_volatile", "set_len", "async_read_at_volatile",
               "async_read_vectored_volatile", "async_read_vectored_at_volatile", "prepare_mut_io_buf", "mark_used", "mark_dirty")
DELEGATES = ("write", "write_all", "write_vectored", "write_from", "write_from_at", "write_all_from", "async_write", "async_write2",
             "async_write3", "async_write_all", "async_write_from_at", "write_obj")
EFFECTS = RAW_EFFECTS + DELEGATES

WRITER_METHODS = {
    FDW: {"write": "impl [T]::len(data)", "write_vectored": None, "write_from": "count", "write_from_at": "count", "write_all_from": "count"},
    VFW: {"write": "impl [T]::len(buf)", "write_vectored": None, "write_from": "count", "write_from_at": "count", "write_all_from": "count"},
}


def loop_sum_of_lengths(b, name):
    """is local `name` a running sum of the lengths of the elements some loop in b iterates over (init 0, step += len(elem))?"""
    ov = vf.VF(b, inline_depth=0, opaque_loops=True)
    l = [i for i in range(len(b.locals)) if b.local_name(i) == name]
    for h in sorted(ov.loop_headers()):
        for li in l:
            try:
                init, step = ov.loop_def(li, h)
            except Exception:
                continue
            it = [vf.render(x[1], b, short=True, vfx=ov) for x in init]
            st = [vf.render(x[1], b, short=True, vfx=ov) for x in step]
            grows = [t for t in st if re.fullmatch(r"Add\(impl \[T\]::len\(some\(Iter::next\(loop\(iter\)\)\)\), loop\(%s\)\)" % re.escape(name), t)]
            same = [t for t in st if t == "loop(%s)" % name]
            if it == ["0"] and grows and len(grows) + len(same) == len(st):
                return True
    return False


def check_space_dominates(ctx, rule, b, amount_text, tag):
    ctx.fn_seen(b)
    v = vf.VF(b)
    calls = live_calls(b)
    chk = [c for c in calls if c.name == "check_available_space"]
    key = "%s::%s" % (tag, b.name)
    if not ctx.check(rule, key + "/present", len(chk) >= 1,
                     "%s::%s writes without calling check_available_space first" % (tag, b.name), loc=b.loc()):
        return
    c0 = chk[0]
    # refusal: the Err edge of the `?` after the check returns
    effs = [c for c in calls if c.name in EFFECTS and c is not c0 and not (c.trait == "std::ops::Try")]
    bad = [c for c in effs if not (b.dominates(c0.bb, c.bb) and c0.bb != c.bb)]
    ctx.check(rule, key + "/dominates", not bad,
              "%s::%s: %s can execute before/without the space check" % (tag, b.name, sorted(set(c.name for c in bad))), loc=(bad[0].loc() if bad else b.loc()))
    # every effect is on the Ok edge of the check's `?`
    for c in effs[:1]:
        gs = v.guards(c.bb)
        okedge = any(g[0][0] == "D" and g[1] == 0 and "check_available_space" in vf.render(g[0], b, short=True) for g in gs)
        ctx.check(rule, key + "/refuses", okedge, "%s::%s: the space check's failure does not stop the write" % (tag, b.name), loc=c.loc())
    if amount_text is not None:
        a = vf.render(v.call_args(c0)[1], b, short=True)
        ctx.check(rule, key + "/amount", a == amount_text, "%s::%s checks space for `%s` but writes `%s`" % (tag, b.name, a, amount_text), loc=c0.loc(), detail=a)
    else:
        # vectored: the amount is a fold over the slices' lengths
        a = vf.render(v.call_args(c0)[1], b, short=True)
        okamt = "fold(" in a and "bufs" in a
        if not okamt:
            # or a running sum kept by a loop over the slices
            oa = vf.render(vf.VF(b, inline_depth=0, opaque_loops=True).call_args(c0)[1], b, short=True)
            m_ = re.fullmatch(r"loop\((\w+)\)", oa)
            okamt = m_ is not None and loop_sum_of_lengths(b, m_.group(1))
        ctx.check(rule, key + "/amount", okamt, "%s::%s: space check amount `%s` is not the sum over the slices" % (tag, b.name, a), loc=c0.loc(), detail=a)


def r3_space_check(ctx, F):
    for adt, methods in WRITER_METHODS.items():
        tag = adt.rsplit("::", 1)[-1]
        for m, amt in methods.items():
            bs = [b for b in F.find(name=m, self_adt=adt) if b.kind == "assoc"]
            if len(bs) != 1:
                raise core.Anchor("%s::%s (%d)" % (tag, m, len(bs)))
            check_space_dominates(ctx, "R3-space-check", bs[0], amt, tag)
    # the check itself refuses when the amount exceeds what is left
    for adt in (FDW, VFW):
        b = F.method(adt, "check_available_space")
        ctx.fn_seen(b)
        v = vf.VF(b, inline_depth=0)
        r = vf.render(v.ret(), b, short=True, vfx=v)
        tag = adt.rsplit("::", 1)[-1]
        # in guard normal form: the arm `available_bytes(self) < amount` yields Err, the complementary arm Ok(())
        ok = re.search(r"Lt\(%s::available_bytes\(self\), .*?\) => Err\(" % tag, r) is not None and \
            re.search(r"Le\(.*?, %s::available_bytes\(self\)\) => Ok\(\(\)\)" % tag, r) is not None
        ctx.check("R3-space-check", tag + "::check_available_space/refuses", ok,
                  "%s::check_available_space no longer refuses amounts larger than available_bytes(): `%s`" % (tag, r[:200]), loc=b.loc())
    # account_written(n) only after a check (fusedev): callers are the checked methods or closures of them
    aw = F.method(FDW, "account_written")
    for b in F.fns.values():
        for c in live_calls(b):
            if c.fn == aw.key:
                # closures (and, with async-io, the coroutine body and its closures) count with their enclosing method
                chain = [b]
                while chain[-1].owner and F.fns.get(chain[-1].owner) is not None and len(chain) < 6:
                    chain.append(F.fns[chain[-1].owner])
                owner = chain[-1]
                family = chain + [x for x in F.fns.values() if x.owner == owner.key and x.kind == "coroutine"]
                ok = owner.self_adt == FDW and any(x.name == "check_available_space" for y in family for x in live_calls(y))
                if not ok and owner.self_adt == FDW:
                    # a private helper: every one of its call sites must come after the caller's own space check
                    sites = [(y, x) for y in F.fns.values() for x in live_calls(y) if (x.res or x.fn) == owner.key]
                    ok = bool(sites)
                    for (y, x) in sites:
                        cs = [z for z in live_calls(y) if z.name == "check_available_space"]
                        ok = ok and y.self_adt == FDW and any(y.dominates(z.bb, x.bb) for z in cs)
                ctx.check("R3-space-check", "account_written@%s" % (owner.name if owner else b.name), ok,
                          "account_written is called from %s, which performs no space check" % b.key, loc=c.loc())
    ctx.floor("R3-space-check", 40)


def r3_truncate(ctx, F, names=("allocate_file_volatile_slice", "mark_dirty")):
    """Slice allocators hand out at most `count` bytes: a buffer longer than the remainder is cut with
    subslice(0, rem) on the `len > rem` edge, and rem decreases by the length handed out."""
    for nm in names:
        if nm == "allocate_file_volatile_slice" and not [x for x in F.find(name=nm, self_adt=IOB)]:
            nm = "consume"          # the one-caller helper merged back into IoBuffers::consume: the same loop is judged there
        b = F.method(IOB, nm)
        ctx.fn_seen(b)
        v = vf.VF(b)
        subs = [c for c in live_calls(b) if c.name == "subslice"]
        if not ctx.check("R3-truncate", nm + "/subslice", len(subs) == 1, "%s: expected one truncating subslice, found %d" % (nm, len(subs)), loc=b.loc()):
            continue
        c = subs[0]
        a = v.call_args(c)
        rem_txt = vf.render(a[2], b, short=True)
        ctx.check("R3-truncate", nm + "/from-zero", a[1][0] == "K" and a[1][1] == 0, "%s: truncation does not start at offset 0" % nm, loc=c.loc())
        g = [(vf.render(cond, b, short=True), lab) for (cond, lab, u) in v.guards(c.bb)]
        want = vf.fact("Gt(VolatileSlice::len(%s), %s)" % (vf.render(a[0], b, short=True), rem_txt))
        ctx.check("R3-truncate", nm + "/guard", (want, "otherwise") in g,
                  "%s: the truncation to `%s` is not on the `len > rem` edge (guards %s)" % (nm, rem_txt, [x for x in g if "len" in x[0]]), loc=c.loc(), detail=want)
        # the loop stops at rem == 0 and rem -= len(local)
        txt = [vf.render(cond, b, short=True) for bb in b.reachable() if b.term(bb)[0] == "switch"
               for cond in [v.operand(b.term(bb)[1], bb, len(b.stmts(bb)))]]
        ctx.check("R3-truncate", nm + "/stop", any(t.startswith("Eq(") and "0" in t and "rem" in t.replace("loop(rem)", "rem") or t.startswith("Eq(0, ") for t in txt),
                  "%s: the loop no longer stops when the remaining count is 0" % nm, loc=b.loc())
        # ... and it is the `== 0` edge that leaves the loop
        from rules import c10
        ov = vf.VF(b, inline_depth=0, opaque_loops=True)
        pol = []
        for h in sorted(ov.loop_headers()):
            for (cond, edges, u, g_) in c10.loop_switches(b, ov, h):
                if cond in ("Eq(0, loop(rem))", "Eq(loop(rem), 0)"):
                    pol.append(edges)
        ctx.check("R3-truncate", nm + "/stop-polarity", pol == [{0: "loop", "otherwise": "exit"}],
                  "%s: the walk must end exactly when the remaining count is 0 and go on otherwise (edges of the `rem == 0` test: %s)" % (nm, pol), loc=b.loc())
        subs_ = []
        for bb in b.reachable():
            for s in b.stmts(bb):
                if s[0] == "=" and s[2][0] == "bin" and s[2][1].startswith("Sub"):
                    subs_.append((bb, s))
        ok = False
        for (bb, s) in subs_:
            i = b.stmts(bb).index(s)
            x = v.operand(s[2][2], bb, i)
            y = v.operand(s[2][3], bb, i)
            ty = vf.render(y, b, short=True)
            if "len(" in ty and "rem" in vf.render(x, b, short=True):
                ok = True
        ctx.check("R3-truncate", nm + "/decrement", ok, "%s: rem is not decreased by the length of the slice handed out" % nm, loc=b.loc())


def r3_split(ctx, F):
    # IoBuffers::split_at: head = front.subslice(0, X), tail = front.offset(Y) with X == Y
    b = F.method(IOB, "split_at")
    ctx.fn_seen(b)
    v = vf.VF(b)
    sub = [c for c in live_calls(b) if c.name == "subslice"]
    off = [c for c in live_calls(b) if c.name == "offset"]
    if ctx.check("R3-split", "IoBuffers/shape", len(sub) == 1 and len(off) == 1, "IoBuffers::split_at: shape not recognised (%d subslice, %d offset)" % (len(sub), len(off)), loc=b.loc()):
        sa, oa = v.call_args(sub[0]), v.call_args(off[0])
        ctx.check("R3-split", "IoBuffers/same-buffer", vf.erase_sites(sa[0]) == vf.erase_sites(oa[0]), "IoBuffers::split_at: head and tail are cut from different buffers", loc=off[0].loc())
        ctx.check("R3-split", "IoBuffers/meet", vf.erase_sites(sa[2]) == vf.erase_sites(oa[1]) and sa[1][0] == "K" and sa[1][1] == 0,
                  "IoBuffers::split_at: head ends at `%s` but tail starts at `%s`" % (vf.render(sa[2], b, short=True), vf.render(oa[1], b, short=True)),
                  loc=off[0].loc(), detail=vf.render(sa[2], b, short=True))
        # the in-segment position comes from the running remainder, not from the raw offset
        ctx.check("R3-split", "IoBuffers/remainder", sa[2][0] in ("UPD", "UPDF"), "IoBuffers::split_at cuts at the absolute offset, not at the remainder inside the segment", loc=sub[0].loc())
    r = vf.render(v.ret(), b, short=True, vfx=v)
    ctx.check("R3-split", "IoBuffers/out-of-bounds", "SplitOutOfBounds" in r, "IoBuffers::split_at no longer refuses an offset beyond the buffers", loc=b.loc())
    # FuseDevWriter::split_at
    b = F.method(FDW, "split_at")
    ctx.fn_seen(b)
    v = vf.VF(b)
    frp = [c for c in live_calls(b) if c.name == "from_raw_parts"]
    if ctx.check("R3-split", "FuseDevWriter/shape", len(frp) == 2, "FuseDevWriter::split_at: expected two Vec::from_raw_parts, found %d" % len(frp), loc=b.loc()):
        roots = [(("P", 2), "offset")]
        t = [[vf.render(x, b, roots, short=True, vfx=v) for x in v.call_args(c)] for c in frp]
        head, tail = t[0], t[1]
        ctx.check("R3-split", "FuseDevWriter/head", head[0] == "Vec::as_mut_ptr(self.buf)" and head[2] == "offset",
                  "FuseDevWriter::split_at head is (%s, _, %s), required (buf ptr, len1, offset)" % (head[0], head[2]), loc=frp[0].loc(), detail=str(head))
        ctx.check("R3-split", "FuseDevWriter/tail", tail[0] == "impl *mut T::add(Vec::as_mut_ptr(self.buf), offset)" and tail[2] == "Sub(Vec::capacity(self.buf), offset)",
                  "FuseDevWriter::split_at tail is (%s, _, %s), required (ptr+offset, len2, capacity-offset)" % (tail[0], tail[2]), loc=frp[1].loc(), detail=str(tail))
        ctx.check("R3-split", "FuseDevWriter/lens", "offset" in head[1] and "Vec::len(self.buf)" in head[1] and "Sub(Vec::len(self.buf), offset)" in tail[1],
                  "FuseDevWriter::split_at lengths are (%s / %s)" % (head[1][:120], tail[1][:120]), loc=frp[0].loc())
        g = [(vf.render(cond, b, roots, short=True), lab) for (cond, lab, u) in v.guards(frp[0].bb)]
        ctx.check("R3-split", "FuseDevWriter/out-of-bounds", (vf.neg_fact("Lt(Vec::capacity(self.buf), offset)"), "otherwise") in g,
                  "FuseDevWriter::split_at does not refuse offset > capacity before building the halves (guards %s)" % g, loc=frp[0].loc())


# ------------------------------------------------------------------ R4

def r4_counters(ctx, F):
    b = F.method(IOB, "mark_used")
    ctx.fn_seen(b)
    v = vf.VF(b)
    # bytes_consumed := checked_add(bytes_consumed, n) on the Ok path
    writes = []
    for bb in b.reachable():
        if b.is_cleanup(bb):
            continue
        for i, s in enumerate(b.stmts(bb)):
            if s[0] == "=" and len(s[1]) >= 3 and s[1][1] == "*" and isinstance(s[1][2], list) and s[1][2][2] == "bytes_consumed":
                writes.append(vf.render(v.rvalue(s[2], bb, i), b, short=True))
    ctx.check("R4-counters", "mark_used/total", len(writes) == 1 and "checked_add(self.bytes_consumed, bytes_consumed)" in writes[0],
              "mark_used: bytes_consumed is set to %s, required checked_add(self.bytes_consumed, n)" % writes, loc=b.loc(), detail=str(writes))
    # the re-slice of a partially used buffer is offset(rem) under rem < len
    off = [c for c in live_calls(b) if c.name == "offset"]
    if ctx.check("R4-counters", "mark_used/reslice", len(off) == 1, "mark_used: expected one re-slice, found %d" % len(off), loc=b.loc()):
        a = v.call_args(off[0])
        g = [(vf.render(cond, b, short=True), lab) for (cond, lab, u) in v.guards(off[0].bb)]
        want = "Lt(%s, VolatileSlice::len(%s))" % (vf.render(a[1], b, short=True), vf.render(a[0], b, short=True))
        ctx.check("R4-counters", "mark_used/reslice-guard", (want, "otherwise") in g, "mark_used: the partial buffer is not re-sliced at the remainder (`%s` not among %s)" % (want, [x for x in g if x[0].startswith("Lt")]), loc=off[0].loc())
    # consume(): the closure's result is what is marked used (and dirty)
    b = F.method(IOB, "consume")
    ctx.fn_seen(b)
    v = vf.VF(b)
    mu = [c for c in live_calls(b) if c.name == "mark_used"]
    md = [c for c in live_calls(b) if c.name == "mark_dirty"]
    if ctx.check("R4-counters", "consume/shape", len(mu) == 1 and len(md) == 1, "consume: shape not recognised", loc=b.loc()):
        x = vf.render(v.call_args(mu[0])[1], b, short=True)
        y = vf.render(v.call_args(md[0])[1], b, short=True)
        ctx.check("R4-counters", "consume/used-amount", "call_once(f" in x and x.endswith("?"), "consume marks `%s` as used, not the closure's result" % x, loc=mu[0].loc(), detail=x)
        ctx.check("R4-counters", "consume/same-amount", x == y, "consume marks `%s` dirty but `%s` used" % (y, x), loc=md[0].loc())
        al = [c for c in live_calls(b) if c.name == "allocate_file_volatile_slice"]
        if not al and not [x for x in F.find(name="allocate_file_volatile_slice", self_adt=IOB)]:
            # merged allocator: the truncating loop in consume itself starts from `count` (R3-truncate judges the loop)
            ov_ = vf.VF(b, inline_depth=0, opaque_loops=True)
            rl_ = [i for i in range(len(b.locals)) if b.local_name(i) == "rem"]
            inits_ = []
            for h_ in sorted(ov_.loop_headers()):
                for li_ in rl_:
                    try:
                        inits_ += [vf.render(x[1], b, short=True, vfx=ov_) for x in ov_.loop_def(li_, h_)[0]]
                    except Exception:
                        pass
            ctx.check("R4-counters", "consume/bounded", "count" in inits_, "consume does not bound the slices by `count` (merged allocator loop starts from %s)" % inits_, loc=b.loc())
            al = None
        if al is not None:
          ctx.check("R4-counters", "consume/bounded", len(al) == 1 and vf.render(v.call_args(al[0])[1], b, short=True) == "count",
                  "consume does not bound the slices by `count`", loc=b.loc())


# ------------------------------------------------------------------ R5

def r7_commit(ctx, F):
    """FuseDevWriter::commit sends exactly the non-empty parts (own buffer, then the split-off writer's buffer) in one system call:
    nothing when both are empty, write(own) / write(other) when one is, writev([own, other]) when both are."""
    b = F.method(FDW, "commit")
    ctx.fn_seen(b)
    vf.NOUPD[0] = True
    vf.NOCAST[0] = True
    try:
        v = vf.VF(b, inline_depth=0)
        own = "Vec::as_slice(self.buf)"
        got = set()
        for c in live_calls(b):
            if c.name not in ("write", "writev") or not (c.fn or "").startswith("nix::"):
                continue
            a = [vf.render(x, b, short=True, vfx=v) for x in v.call_args(c)]
            g = [(vf.render(x, b, short=True), l) for (x, l, u) in v.guards(c.bb)]
            so = [l for (t, l) in g if t in ("Vec::len(self.buf)", "impl [T]::len(Vec::as_slice(self.buf))", "impl [T]::len(%s)" % own)]
            oo = [l for (t, l) in g if t.startswith("impl [T]::len(") and "other" in t]
            if c.name == "writev":
                parts = "own+other" if a[1].startswith("[IoSlice::new(%s), IoSlice::new(" % own) and "other" in a[1] else a[1][:80]
            else:
                parts = "own" if a[1] == own else ("other" if "other" in a[1] and own not in a[1] else a[1][:80])
            got.add((c.name, a[0], parts, "own=%s" % ("empty" if so == [0] else "nonempty" if so == ["otherwise"] else so),
                     "other=%s" % ("empty" if oo == [0] else "nonempty" if oo == ["otherwise"] else oo)))
        want = {("write", "self.fd", "other", "own=empty", "other=nonempty"), ("write", "self.fd", "own", "own=nonempty", "other=empty"),
                ("writev", "self.fd", "own+other", "own=nonempty", "other=nonempty")}
        ctx.check("R7-commit", "arms", got == want,
                  "FuseDevWriter::commit issues %s; required %s (data held by either writer must reach the descriptor)" % (sorted(got - want) or "fewer calls", sorted(want - got) or "nothing more"),
                  loc=b.loc(), detail=str(sorted(got))[:200])
        rt = vf.render(v.ret(), b, short=True, vfx=v)
        ctx.check("R7-commit", "unbuffered-noop", rt.startswith("phi{!self.buffered => Ok(0) | self.buffered => "), "FuseDevWriter::commit must be a no-op only for an unbuffered writer", loc=b.loc())
        o = vf.def_value(v, b, "o")
        ot = vf.render(o, b, short=True, vfx=v) if o is not None else ""
        ctx.check("R7-commit", "other-is-the-split-writer", "Vec::as_slice(some(other)@FuseDev.0.buf)" in ot, "FuseDevWriter::commit: the second part is not the other writer's buffer: `%s`" % ot[:160], loc=b.loc())
    finally:
        vf.NOUPD[0] = False
        vf.NOCAST[0] = False


def r5_append(ctx, F, is_async):
    """Raw reads into the fusedev buffer: pointer = buf.as_mut_ptr().add(buf.len()), size = the checked count."""
    n = 0
    for b in list(F.fns.values()) + list(F.built.values()):
        owner = F.fns.get(b.owner) if b.owner else b
        if owner is None or owner.self_adt != FDW:
            continue
        if b.key in F.built and b.stage != "built":
            continue
        v = vf.VF(b)
        for c in live_calls(b):
            if c.name in ("from_raw_ptr",) and "file_buf" in (c.fn or ""):
                n += 1
                a = v.call_args(c)
                p = vf.render(a[0], b, short=True)
                key = "%s@%s" % (owner.name, c.fn.rsplit("::", 2)[-2].strip("<>").split("::")[-1] if False else owner.name)
                okp = "add(" in p and "Vec::as_mut_ptr(" in p and "Vec::len(" in p and "self.buf" in p.replace("^self", "self")
                ctx.check("R5-append-position", owner.name + "/ptr", okp,
                          "FuseDevWriter::%s reads file data to `%s`; it must land at buf.as_mut_ptr().add(buf.len())" % (owner.name, p), loc=c.loc(), detail=p)
    ctx.check("R5-append-position", "count" + ("-async" if is_async else ""), n >= (3 if is_async else 2), "only %d raw buffer adapters found" % n)


def r6_async(ctx, A):
    # async writer methods: same space-check discipline, same append position
    names = ("async_write", "async_write2", "async_write3", "async_write_from_at", "async_commit")
    for adt in (FDW, VFW):
        tag = adt.rsplit("::", 1)[-1]
        for b in A.built.values():
            owner = A.fns.get(b.owner)
            if owner is None or owner.self_adt != adt or not owner.name.startswith("async_write"):
                continue
            ctx.fn_seen(b)
            calls = live_calls(b)
            chk = [c for c in calls if c.name == "check_available_space"]
            raw = [c for c in calls if c.name in RAW_EFFECTS]
            if not raw:
                # pure delegation to checked writer methods
                dl = [c for c in calls if c.name in DELEGATES]
                ctx.check("R6-async-siblings", "%s::%s/delegates" % (tag, owner.name), len(dl) >= 1,
                          "%s::%s neither checks space nor delegates to a checked method" % (tag, owner.name), loc=b.loc())
                continue
            if not ctx.check("R6-async-siblings", "%s::%s/present" % (tag, owner.name), len(chk) >= 1,
                             "%s::%s writes (%s) without a space check" % (tag, owner.name, sorted(set(c.name for c in raw))), loc=b.loc()):
                continue
            effs = [c for c in calls if c.name in EFFECTS]
            bad = [c for c in effs if not b.dominates(chk[0].bb, c.bb)]
            ctx.check("R6-async-siblings", "%s::%s/dominates" % (tag, owner.name), not bad,
                      "%s::%s: %s can run before the space check" % (tag, owner.name, sorted(set(c.name for c in bad))), loc=b.loc())
    r5_append_async(ctx, A)
    r6_vectored(ctx, A)
    r6_effects(ctx, A)
    r6_combined_check(ctx, A)
    ctx.floor("R6-async-siblings", 8)


def r8_retry(ctx, F, only_async=False):
    """The whole-buffer loops (read_exact_to, write_all_from, their async siblings) retry exactly on ErrorKind::Interrupted: the
    `kind == Interrupted` edge stays in the loop, every other error leaves it."""
    from rules import c10
    n = 0
    bodies = list(F.built.values()) if only_async else [b for k, b in sorted(F.fns.items()) if k.startswith("transport::") and "linux_session" not in k and "fuse_t_session" not in k]
    for b in bodies:
        if only_async and not (b.key.startswith("transport::")):
            continue
        if not [c for c in live_calls(b) if c.name == "kind"]:
            continue
        v = vf.VF(b, inline_depth=0, opaque_loops=True)
        for h in sorted(v.loop_headers()):
            for (cond, edges, u, g) in c10.loop_switches(b, v, h):
                if not (cond.startswith("ErrorKind::eq(Error::kind(") or cond.startswith("Eq(Error::kind(")):
                    continue
                n += 1
                owner = b if b.kind not in ("closure", "coroutine") or not b.owner else F.fns.get(b.owner, b)
                c_ = v.operand(b.term(u)[1], u, len(b.stmts(u)))
                what = " ".join(str(x[1]) for x in vf.walk(c_) if x[0] in ("KS", "KV", "K"))
                ctx.check("R8-retry", "%s::%s" % ((owner.self_adt or "").rsplit("::", 1)[-1], owner.name), edges == {0: "exit", "otherwise": "loop"},      # (the compared constant is a promoted reference whose value the facts do not carry)
                          "%s: the retry test on the error kind has edges %s against `%s`; only ErrorKind::Interrupted may be retried, every other error must end the loop"
                          % (owner.name, edges, what[:60]), loc=owner.loc())
    if not only_async:
        ctx.check("R8-retry", "sites", n >= 3, "only %d retry loops found in the transport" % n)
        # the whole-buffer writers go on exactly while something is left, stop on a zero-length transfer, count down by what was moved
        for adt in (FDW, VFW):
            for b in F.find(name="write_all_from", self_adt=adt):
                v = vf.VF(b, inline_depth=0, opaque_loops=True)
                tag = adt.rsplit("::", 1)[-1]
                sw = [x for h in sorted(v.loop_headers()) for x in c10.loop_switches(b, v, h)]
                ef = [x[0] for h in sorted(v.loop_headers()) for x in c10.loop_edge_facts(b, v, h)]
                cont = [d for d in ef if d in ({"Lt(0, loop(count))": "loop", "Le(loop(count), 0)": "exit"}, {"Ne(0, loop(count))": "loop", "Eq(0, loop(count))": "exit"})]
                zero = [x for x in sw if x[0].endswith("?") and "write_from(" in x[0]]
                ctx.check("R8-retry", "%s::write_all_from/while-count" % tag, len(cont) == 1,
                          "%s::write_all_from must loop exactly while count > 0 (condition edges: %s)" % (tag, [(x[0][:40], x[1]) for x in sw if "count" in x[0]][:3]), loc=b.loc())
                ctx.check("R8-retry", "%s::write_all_from/zero-is-an-error" % tag, len(zero) == 1 and zero[0][1] == {0: "exit", "otherwise": "loop"},
                          "%s::write_all_from must end with WriteZero when a transfer moves nothing" % tag, loc=b.loc())
                hs = sorted(v.loop_headers())
                l = [i for i in range(len(b.locals)) if b.local_name(i) == "count"]
                step = v.loop_def(l[0], hs[0])[1] if l and hs else []
                t = " ; ".join(vf.render(x[1], b, short=True, vfx=v) for x in step)
                ctx.check("R8-retry", "%s::write_all_from/counts-down" % tag, "Sub(loop(count), " in t and "write_from(" in t,
                          "%s::write_all_from must decrease count by the amount each transfer moved (step: %s)" % (tag, t[:160]), loc=b.loc())


def r2_exact_loops(ctx, F):
    """The provided whole-buffer methods of FileReadWriteVolatile (read_exact[_at]_volatile, write_all[_at]_volatile) advance
    the slice - and, for the positional ones, the file offset - by exactly the amount the last transfer moved."""
    for nm, op, pos in (("read_exact_volatile", "read_volatile", False), ("write_all_volatile", "write_volatile", False),
                        ("read_exact_at_volatile", "read_at_volatile", True), ("write_all_at_volatile", "write_at_volatile", True)):
        b = F.fns.get("common::file_traits::FileReadWriteVolatile::" + nm)
        if b is None:
            raise core.Anchor("FileReadWriteVolatile::" + nm)
        ctx.fn_seen(b)
        v = vf.VF(b, inline_depth=0, opaque_loops=True)
        hs = sorted(v.loop_headers())
        if not ctx.check("R2-copy-loop", nm + "/loop", len(hs) == 1, "%s: %d loops" % (nm, len(hs)), loc=b.loc()):
            continue
        call = "FileReadWriteVolatile::%s(self, loop(slice)%s)?" % (op, ", loop(offset)" if pos else "")

        def steps(name):
            l = [i for i in range(len(b.locals)) if b.local_name(i) == name]
            if not l:
                return None
            init, step = v.loop_def(l[0], hs[0])
            arms = []
            for x in step:
                arms += [a_.rsplit(" => ", 1)[-1].rstrip("}") for a_ in vf.render(x[1], b, short=True, vfx=v).split(" | ")]
            return [vf.render(x[1], b, short=True, vfx=v) for x in init], sorted(set(arms))
        sl = steps("slice")
        ok = sl is not None and sl[0] == ["slice"] and set(sl[1]) <= {"loop(slice)", "Result::unwrap(FileVolatileSlice::offset(loop(slice), %s))" % call} and len(sl[1]) >= 1 \
            and any("offset(loop(slice)" in a_ for a_ in sl[1])
        ctx.check("R2-copy-loop", nm + "/slice-advances-by-moved", ok, "%s must advance the slice by what the transfer moved (steps: %s)" % (nm, sl and sl[1]), loc=b.loc())
        if pos:
            of = steps("offset")
            ok = of is not None and of[0] == ["offset"] and set(of[1]) <= {"loop(offset)", "Option::unwrap(impl u64::checked_add(loop(offset), (%s as u64)))" % call,
                                                                           "Option::unwrap(impl u64::checked_add(loop(offset), %s))" % call} \
                and any("checked_add(loop(offset)" in a_ for a_ in of[1])
            ctx.check("R2-copy-loop", nm + "/offset-advances-by-moved", ok, "%s must advance the file offset by what the transfer moved (steps: %s)" % (nm, of and of[1]), loc=b.loc())


def r2_fusedev_write(ctx, F):
    """FuseDevWriter's two sync writers: buffered -> every (non-empty) slice is appended to self.buf, unbuffered -> one do_write
    whose result is accounted; the value returned is the number of bytes taken."""
    m = [x for x in F.fns.values() if x.self_adt == FDW and x.name == "write" and x.trait == "std::io::Write"]
    w = [x for x in F.fns.values() if x.self_adt == FDW and x.name == "write_vectored" and x.trait == "std::io::Write"]
    if len(m) != 1 or len(w) != 1:
        raise core.Anchor("impl io::Write for FuseDevWriter")
    m, w = m[0], w[0]
    ctx.fn_seen(m)
    ctx.fn_seen(w)
    v = vf.VF(m, inline_depth=0)
    eff = [(c.name, [vf.render(x, m, short=True) for x in v.call_args(c)], [(vf.render(x, m, short=True), l) for (x, l, u) in v.guards(c.bb) if not vf.render(x, m, short=True).startswith("discr(")])
           for c in live_calls(m) if c.name in ("extend_from_slice", "do_write")]
    ok = sorted(eff) == sorted([("extend_from_slice", ["self.buf", "data"], [("self.buffered", "otherwise")]), ("do_write", ["self.fd", "data"], [("self.buffered", 0)])])
    ctx.check("R2-copy-loop", "FuseDevWriter::write/effects", ok, "FuseDevWriter::write must append `data` to self.buf when buffered and do_write(fd, data) otherwise: %s" % eff, loc=m.loc())
    app = []
    for cl in F.closures_of(w.key):
        cv = vf.VF(cl, inline_depth=0)
        for c in live_calls(cl):
            if c.name == "extend_from_slice":
                app.append(([vf.render(x, cl, short=True) for x in cv.call_args(c)], vf.render(cv.ret(), cl, short=True, vfx=cv)))
    okapp = app == [(["^self.buf", "b"], "Add(acc, impl [T]::len(b))")]
    if not app:
        # loop spelling: every non-empty element is appended, the count returned is the running sum of their lengths
        ov = vf.VF(w, inline_depth=0, opaque_loops=True)
        ex = [c for c in live_calls(w) if c.name == "extend_from_slice"]
        if len(ex) == 1:
            a_ = [vf.render(x, w, short=True, vfx=ov) for x in ov.call_args(ex[0])]
            g_ = [(vf.render(x, w, short=True, vfx=ov), l) for (x, l, u) in ov.guards(ex[0].bb)]
            extra = [x for x in g_ if x not in (("self.buffered", "otherwise"), ("impl [T]::is_empty(some(Iter::next(loop(iter))))", 0)) and not x[0].startswith("discr(")]
            rt = vf.render(ov.ret(), w, short=True, vfx=ov)
            m_ = re.search(r"=> Ok\(loop\((\w+)\)\)", rt)
            okapp = a_ == ["self.buf", "some(Iter::next(loop(iter)))"] and not extra and m_ is not None and loop_sum_of_lengths(w, m_.group(1))
            app = [(a_, rt[:80])]
    ctx.check("R2-copy-loop", "FuseDevWriter::write_vectored/appends-each-slice", okapp,
              "FuseDevWriter::write_vectored (buffered) must append every slice and add its length to the count: %s" % app, loc=w.loc())


def r2_copy_loop(ctx, F):
    r2_exact_loops(ctx, F)
    r2_fusedev_write(ctx, F)
    _r2_copy_loop(ctx, F)


def _r2_copy_loop(ctx, F):
    """VirtioFsWriter::write copies the caller's bytes into the guest slices it was handed: per slice min(remaining, slice
    length) bytes from the current source position to the slice's start, the source advances by that amount and the total
    returned is the sum."""
    ms = [x for x in F.fns.values() if x.self_adt == VFW and x.name == "write" and x.trait == "std::io::Write"]
    if len(ms) != 1:
        raise core.Anchor("impl io::Write for VirtioFsWriter::write (%d)" % len(ms))
    cls = [c for c in F.closures_of(ms[0].key) if any(x.name == "copy_nonoverlapping" for x in live_calls(c))]
    if not ctx.check("R2-copy-loop", "VirtioFsWriter::write/closure", len(cls) == 1, "VirtioFsWriter::write: %d copying closures" % len(cls), loc=ms[0].loc()):
        return
    cl = cls[0]
    ctx.fn_seen(ms[0])
    v = vf.VF(cl, inline_depth=0, opaque_loops=True)
    cp = [c for c in live_calls(cl) if c.name == "copy_nonoverlapping"]
    el = "some(Iter::next(loop(iter)))"
    n = "cmp::min(impl [T]::len(loop(rem)), FileVolatileSlice::len(%s))" % el
    a = [vf.render(x, cl, short=True, vfx=v) for x in v.call_args(cp[0])] if len(cp) == 1 else []
    ctx.check("R2-copy-loop", "VirtioFsWriter::write/copy", a == ["impl [T]::as_ptr(loop(rem))", "FileVolatileSlice::as_ptr(%s)" % el, n],
              "VirtioFsWriter::write copies (%s); required (source position, slice start, min(remaining, slice length))" % ", ".join(x[:70] for x in a), loc=cl.loc())
    hs = sorted(v.loop_headers())
    ok = len(hs) == 1
    if ok:
        def ld(nm):
            l = [i for i in range(len(cl.locals)) if cl.local_name(i) == nm]
            if not l:
                return None
            init, step = v.loop_def(l[0], hs[0])
            return ([vf.render(x[1], cl, short=True, vfx=v) for x in init], [vf.render(x[1], cl, short=True, vfx=v) for x in step])
        rem, tot = ld("rem"), ld("total")
        ok = rem == (["^buf"], ["Index::index(loop(rem), RangeFrom{start: %s})" % n]) and tot == (["0"], ["Add(%s, loop(total))" % n])
    ctx.check("R2-copy-loop", "VirtioFsWriter::write/advance", ok, "VirtioFsWriter::write: the source must advance by, and the total grow by, the amount copied per slice", loc=cl.loc())
    ctx.check("R2-copy-loop", "VirtioFsWriter::write/result", vf.render(v.ret(), cl, short=True, vfx=v) == "Ok(loop(total))", "VirtioFsWriter::write does not return the total copied", loc=cl.loc())


def r6_effects(ctx, A):
    """FuseDevWriter's async writers have the effects of their sync siblings: each byte-slice argument is appended to the
    reply buffer once, in argument order (buffered mode); every direct device write and every read into the buffer is
    accounted with account_written(<its result>)."""
    from rules.c20 import async_frame
    for m in sorted([x for x in A.fns.values() if x.self_adt == FDW and x.name in ("async_write", "async_write2", "async_write3", "async_write_from_at")
                     and x.key in A.async_fns], key=lambda x: x.line):
        body, v = async_frame(A, m)
        ctx.fn_seen(m)
        fam = list({f.key: f for f in [body] + list(A.closures_of(body.key)) + list(A.closures_of(m.key))}.values())
        slices = [m.local_name(i) for i in range(2, m.argc + 1) if m.local_ty(i) in ("&[u8]", "&'_ [u8]") or m.local_ty(i).endswith("[u8]")]
        ext = [vf.render(v.call_args(c)[1], m, short=True, vfx=v) for c in live_calls(body) if c.name == "extend_from_slice"]
        if m.name != "async_write_from_at":
            ctx.check("R6-async-siblings", "FuseDevWriter::%s/appends-each-slice" % m.name, ext == slices and bool(slices),
                      "FuseDevWriter::%s appends %s to the reply buffer; its byte-slice arguments are %s (each once, in order)" % (m.name, ext, slices), loc=m.loc())
        if m.name in ("async_write", "async_write2", "async_write3"):
            rt = vf.render(v.ret(), m, short=True, vfx=v)
            tot = {1: "impl [T]::len(data)", 2: "Add(impl [T]::len(data), impl [T]::len(data2))", 3: "Add(Add(impl [T]::len(data), impl [T]::len(data2)), impl [T]::len(data3))"}[len(slices) or 1]
            ctx.check("R6-async-siblings", "FuseDevWriter::%s/returns-total" % m.name, ("=> Ok(%s)" % tot) in rt or rt == "Ok(%s)" % tot,
                      "FuseDevWriter::%s (buffered) must return the total length of its slices, Ok(%s)" % (m.name, tot), loc=m.loc())
        raw = [c for f in fam for c in live_calls(f) if c.name in ("pwrite", "pwritev") and (c.fn or "").startswith("nix::")]
        rd = [c for f in fam for c in live_calls(f) if c.name in ("async_read_at_volatile", "async_read_vectored_at_volatile")]
        acc = [c for f in fam for c in live_calls(f) if c.name == "account_written"]
        need = (1 if rd else 0) + (len(raw) if m.name != "async_write_from_at" else 0)
        ctx.check("R6-async-siblings", "FuseDevWriter::%s/accounts-written" % m.name, len(acc) >= need and (need == 0 or bool(acc)),
                  "FuseDevWriter::%s performs %d direct write(s)/read(s) into the buffer but accounts %d of them with account_written" % (m.name, need, len(acc)), loc=m.loc())


def r6_combined_check(ctx, A):
    """VirtioFsWriter::async_write2/3 write their parts one after the other; the all-or-nothing refusal therefore has to be made
    up front on the sum: check_available_space(len(data), len(data2), len(data3) or 0) dominates every part's write."""
    from rules.c20 import async_frame
    for nm, want in (("async_write2", ["impl [T]::len(data)", "impl [T]::len(data2)", "0"]),
                     ("async_write3", ["impl [T]::len(data)", "impl [T]::len(data2)", "impl [T]::len(data3)"])):
        ms = [x for x in A.fns.values() if x.self_adt == VFW and x.name == nm and x.key in A.async_fns]
        if len(ms) != 1:
            raise core.Anchor("VirtioFsWriter::%s" % nm)
        body, v = async_frame(A, ms[0])
        chk = [c for c in live_calls(body) if c.name == "check_available_space"]
        wr = [c for c in live_calls(body) if c.name == "write"]
        ok = len(chk) == 1 and len(wr) == len([x for x in want if x != "0"])
        if ok:
            a = [vf.render(x, ms[0], short=True, vfx=v) for x in v.call_args(chk[0])][1:]
            ok = a == want and all(body.dominates(chk[0].bb, c.bb) for c in wr)
        ctx.check("R6-async-siblings", "VirtioFsWriter::%s/combined-check" % nm, ok,
                  "VirtioFsWriter::%s must refuse on the combined length before writing any part (check_available_space(%s))" % (nm, ", ".join(want)), loc=ms[0].loc())


def r6_vectored(ctx, A):
    """The unrolled async vectored read/write on a File: the k-th concurrent operation of a group works on bufs[pos+k] at the
    group's start offset plus the lengths of bufs[pos .. pos+k) - each earlier buffer once, no other."""
    from rules.c20 import async_frame
    n = 0
    for nm, op in (("async_read_vectored_at_volatile", "async_read_at_volatile"), ("async_write_vectored_at_volatile", "async_write_at_volatile")):
        ms = [x for k, x in A.fns.items() if x.name == nm and x.kind == "assoc" and "async_file::File" in k]
        if len(ms) != 1:
            raise core.Anchor("File::%s (%d)" % (nm, len(ms)))
        body, _ = async_frame(A, ms[0])
        ctx.fn_seen(ms[0])
        v = vf.VF(body, inline_depth=0, opaque_loops=True)
        for c in live_calls(body):
            if c.name != op:
                continue
            a = [vf.render(x, body, short=True, vfx=v) for x in v.call_args(c)]
            m = re.fullmatch(r"Vec::index\(loop\(bufs\), (?:loop\(pos\)|Add\((\d+), loop\(pos\)\))\)", a[1])
            if m is None:
                if a[1] == "Vec::index(^bufs, 0)":
                    ctx.check("R6-async-siblings", "%s/single" % nm, a[2] == "^offset", "%s: the single-buffer case uses offset `%s`" % (nm, a[2][:80]), loc=c.loc())
                    continue
                ctx.violation("R6-async-siblings", "%s/shape" % nm, "shape not recognised: operation on `%s`" % a[1][:120], loc=c.loc())
                continue
            k = int(m.group(1) or 0)
            terms = re.findall(r"\(FileVolatileBuf::bytes_total\(Vec::index\(loop\(bufs\), (loop\(pos\)|Add\(\d+, loop\(pos\)\))\)\) as u64\)", a[2])
            idx = sorted(0 if t == "loop(pos)" else int(re.match(r"Add\((\d+)", t).group(1)) for t in terms)
            rest = re.sub(r"\(FileVolatileBuf::bytes_total\(Vec::index\(loop\(bufs\), (loop\(pos\)|Add\(\d+, loop\(pos\)\))\)\) as u64\)", "T", a[2])
            shape_ok = re.fullmatch(r"(Add\(T, )*loop\(offset\)\)*", rest) is not None
            n += 1
            ctx.check("R6-async-siblings", "%s/offset-of-buffer-%d#%d" % (nm, k, n), idx == list(range(k)) and shape_ok,
                      "%s: the operation on bufs[pos+%d] runs at file offset `%s`; it must be the group's offset plus the lengths of bufs[pos..pos+%d), each once"
                      % (nm, k, a[2][:200], k), loc=c.loc())
    ctx.check("R6-async-siblings", "vectored/sites", n >= 18, "only %d unrolled vectored operations found" % n)


def r5_append_async(ctx, A):
    n = 0
    for b in A.built.values():
        owner = A.fns.get(b.owner)
        if owner is None or owner.self_adt != FDW:
            continue
        v = vf.VF(b)
        for c in live_calls(b):
            if c.name == "from_raw_ptr" and "file_buf" in (c.fn or ""):
                n += 1
                a = v.call_args(c)
                p = vf.render(a[0], b, short=True)
                okp = "add(" in p and "Vec::as_mut_ptr(" in p and "Vec::len(" in p
                ctx.check("R6-async-siblings", "append/%s" % owner.name, okp,
                          "FuseDevWriter::%s reads file data to `%s` (the buffer start), the sync sibling appends at buf.as_mut_ptr().add(buf.len())" % (owner.name, p),
                          loc=c.loc(), detail=p)
    ctx.check("R6-async-siblings", "append/count", n >= 1, "no async raw buffer adapter found")


META = {
    "technique": "MIR call-graph/dominance and value-flow rules: delegation, syscall table, space-check dominance, split-point equality, append-position",
    "text": "Decides structural necessary conditions: adapters delegate to the same-named operation with the same arguments; File I/O uses the "
            "matching syscall on the slice's own pointer/length/offset; every appending writer method is dominated by a refusing space "
            "check of the amount written; slice allocators truncate to the count; split halves meet; raw reads land at the buffer's "
            "current length; consumed counters advance by the closure's result; async writer methods keep the same discipline.",
    "note": "Not decided: byte-exact contents and counter arithmetic at run time; vm-memory internals; interaction with concurrent guest writes.",
}
META["text"] += " " + "Also: VirtioFsWriter::write's copy loop, offsets of the unrolled async vectored I/O, effects of FuseDevWriter's async writers, truncation in the async slice preparers."
