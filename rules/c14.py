"""C14 — UID/GID mapping translates every id crossing the VFS, per mount, both ways.

R1 outbound: every entry/attribute a backend returns is translated internal->external exactly by the conversion
   helpers, with the routing inode's mount (shares C07.R2), and the helpers remap both uid and gid
R2 inbound: setattr's owner ids and the request context are translated external->internal before the backend
R3 exactly once: a value that is already translated (the stored mount root entry) is not translated again
R4 table coherence: the per-mount mapping slot is written whenever the mount slot is (allocation, over-mount, umount)
R5 remap_id arithmetic and effective-mapping selection
R4 (cont.) mount_with_id_mapping stores the caller's mapping itself; every modified table copy is published
R4-arc-forward/R5-arc-override (shared with C02) Arc<FS> forwards id_remap and id_remap_with_nodeid
R2-state-roundtrip (shared with C19.R2) per-mount mappings survive save/restore slot by slot
R4 (cont.) restore_mount does not write the mapping table
"""
import re
from pyfbr import core, vf
from rules import common
from rules import c07

VFS = c07.VFS


def live_calls(b):
    r = b.reachable()
    return [c for c in b.calls() if c.bb in r and not b.is_cleanup(c.bb)]


def run(ctx):
    ctx.explanation = (
        "Value-flow and table-coherence rules over the Vfs id-mapping code: which helper translates which value in which "
        "direction with which mount index, that already-translated values are not translated again, that the request "
        "context is translated before dispatch, and that every function changing a mount slot also changes that slot's "
        "mapping under the same conditions.")
    F = ctx.facts("S") or ctx.facts("D")
    if F is None:
        return
    vf.NOUPD[0] = True
    try:
        ctx.run_rule("R1-outbound", r1_outbound, F)
        ctx.run_rule("R2-inbound", r2_inbound, F)
        ctx.run_rule("R3-exactly-once", r3_once, F)
        ctx.run_rule("R4-table-coherence", c07.r5_slots, F, "C14")
        ctx.run_rule("R5-arithmetic", r5_arith, F)
        # a server over Arc<Vfs> reaches the translation of the request context only if the wrapper forwards it
        from rules import c02, c19
        ctx.run_rule("R4-arc-forward", c02.r4_arc, F, {"id_remap", "id_remap_with_nodeid"})
        # mappings survive save/restore slot by slot (C19.R2: restore(save(m)) == m, None stays None, Some stays Some)
        ctx.run_rule("R2-state-roundtrip", c19.r2_state, F)
    finally:
        vf.NOUPD[0] = False
    A = ctx.facts("A", required=False)
    if A is not None:
        ctx.run_rule("R2-inbound-async", r2_inbound_async, A)
    ctx.assumptions += ["numeric round trip follows from the arithmetic shape checked in R5"]


def remap_calls(b, v):
    """[(target field, args text)] of remap_id calls in b: which field receives remap_id(of what, from, to, range)."""
    out = []
    for c in live_calls(b):
        if c.name == "remap_id":
            a = [vf.render(x, b, short=True, vfx=v) for x in v.call_args(c)]
            out.append(a)
    return out


def r1_outbound(ctx, F):
    c07.r2_conversion(ctx, F)
    # rename the shared rule's instances for this property's evidence
    # convert_entry: uid and gid both remapped internal -> external with the effective mapping of fs_idx
    b = F.method(VFS, "convert_entry")
    ctx.fn_seen(b)
    cl = F.closures_of(b.key)
    found = []
    for body in [b] + cl:
        v = vf.VF(body, inline_depth=0)
        m = None
        for c in live_calls(body):
            if c.name == "get_effective_id_mapping":
                m = v.call_expr(c)
                a = vf.render(v.call_args(c)[1], body, short=True)
                ctx.check("R1-outbound", "convert_entry/mapping-of", a in ("fs_idx", "^fs_idx"), "convert_entry selects the mapping of `%s`, not of the entry's mount" % a, loc=c.loc())
        roots = []
        if m is not None:
            p = vf.field(("V", m, "Some"), "0", 0)
            roots = [(vf.field(p, "0", 0), "internal"), (vf.field(p, "1", 1), "external"), (vf.field(p, "2", 2), "range")]
        for c in live_calls(body):
            if c.name == "remap_id":
                found.append([vf.render(x, body, roots, short=True) for x in v.call_args(c)])
    want = sorted([["^entry.attr.st_uid", "internal", "external", "range"], ["^entry.attr.st_gid", "internal", "external", "range"]])
    got = sorted([[x.replace("entry.attr", "^entry.attr") if not x.startswith("^") and x.startswith("entry.attr") else x for x in f] for f in found])
    ctx.check("R1-outbound", "convert_entry/remaps", got == want,
              "convert_entry translates %s; required uid and gid, internal -> external" % got, loc=b.loc(), detail=str(got))
    # remap_attr_id: direction selected by the flag, both ids
    b = F.method(VFS, "remap_attr_id")
    ctx.fn_seen(b)
    v = vf.VF(b, inline_depth=0)
    m = None
    for c in live_calls(b):
        if c.name == "get_effective_id_mapping":
            m = v.call_expr(c)
            a = vf.render(v.call_args(c)[1], b, short=True)
            ctx.check("R1-outbound", "remap_attr_id/mapping-of", a == "fs_idx", "remap_attr_id selects the mapping of `%s`" % a, loc=c.loc())
    p = vf.field(("V", m, "Some"), "0", 0) if m is not None else ("?", "")
    roots = [(vf.field(p, "0", 0), "internal"), (vf.field(p, "1", 1), "external"), (vf.field(p, "2", 2), "range")]
    calls = [[vf.render(x, b, roots, short=True, vfx=v) for x in v.call_args(c)] for c in live_calls(b) if c.name == "remap_id"]
    frm = "phi{!map_internal_to_external => external | map_internal_to_external => internal}"
    to = "phi{!map_internal_to_external => internal | map_internal_to_external => external}"
    want = sorted([["attr.st_uid", frm, to, "range"], ["attr.st_gid", frm, to, "range"]])
    ctx.check("R1-outbound", "remap_attr_id/remaps", sorted(calls) == want,
              "remap_attr_id translates %s; required uid and gid with (from,to) = (internal,external) when map_internal_to_external else (external,internal)" % sorted(calls),
              loc=b.loc(), detail=str(sorted(calls))[:300])
    # convert_attr -> remap_attr_id(idata.fs_idx(), true)
    b = F.method(VFS, "convert_attr")
    v = vf.VF(b, inline_depth=0)
    cs = [c for c in live_calls(b) if c.name == "remap_attr_id"]
    ok = len(cs) == 1
    if ok:
        a = [vf.render(x, b, short=True) for x in v.call_args(cs[0])]
        ok = a[1] == "VfsInode::fs_idx(idata)" and a[2] == "1"
    ctx.check("R1-outbound", "convert_attr/direction", ok, "convert_attr does not translate internal -> external with the inode's mount", loc=b.loc())
    # readdirplus backend closure: remap_attr_id(idata.fs_idx(), true, entry.attr)
    rp = [x for x in c07.vfs_methods(F) if x.name == "readdirplus"][0]
    hits = []
    for body in F.closures_of(rp.key):
        bv = vf.VF(body, inline_depth=0)
        for c in live_calls(body):
            if c.name == "remap_attr_id":
                hits.append([vf.render(x, body, short=True) for x in bv.call_args(c)][1:3])
    ctx.check("R1-outbound", "readdirplus/backend-attr", hits == [["VfsInode::fs_idx(^idata)", "1"]],
              "readdirplus: backend entries' owner ids are not translated internal -> external with the directory's mount (%s)" % hits, loc=rp.loc(), detail=str(hits))
    ctx.floor("R1-outbound", 6)


def r2_inbound(ctx, F):
    st = [x for x in c07.vfs_methods(F) if x.name == "setattr"][0]
    ctx.fn_seen(st)
    v = vf.VF(st, inline_depth=0)
    rm = [c for c in live_calls(st) if c.name == "remap_attr_id"]
    be = [c for c in live_calls(st) if c.trait == common.FS_TRAIT and c.name == "setattr"]
    right = [c for c in be if "Right" in vf.render(v.call_args(c)[0], st, short=True)]
    ok = len(rm) == 1 and len(right) == 1 and st.dominates(rm[0].bb, right[0].bb)
    if ok:
        a = [vf.render(x, st, c07.rootfs_roots(st, v), short=True) for x in v.call_args(rm[0])]
        ok = a[1] == "VfsInode::fs_idx(R[inode].idata)" and a[2] == "0" and a[3] == "attr"
    ctx.check("R2-inbound", "setattr/attr", ok, "Vfs::setattr does not translate the owner ids to be set external -> internal before calling the backend", loc=st.loc())
    # remap_ctx_ids: both ids, external -> internal
    b = F.method(VFS, "remap_ctx_ids")
    ctx.fn_seen(b)
    v = vf.VF(b, inline_depth=0)
    pm = vf.field(("V", ("P", b.param_index("mapping")), "Some"), "0", 0)
    roots = [(vf.field(pm, "0", 0), "internal"), (vf.field(pm, "1", 1), "external"), (vf.field(pm, "2", 2), "range")]
    calls = sorted([vf.render(x, b, roots, short=True) for x in v.call_args(c)] for c in live_calls(b) if c.name == "remap_id")
    ctx.check("R2-inbound", "remap_ctx_ids", calls == sorted([["ctx.uid", "external", "internal", "range"], ["ctx.gid", "external", "internal", "range"]]),
              "remap_ctx_ids translates %s; required uid and gid, external -> internal" % calls, loc=b.loc(), detail=str(calls))
    # both are reached unconditionally once a mapping exists (no early return between them)
    rc = [c for c in live_calls(b) if c.name == "remap_id"]
    if len(rc) == 2:
        ctx.check("R2-inbound", "remap_ctx_ids/independent", set(b.edge_guards(rc[0].bb)) == set(b.edge_guards(rc[1].bb)),
                  "remap_ctx_ids: the gid translation depends on the outcome of the uid translation", loc=b.loc())
    # id_remap_with_nodeid -> effective mapping of the node's mount
    for nm, want in (("id_remap_with_nodeid", "Vfs::get_effective_id_mapping(self, VfsInode::fs_idx(nodeid))"), ("id_remap", "self.id_mapping")):
        x = [y for y in c07.vfs_methods(F) if y.name == nm]
        if len(x) != 1:
            raise core.Anchor("Vfs::%s" % nm)
        x = x[0]
        v = vf.VF(x, inline_depth=0)
        cs = [c for c in live_calls(x) if c.name == "remap_ctx_ids"]
        t = vf.render(v.call_args(cs[0])[2], x, short=True) if cs else None
        ctx.check("R2-inbound", nm, t == want, "Vfs::%s uses mapping `%s`, required `%s`" % (nm, t, want), loc=x.loc())
    # the server translates the context before dispatching any handler
    b = F.method(common.SERVER, "handle_message")
    rc = [c for c in live_calls(b) if c.name == "remap_ctx_ids"]
    hs = [c for c in live_calls(b) if c.self_adt == common.SERVER and c.name != "remap_ctx_ids"]
    ok = len(rc) == 1 and all(b.dominates(rc[0].bb, h.bb) for h in hs)
    ctx.check("R2-inbound", "server/before-dispatch", ok, "handle_message dispatches a handler before translating the caller's ids", loc=b.loc())
    sb = F.method(common.SERVER, "remap_ctx_ids")
    v = vf.VF(sb, inline_depth=0)
    cs = [c for c in live_calls(sb) if c.name == "id_remap_with_nodeid"]
    ok = len(cs) == 1
    if ok:
        a = [vf.render(x, sb, short=True) for x in v.call_args(cs[0])]
        ok = a[1] == "ctx.context" and a[2] in ("SrvContext::nodeid(ctx)", "ctx.in_header.nodeid")
    ctx.check("R2-inbound", "server/by-nodeid", ok, "Server::remap_ctx_ids does not translate the request context by the request's node id", loc=sb.loc())


def r2_inbound_async(ctx, A):
    from rules.c20 import async_frame
    ha = A.method(common.SERVER, "async_handle_message")
    body, va = async_frame(A, ha)
    rc = [c for c in live_calls(body) if c.name == "remap_ctx_ids"]
    hs = [c for c in live_calls(body) if c.self_adt == common.SERVER and c.name != "remap_ctx_ids"]
    ctx.check("R2-inbound-async", "server/before-dispatch", len(rc) == 1 and all(body.dominates(rc[0].bb, h.bb) for h in hs),
              "async_handle_message dispatches a handler before translating the caller's ids", loc=ha.loc())
    for nm in ("async_setattr",):
        x = [y for y in A.fns.values() if y.self_adt == VFS and y.name == nm and y.trait == common.AFS_TRAIT]
        if len(x) == 1:
            body, v = async_frame(A, x[0])
            rm = [c for c in live_calls(body) if c.name == "remap_attr_id"]
            ok = len(rm) == 1 and vf.render(v.call_args(rm[0])[2], x[0], short=True) == "0"
            ctx.check("R2-inbound-async", "async_setattr/attr", ok, "Vfs::async_setattr does not translate the owner ids external -> internal", loc=x[0].loc())


def r3_once(ctx, F):
    """Already-translated values: MountPointData.root_entry is stored translated (its only construction site stores the
    entry after convert_entry), so no conversion may be applied to a value read from it."""
    b = F.method(VFS, "insert_mount_locked")
    ctx.fn_seen(b)
    v = vf.VF(b, inline_depth=0)
    sites = 0
    stored_converted = False
    for x in F.fns.values():
        for bb in x.reachable():
            for i, s in enumerate(x.stmts(bb)):
                if s[0] == "=" and s[2][0] == "agg" and (s[2][1].get("adt") or "").endswith("MountPointData"):
                    sites += 1
                    if x.key == b.key:
                        cv = [c for c in live_calls(b) if c.name == "convert_entry"]
                        stored_converted = len(cv) == 1 and b.dominates(cv[0].bb, bb)
    ctx.check("R3-exactly-once", "root_entry/stored-translated", sites == 1 and stored_converted,
              "MountPointData is built at %d sites / not after convert_entry: the 'root_entry is already translated' premise no longer holds" % sites, loc=b.loc())
    n = 0
    for x in F.fns.values():
        if not x.key.startswith("api::vfs"):
            continue
        xv = None
        for c in live_calls(x):
            if c.name in ("convert_entry", "convert_backend_entry", "remap_attr_id", "convert_attr"):
                xv = xv or vf.VF(x, inline_depth=0)
                for a in xv.call_args(c)[1:]:
                    t = vf.render(a, x, short=True)
                    n += 1
                    bad = any(y[0] == "F" and y[2] == "root_entry" for y in vf.walk(a))
                    name = x.name if x.kind != "closure" else F.fns[x.owner].name + "/closure"
                    if bad:
                        ctx.violation("R3-exactly-once", "%s/%s(root_entry)" % (name, c.name),
                                      "%s passes the stored mount root entry (already translated when the mount was inserted) to %s again: "
                                      "owner ids of a mount root are translated twice on this path" % (name, c.name), loc=c.loc())
                    else:
                        ctx.ok("R3-exactly-once", "%s/%s#%d" % (name, c.name, n), t[:60], nontrivial=False)
    ctx.check("R3-exactly-once", "sites", n >= 10, "only %d conversion call arguments inspected" % n)


def r5_arith(ctx, F):
    b = F.fn("api::vfs::remap_id")
    ctx.fn_seen(b)
    v = vf.VF(b)
    r = vf.render(v.ret(), b, short=True, vfx=v)
    ctx.check("R5-arithmetic", "remap_id/in-range", "Add(Sub(value, from_base), to_base)" in r or "Add(to_base, Sub(value, from_base))" in r,
              "remap_id no longer computes value - from_base + to_base inside the range: %s" % r[:300], loc=b.loc(), detail=r[:200])
    ctx.check("R5-arithmetic", "remap_id/range-test", vf.fact("Ge(value, from_base)") in r and "Lt(Sub(value, from_base), range)" in r,
              "remap_id's range test is not `value >= from_base && value - from_base < range`: %s" % r[:300], loc=b.loc())
    ctx.check("R5-arithmetic", "remap_id/identity-outside", "=> value" in r, "remap_id does not return ids outside the range unchanged", loc=b.loc())
    b = F.method(VFS, "get_effective_id_mapping")
    v = vf.VF(b, inline_depth=0)
    r = vf.render(v.ret(), b, short=True, vfx=v)
    # the global mapping is the answer exactly on the arm where the per-mount slot is empty
    m = re.search(r"discr\(([^|]*?)\)(?: notin \[1\]|==0) => self\.id_mapping(?: \||\})", r)
    ok = m is not None and "self.mount_id_mappings" in m.group(1) and "fs_idx" in m.group(1) and \
        ("discr(%s)==1 => Some(some(%s))" % (m.group(1), m.group(1)) in r or "discr(%s)==1 => %s}" % (m.group(1), m.group(1)) in r)
    ctx.check("R5-arithmetic", "effective/per-mount-first", ok,
              "get_effective_id_mapping no longer prefers the per-mount mapping and falls back to the global one: %s" % r[:300], loc=b.loc())


META = {
    "technique": "MIR value-flow of the translation helpers (target, direction, mount index), typestate 'already translated' for the stored mount root entry, table-coherence of slot writers, dominance of the context translation over dispatch",
    "text": "Decides: which helper translates which value in which direction with which mount's mapping, for every entry/attribute path through "
            "the Vfs; setattr and the request context are translated inbound before the backend/dispatch; the stored mount root entry is never "
            "translated again; every function that fills or vacates a mount slot also sets or clears that slot's mapping under the same conditions, and mount_with_id_mapping stores the caller's mapping itself; "
            "remap_id's range test and arithmetic; per-mount-then-global selection.",
    "note": "Shares C07.R2 (conversion coverage). Not decided: numeric values at run time; pseudo-directory owners (observation in DESIGN.md).",
}
META["text"] += " " + "Also: Arc<FS> forwards both id_remap methods; mount_with_id_mapping stores the caller's mapping; mappings survive save/restore slot by slot (C19.R2)."
