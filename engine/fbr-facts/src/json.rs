// Minimal JSON value + serializer (no external crates).
use std::collections::BTreeMap;

pub enum J {
    Null,
    Bool(bool),
    Raw(String), // a number already rendered
    Str(String),
    Arr(Vec<J>),
    Obj(BTreeMap<String, J>),
}

impl J {
    pub fn s(x: &str) -> J {
        J::Str(x.to_string())
    }
    pub fn n(x: i128) -> J {
        J::Raw(format!("{}", x))
    }
    pub fn write(&self, out: &mut String) {
        match self {
            J::Null => out.push_str("null"),
            J::Bool(b) => out.push_str(if *b { "true" } else { "false" }),
            J::Raw(r) => out.push_str(r),
            J::Str(s) => esc(s, out),
            J::Arr(v) => {
                out.push('[');
                for (i, x) in v.iter().enumerate() {
                    if i > 0 {
                        out.push(',');
                    }
                    x.write(out);
                }
                out.push(']');
            }
            J::Obj(m) => {
                out.push('{');
                for (i, (k, x)) in m.iter().enumerate() {
                    if i > 0 {
                        out.push(',');
                    }
                    esc(k, out);
                    out.push(':');
                    x.write(out);
                }
                out.push('}');
            }
        }
    }
}

fn esc(s: &str, out: &mut String) {
    out.push('"');
    for c in s.chars() {
        match c {
            '"' => out.push_str("\\\""),
            '\\' => out.push_str("\\\\"),
            '\n' => out.push_str("\\n"),
            '\r' => out.push_str("\\r"),
            '\t' => out.push_str("\\t"),
            c if (c as u32) < 0x20 => out.push_str(&format!("\\u{:04x}", c as u32)),
            c => out.push(c),
        }
    }
    out.push('"');
}
