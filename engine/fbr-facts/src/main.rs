// fbr-facts: rustc_private fact extractor for the fuse-backend-rs static checks.
//
// Used as RUSTC_WORKSPACE_WRAPPER: argv = [self, rustc, rustc-args...].
// For the crate named by $FBR_CRATE (default fuse_backend_rs) it writes one JSON
// fact file to $FBR_OUT (one write per process); every other crate is compiled
// unchanged.
#![feature(rustc_private)]
#![allow(clippy::all)]

extern crate rustc_abi;
extern crate rustc_driver;
extern crate rustc_hir;
extern crate rustc_interface;
extern crate rustc_middle;
extern crate rustc_span;

mod json;

use json::J;
use rustc_driver::{Callbacks, Compilation};
use rustc_hir::def::DefKind;
use rustc_hir::def_id::{DefId, LocalDefId, LOCAL_CRATE};
use rustc_hir::definitions::DefPathData;
use rustc_interface::interface::Compiler;
use rustc_middle::mir::{self, *};
use rustc_middle::ty::print::{with_no_trimmed_paths, PrintTraitRefExt};
use rustc_middle::ty::{self, Ty, TyCtxt, TypingEnv};
use rustc_span::Span;
use std::collections::BTreeMap;

struct Cb {
    target: String,
    out: String,
    built: Vec<J>,
}

fn main() {
    let mut args: Vec<String> = std::env::args().collect();
    // wrapper mode: drop our own name, keep "rustc" as argv[0]
    args.remove(0);
    let target = std::env::var("FBR_CRATE").unwrap_or_else(|_| "fuse_backend_rs".to_string());
    let out = std::env::var("FBR_OUT").unwrap_or_else(|_| "/dev/null".to_string());
    let mut cb = Cb { target, out, built: Vec::new() };
    rustc_driver::run_compiler(&args, &mut cb);
}

impl Callbacks for Cb {
    fn after_expansion<'tcx>(&mut self, _c: &Compiler, tcx: TyCtxt<'tcx>) -> Compilation {
        if tcx.crate_name(LOCAL_CRATE).as_str() != self.target {
            return Compilation::Continue;
        }
        // coroutine bodies before the state-machine transform: clone them all first, because
        // emitting one body (const evaluation, type queries) can steal the built MIR of another
        let mut clones = Vec::new();
        for def in tcx.hir_body_owners() {
            if tcx.coroutine_kind(def.to_def_id()).is_some() {
                let body = tcx.mir_built(def).borrow().clone();
                clones.push((def, body));
            }
        }
        for (def, body) in clones.iter() {
            let j = with_no_trimmed_paths!(emit_body(tcx, *def, body, "built"));
            self.built.push(j);
        }
        Compilation::Continue
    }

    fn after_analysis<'tcx>(&mut self, _c: &Compiler, tcx: TyCtxt<'tcx>) -> Compilation {
        if tcx.crate_name(LOCAL_CRATE).as_str() != self.target {
            return Compilation::Continue;
        }
        if tcx.dcx().has_errors().is_some() {
            return Compilation::Continue;
        }
        let j = with_no_trimmed_paths!(self.emit_crate(tcx));
        let mut s = String::with_capacity(64 << 20);
        j.write(&mut s);
        let tmp = format!("{}.tmp.{}", self.out, std::process::id());
        std::fs::write(&tmp, s).expect("write facts");
        std::fs::rename(&tmp, &self.out).expect("rename facts");
        Compilation::Continue
    }
}

impl Cb {
    fn emit_crate<'tcx>(&mut self, tcx: TyCtxt<'tcx>) -> J {
        let mut root = BTreeMap::new();
        root.insert("crate".to_string(), J::s(tcx.crate_name(LOCAL_CRATE).as_str()));
        root.insert(
            "nonce".to_string(),
            J::s(&std::env::var("FBR_NONCE").unwrap_or_default()),
        );
        root.insert(
            "config".to_string(),
            J::s(&std::env::var("FBR_CONFIG").unwrap_or_default()),
        );
        let mut fns = Vec::new();
        for def in tcx.hir_body_owners() {
            let kind = tcx.def_kind(def);
            match kind {
                DefKind::Fn | DefKind::AssocFn | DefKind::Closure => {}
                _ => continue,
            }
            if tcx.is_constructor(def.to_def_id()) {
                continue;
            }
            let body = tcx.optimized_mir(def.to_def_id());
            fns.push(emit_body(tcx, def, body, "opt"));
        }
        root.insert("fns".to_string(), J::Arr(fns));
        root.insert("built".to_string(), J::Arr(std::mem::take(&mut self.built)));

        let mut structs = Vec::new();
        let mut enums = Vec::new();
        let mut consts = Vec::new();
        let mut traits = Vec::new();
        let mut impls = Vec::new();
        for ldid in tcx.hir_crate_items(()).definitions() {
            let did = ldid.to_def_id();
            match tcx.def_kind(did) {
                DefKind::Struct | DefKind::Union => structs.push(emit_struct(tcx, ldid)),
                DefKind::Enum => enums.push(emit_enum(tcx, ldid)),
                DefKind::Const { .. } | DefKind::AssocConst { .. } => {
                    if let Some(j) = emit_const(tcx, ldid) {
                        consts.push(j)
                    }
                }
                DefKind::Trait => traits.push(emit_trait(tcx, ldid)),
                DefKind::Impl { .. } => impls.push(emit_impl(tcx, ldid)),
                _ => {}
            }
        }
        root.insert("structs".to_string(), J::Arr(structs));
        root.insert("enums".to_string(), J::Arr(enums));
        root.insert("consts".to_string(), J::Arr(consts));
        root.insert("traits".to_string(), J::Arr(traits));
        root.insert("impls".to_string(), J::Arr(impls));
        J::Obj(root)
    }
}

// ---------------------------------------------------------------- keys

fn item_key(tcx: TyCtxt<'_>, did: DefId) -> String {
    if !did.is_local() {
        return tcx.def_path_str(did);
    }
    let mut chain = vec![did];
    let mut cur = did;
    while let Some(p) = tcx.opt_parent(cur) {
        chain.push(p);
        cur = p;
    }
    chain.reverse();
    let mut parts: Vec<String> = Vec::new();
    for d in chain {
        let key = tcx.def_key(d);
        match key.disambiguated_data.data {
            DefPathData::CrateRoot => {}
            DefPathData::Impl => parts.push(impl_desc(tcx, d)),
            DefPathData::Closure => {
                parts.push(format!("{{closure#{}}}", key.disambiguated_data.disambiguator))
            }
            other => {
                let n = other.to_string();
                if key.disambiguated_data.disambiguator != 0 {
                    parts.push(format!("{}#{}", n, key.disambiguated_data.disambiguator));
                } else {
                    parts.push(n);
                }
            }
        }
    }
    parts.join("::")
}

fn impl_desc(tcx: TyCtxt<'_>, d: DefId) -> String {
    let self_ty = tcx.type_of(d).instantiate_identity().skip_norm_wip();
    match tcx.impl_opt_trait_ref(d) {
        Some(tr) => {
            let tr = tr.instantiate_identity().skip_norm_wip();
            format!("<{} as {}>", self_ty, tr.print_only_trait_path())
        }
        None => format!("<{}>", self_ty),
    }
}

/// the span lies in the expansion of one of the `debug_assert*!` macros (compiled out without debug assertions)
fn in_debug_assert(sp: Span) -> bool {
    sp.macro_backtrace().any(|e| match e.kind {
        rustc_span::ExpnKind::Macro(_, name) => name.as_str().starts_with("debug_assert"),
        _ => false,
    })
}

fn span_loc(tcx: TyCtxt<'_>, sp: Span) -> (String, usize) {
    let sp = if sp.from_expansion() { sp.source_callsite() } else { sp };
    let sm = tcx.sess.source_map();
    let lo = sm.lookup_char_pos(sp.lo());
    let name = match &lo.file.name {
        rustc_span::FileName::Real(r) => match r.local_path() {
            Some(p) => p.to_string_lossy().to_string(),
            None => format!("{:?}", r),
        },
        other => format!("{:?}", other),
    };
    (name, lo.line)
}

fn adt_path_of_ty<'tcx>(tcx: TyCtxt<'tcx>, t: Ty<'tcx>) -> Option<String> {
    let mut t = t;
    loop {
        match t.kind() {
            ty::Ref(_, inner, _) => t = *inner,
            ty::RawPtr(inner, _) => t = *inner,
            ty::Adt(adt, _) => return Some(item_key(tcx, adt.did())),
            _ => return None,
        }
    }
}

// ---------------------------------------------------------------- bodies

fn emit_body<'tcx>(tcx: TyCtxt<'tcx>, def: LocalDefId, body: &Body<'tcx>, stage: &str) -> J {
    let did = def.to_def_id();
    let mut o = BTreeMap::new();
    o.insert("key".into(), J::s(&item_key(tcx, did)));
    o.insert("stage".into(), J::s(stage));
    let kind = match tcx.def_kind(did) {
        DefKind::Fn => "fn",
        DefKind::AssocFn => "assoc",
        DefKind::Closure => {
            if tcx.coroutine_kind(did).is_some() {
                "coroutine"
            } else {
                "closure"
            }
        }
        _ => "other",
    };
    o.insert("kind".into(), J::s(kind));
    if let Some(n) = tcx.opt_item_name(did) {
        o.insert("name".into(), J::s(n.as_str()));
    }
    // enclosing fn-like item (for closures) and impl info
    let mut owner = did;
    while matches!(tcx.def_kind(owner), DefKind::Closure) {
        owner = tcx.parent(owner);
    }
    if owner != did {
        o.insert("parent".into(), J::s(&item_key(tcx, tcx.parent(did))));
        o.insert("owner".into(), J::s(&item_key(tcx, owner)));
    }
    if let Some(p) = tcx.opt_parent(owner) {
        if matches!(tcx.def_kind(p), DefKind::Impl { .. }) {
            let self_ty = tcx.type_of(p).instantiate_identity().skip_norm_wip();
            o.insert("self_ty".into(), J::s(&self_ty.to_string()));
            if let Some(a) = adt_path_of_ty(tcx, self_ty) {
                o.insert("self_adt".into(), J::s(&a));
            }
            if let Some(tr) = tcx.impl_opt_trait_ref(p) {
                let tr = tr.instantiate_identity().skip_norm_wip();
                o.insert("trait".into(), J::s(&item_key(tcx, tr.def_id)));
            }
        } else if matches!(tcx.def_kind(p), DefKind::Trait) {
            o.insert("trait_decl".into(), J::s(&item_key(tcx, p)));
        }
    }
    if matches!(tcx.def_kind(did), DefKind::Fn | DefKind::AssocFn) {
        o.insert("vis".into(), J::s(&format!("{:?}", tcx.visibility(did))));
    }
    let (file, line) = span_loc(tcx, body.span);
    o.insert("file".into(), J::s(&file));
    o.insert("line".into(), J::n(line as i128));
    o.insert("exp".into(), J::Bool(body.span.from_expansion()));
    o.insert("argc".into(), J::n(body.arg_count as i128));
    o.insert("is_coroutine".into(), J::Bool(body.coroutine.is_some()));

    let cx = Cx { tcx, body, env: TypingEnv::post_analysis(tcx, did) };

    let mut locals = Vec::new();
    for (_l, decl) in body.local_decls.iter_enumerated() {
        let mut lo = BTreeMap::new();
        lo.insert("ty".into(), J::s(&decl.ty.to_string()));
        if let Some(a) = adt_path_of_ty(tcx, decl.ty) {
            lo.insert("adt".into(), J::s(&a));
        }
        locals.push(J::Obj(lo));
    }
    o.insert("locals".into(), J::Arr(locals));

    let mut dbg = Vec::new();
    for v in &body.var_debug_info {
        let mut d = BTreeMap::new();
        d.insert("name".into(), J::s(v.name.as_str()));
        match &v.value {
            VarDebugInfoContents::Place(p) => {
                d.insert("place".into(), cx.place(*p));
            }
            VarDebugInfoContents::Const(c) => {
                d.insert("const".into(), cx.constant(c));
            }
        }
        if let Some(a) = v.argument_index {
            d.insert("arg".into(), J::n(a as i128));
        }
        dbg.push(J::Obj(d));
    }
    o.insert("dbg".into(), J::Arr(dbg));

    let mut blocks = Vec::new();
    for (_bb, data) in body.basic_blocks.iter_enumerated() {
        let mut b = BTreeMap::new();
        let mut stmts = Vec::new();
        for st in &data.statements {
            if let Some(j) = cx.stmt(st) {
                stmts.push(j);
            }
        }
        b.insert("s".into(), J::Arr(stmts));
        b.insert("t".into(), cx.term(data.terminator()));
        if data.is_cleanup {
            b.insert("cleanup".into(), J::Bool(true));
        }
        blocks.push(J::Obj(b));
    }
    o.insert("blocks".into(), J::Arr(blocks));
    J::Obj(o)
}

struct Cx<'a, 'tcx> {
    tcx: TyCtxt<'tcx>,
    body: &'a Body<'tcx>,
    env: TypingEnv<'tcx>,
}

impl<'a, 'tcx> Cx<'a, 'tcx> {
    fn line(&self, sp: Span) -> J {
        J::n(span_loc(self.tcx, sp).1 as i128)
    }

    fn place(&self, p: Place<'tcx>) -> J {
        let mut v = vec![J::n(p.local.as_u32() as i128)];
        let mut pty = mir::PlaceTy::from_ty(self.body.local_decls[p.local].ty);
        for elem in p.projection.iter() {
            match elem {
                ProjectionElem::Deref => v.push(J::s("*")),
                ProjectionElem::Field(f, _) => {
                    let mut name = String::new();
                    match pty.ty.kind() {
                        ty::Adt(adt, _) => {
                            let vi = pty.variant_index.unwrap_or(rustc_abi::FIRST_VARIANT);
                            if vi.as_usize() < adt.variants().len() {
                                let var = adt.variant(vi);
                                if f.as_usize() < var.fields.len() {
                                    name = var.fields[f].name.to_string();
                                }
                            }
                        }
                        _ => {}
                    }
                    v.push(J::Arr(vec![J::s("."), J::n(f.as_u32() as i128), J::s(&name)]));
                }
                ProjectionElem::Downcast(name, vi) => {
                    let n = match name {
                        Some(n) => n.to_string(),
                        None => match pty.ty.kind() {
                            ty::Adt(adt, _) if vi.as_usize() < adt.variants().len() => {
                                adt.variant(vi).name.to_string()
                            }
                            _ => format!("{}", vi.as_u32()),
                        },
                    };
                    v.push(J::Arr(vec![J::s("as"), J::s(&n), J::n(vi.as_u32() as i128)]));
                }
                ProjectionElem::Index(l) => {
                    v.push(J::Arr(vec![J::s("[]"), J::n(l.as_u32() as i128)]))
                }
                ProjectionElem::ConstantIndex { offset, from_end, .. } => v.push(J::Arr(vec![
                    J::s("[c]"),
                    J::n(offset as i128),
                    J::Bool(from_end),
                ])),
                ProjectionElem::Subslice { from, to, from_end } => v.push(J::Arr(vec![
                    J::s("[..]"),
                    J::n(from as i128),
                    J::n(to as i128),
                    J::Bool(from_end),
                ])),
                _ => v.push(J::Arr(vec![J::s("ty")])),
            }
            pty = pty.projection_ty(self.tcx, elem);
        }
        J::Arr(v)
    }

    fn operand(&self, op: &Operand<'tcx>) -> J {
        match op {
            Operand::Copy(p) => J::Arr(vec![J::s("c"), self.place(*p)]),
            Operand::Move(p) => J::Arr(vec![J::s("m"), self.place(*p)]),
            Operand::Constant(c) => J::Arr(vec![J::s("k"), self.constant(c)]),
            #[allow(unreachable_patterns)]
            _ => J::Arr(vec![J::s("k"), J::s(&format!("{:?}", op))]),
        }
    }

    fn fn_desc(&self, did: DefId, substs: ty::GenericArgsRef<'tcx>) -> BTreeMap<String, J> {
        let tcx = self.tcx;
        let mut d = BTreeMap::new();
        d.insert("fn".into(), J::s(&item_key(tcx, did)));
        if let Some(n) = tcx.opt_item_name(did) {
            d.insert("name".into(), J::s(n.as_str()));
        }
        d.insert("local".into(), J::Bool(did.is_local()));
        if matches!(tcx.def_kind(did), DefKind::Fn | DefKind::AssocFn) {
            let sig = tcx.fn_sig(did).instantiate_identity().skip_norm_wip();
            if sig.safety().is_unsafe() {
                d.insert("unsafe".into(), J::Bool(true));
            }
        }
        d.insert(
            "substs".into(),
            J::Arr(substs.iter().map(|a| J::s(&a.to_string())).collect()),
        );
        if matches!(tcx.def_kind(did), DefKind::AssocFn) {
            if let Some(tr) = tcx.trait_of_assoc(did) {
                d.insert("trait".into(), J::s(&item_key(tcx, tr)));
                if let Some(s0) = substs.types().next() {
                    d.insert("self".into(), J::s(&s0.to_string()));
                }
                if let Ok(Some(inst)) = ty::Instance::try_resolve(tcx, self.env, did, substs) {
                    let rd = inst.def_id();
                    if rd != did {
                        d.insert("res".into(), J::s(&item_key(tcx, rd)));
                    } else {
                        d.insert("res_default".into(), J::Bool(true));
                    }
                }
            } else if let Some(imp) = tcx.opt_parent(did) {
                if matches!(tcx.def_kind(imp), DefKind::Impl { .. }) {
                    let st = tcx.type_of(imp).instantiate_identity().skip_norm_wip();
                    if let Some(a) = adt_path_of_ty(tcx, st) {
                        d.insert("self_adt".into(), J::s(&a));
                    }
                    if let Some(tr) = tcx.impl_opt_trait_ref(imp) {
                        let tr = tr.instantiate_identity().skip_norm_wip();
                        d.insert("impl_trait".into(), J::s(&item_key(tcx, tr.def_id)));
                    }
                }
            }
        }
        d
    }

    fn constant(&self, c: &ConstOperand<'tcx>) -> J {
        let tcx = self.tcx;
        let ty = c.const_.ty();
        let mut d = BTreeMap::new();
        d.insert("ty".into(), J::s(&ty.to_string()));
        match ty.kind() {
            ty::FnDef(did, substs) => {
                for (k, v) in self.fn_desc(*did, substs) {
                    d.insert(k, v);
                }
                return J::Obj(d);
            }
            _ => {}
        }
        // named origin
        if let mir::Const::Unevaluated(u, _) = c.const_ {
            d.insert("def".into(), J::s(&item_key(tcx, u.def)));
            if u.promoted.is_some() {
                d.insert("promoted".into(), J::Bool(true));
            }
        }
        if let mir::Const::Ty(_, ct) = c.const_ {
            if let ty::ConstKind::Unevaluated(u) = ct.kind() {
                d.insert("def".into(), J::s(&item_key(tcx, u.def)));
            }
        }
        let scalar_like = match ty.kind() {
            ty::Bool | ty::Char | ty::Int(_) | ty::Uint(_) => true,
            ty::Adt(adt, _) => adt.is_struct() || adt.is_enum(),
            _ => false,
        };
        if scalar_like {
            if let Some(si) = c.const_.try_eval_scalar_int(tcx, self.env) {
                let bits = si.to_bits_unchecked();
                let v: String = match ty.kind() {
                    ty::Int(_) => {
                        let size = si.size();
                        format!("{}", size.sign_extend(bits))
                    }
                    _ => format!("{}", bits),
                };
                d.insert("v".into(), J::Raw(v));
            }
        }
        if !d.contains_key("v") {
            // reference to a small plain-data constant (promoted `&CONST`): value of the pointee
            if let ty::Ref(_, inner, _) = ty.kind() {
                if let Some(v) = self.pointee_scalar(c, *inner) {
                    d.insert("pv".into(), J::Raw(v));
                    d.insert("pty".into(), J::s(&inner.to_string()));
                }
            }
        }
        if !d.contains_key("v") {
            // string literals and anything else: debug text, bounded
            let mut s = format!("{}", c.const_);
            if s.len() > 200 {
                s.truncate(200);
            }
            d.insert("s".into(), J::s(&s));
        }
        J::Obj(d)
    }

    fn pointee_scalar(&self, c: &ConstOperand<'tcx>, inner: Ty<'tcx>) -> Option<String> {
        let tcx = self.tcx;
        let lay = tcx.layout_of(self.env.as_query_input(inner)).ok()?;
        let size = lay.size.bytes() as usize;
        if size == 0 || size > 16 {
            return None;
        }
        match inner.kind() {
            ty::Bool | ty::Char | ty::Int(_) | ty::Uint(_) => {}
            ty::Adt(adt, _) if adt.is_struct() => {}
            _ => return None,
        }
        let val = c.const_.eval(tcx, self.env, c.span).ok()?;
        let scalar = match val {
            ConstValue::Scalar(s) => s,
            _ => return None,
        };
        let ptr = scalar.to_pointer(&tcx).discard_err()?;
        let (prov, offset) = ptr.into_raw_parts();
        let alloc_id = prov?.alloc_id();
        let alloc = match tcx.try_get_global_alloc(alloc_id)? {
            rustc_middle::mir::interpret::GlobalAlloc::Memory(a) => a,
            _ => return None,
        };
        let start = offset.bytes() as usize;
        let bytes = alloc
            .inner()
            .inspect_with_uninit_and_ptr_outside_interpreter(start..start + size);
        let mut v: u128 = 0;
        for (i, b) in bytes.iter().enumerate() {
            v |= (*b as u128) << (8 * i);
        }
        Some(format!("{}", v))
    }

    fn stmt(&self, st: &Statement<'tcx>) -> Option<J> {
        let ln = self.line(st.source_info.span);
        match &st.kind {
            StatementKind::Assign(b) => {
                let (p, rv) = &**b;
                Some(J::Arr(vec![J::s("="), self.place(*p), self.rvalue(rv), ln]))
            }
            StatementKind::SetDiscriminant { place, variant_index } => Some(J::Arr(vec![
                J::s("setdiscr"),
                self.place(**place),
                J::n(variant_index.as_u32() as i128),
                ln,
            ])),
            StatementKind::StorageLive(l) => {
                Some(J::Arr(vec![J::s("live"), J::n(l.as_u32() as i128)]))
            }
            StatementKind::StorageDead(l) => {
                Some(J::Arr(vec![J::s("dead"), J::n(l.as_u32() as i128)]))
            }
            StatementKind::Intrinsic(i) => {
                Some(J::Arr(vec![J::s("intrinsic"), J::s(&format!("{:?}", i)), ln]))
            }
            _ => None,
        }
    }

    fn rvalue(&self, rv: &Rvalue<'tcx>) -> J {
        match rv {
            Rvalue::Use(op, ..) => J::Arr(vec![J::s("use"), self.operand(op)]),
            Rvalue::Repeat(op, n) => {
                J::Arr(vec![J::s("repeat"), self.operand(op), J::s(&n.to_string())])
            }
            Rvalue::Ref(_, bk, p) => {
                let k = match bk {
                    BorrowKind::Shared => "shared",
                    BorrowKind::Mut { .. } => "mut",
                    BorrowKind::Fake(_) => "fake",
                };
                J::Arr(vec![J::s("ref"), J::s(k), self.place(*p)])
            }
            Rvalue::RawPtr(k, p) => {
                J::Arr(vec![J::s("rawptr"), J::s(&format!("{:?}", k)), self.place(*p)])
            }
            Rvalue::Cast(k, op, t) => J::Arr(vec![
                J::s("cast"),
                J::s(&format!("{:?}", k)),
                self.operand(op),
                J::s(&t.to_string()),
            ]),
            Rvalue::BinaryOp(op, b) => {
                let (a, c) = &**b;
                J::Arr(vec![
                    J::s("bin"),
                    J::s(&format!("{:?}", op)),
                    self.operand(a),
                    self.operand(c),
                ])
            }
            Rvalue::UnaryOp(op, a) => {
                J::Arr(vec![J::s("un"), J::s(&format!("{:?}", op)), self.operand(a)])
            }
            Rvalue::Discriminant(p) => J::Arr(vec![J::s("discr"), self.place(*p)]),
            Rvalue::Aggregate(k, ops) => {
                let mut d = BTreeMap::new();
                match &**k {
                    AggregateKind::Array(_) => {
                        d.insert("k".into(), J::s("array"));
                    }
                    AggregateKind::Tuple => {
                        d.insert("k".into(), J::s("tuple"));
                    }
                    AggregateKind::Adt(did, vi, _, _, active) => {
                        d.insert("k".into(), J::s("adt"));
                        d.insert("adt".into(), J::s(&item_key(self.tcx, *did)));
                        let adt = self.tcx.adt_def(*did);
                        let var = adt.variant(*vi);
                        d.insert("variant".into(), J::s(var.name.as_str()));
                        d.insert("vi".into(), J::n(vi.as_u32() as i128));
                        if let Some(a) = active {
                            // union: the single active field
                            d.insert(
                                "fields".into(),
                                J::Arr(vec![J::s(var.fields[*a].name.as_str())]),
                            );
                        } else {
                            d.insert(
                                "fields".into(),
                                J::Arr(var.fields.iter().map(|f| J::s(f.name.as_str())).collect()),
                            );
                        }
                    }
                    AggregateKind::Closure(did, _) => {
                        d.insert("k".into(), J::s("closure"));
                        d.insert("fn".into(), J::s(&item_key(self.tcx, *did)));
                    }
                    AggregateKind::Coroutine(did, _) => {
                        d.insert("k".into(), J::s("coroutine"));
                        d.insert("fn".into(), J::s(&item_key(self.tcx, *did)));
                    }
                    AggregateKind::CoroutineClosure(did, _) => {
                        d.insert("k".into(), J::s("coroutine_closure"));
                        d.insert("fn".into(), J::s(&item_key(self.tcx, *did)));
                    }
                    AggregateKind::RawPtr(_, _) => {
                        d.insert("k".into(), J::s("rawptr"));
                    }
                }
                J::Arr(vec![
                    J::s("agg"),
                    J::Obj(d),
                    J::Arr(ops.iter().map(|o| self.operand(o)).collect()),
                ])
            }
            Rvalue::CopyForDeref(p) => J::Arr(vec![J::s("use"), J::Arr(vec![J::s("c"), self.place(*p)])]),
            other => J::Arr(vec![J::s("other"), J::s(&format!("{:?}", other))]),
        }
    }

    fn bb(&self, b: BasicBlock) -> J {
        J::n(b.as_u32() as i128)
    }

    fn unwind(&self, u: &UnwindAction) -> J {
        match u {
            UnwindAction::Cleanup(b) => self.bb(*b),
            _ => J::Null,
        }
    }

    fn term(&self, t: &Terminator<'tcx>) -> J {
        let ln = self.line(t.source_info.span);
        match &t.kind {
            TerminatorKind::Goto { target } => J::Arr(vec![J::s("goto"), self.bb(*target)]),
            TerminatorKind::SwitchInt { discr, targets } => {
                let mut arms = Vec::new();
                for (v, b) in targets.iter() {
                    arms.push(J::Arr(vec![J::Raw(format!("{}", v)), self.bb(b)]));
                }
                let dty = discr.ty(self.body, self.tcx);
                J::Arr(vec![
                    J::s("switch"),
                    self.operand(discr),
                    J::Arr(arms),
                    self.bb(targets.otherwise()),
                    J::s(&dty.to_string()),
                    ln,
                ])
            }
            TerminatorKind::UnwindResume => J::Arr(vec![J::s("resume")]),
            TerminatorKind::UnwindTerminate(_) => J::Arr(vec![J::s("abort")]),
            TerminatorKind::Return => J::Arr(vec![J::s("ret")]),
            TerminatorKind::Unreachable => J::Arr(vec![J::s("unreachable")]),
            TerminatorKind::Drop { place, target, unwind, .. } => J::Arr(vec![
                J::s("drop"),
                self.place(*place),
                self.bb(*target),
                self.unwind(unwind),
                ln,
            ]),
            TerminatorKind::Call { func, args, destination, target, unwind, .. } => {
                let mut d = BTreeMap::new();
                let fty = func.ty(self.body, self.tcx);
                match fty.kind() {
                    ty::FnDef(did, substs) => {
                        for (k, v) in self.fn_desc(*did, substs) {
                            d.insert(k, v);
                        }
                    }
                    _ => {
                        d.insert("ptr".into(), self.operand(func));
                        d.insert("fty".into(), J::s(&fty.to_string()));
                    }
                }
                d.insert(
                    "args".into(),
                    J::Arr(args.iter().map(|a| self.operand(&a.node)).collect()),
                );
                d.insert("dest".into(), self.place(*destination));
                d.insert("t".into(), target.map(|b| self.bb(b)).unwrap_or(J::Null));
                d.insert("u".into(), self.unwind(unwind));
                d.insert("line".into(), ln);
                d.insert("exp".into(), J::Bool(t.source_info.span.from_expansion()));
                if in_debug_assert(t.source_info.span) {
                    d.insert("dbgassert".into(), J::Bool(true));
                }
                J::Arr(vec![J::s("call"), J::Obj(d)])
            }
            TerminatorKind::Assert { cond, expected, msg, target, unwind } => {
                let kind = match &**msg {
                    AssertKind::BoundsCheck { .. } => "bounds".to_string(),
                    AssertKind::Overflow(op, ..) => format!("overflow:{:?}", op),
                    AssertKind::OverflowNeg(_) => "overflow:Neg".to_string(),
                    AssertKind::DivisionByZero(_) => "divzero".to_string(),
                    AssertKind::RemainderByZero(_) => "remzero".to_string(),
                    AssertKind::MisalignedPointerDereference { .. } => "misaligned".to_string(),
                    AssertKind::NullPointerDereference => "nullptr".to_string(),
                    AssertKind::InvalidEnumConstruction(_) => "invalid_enum".to_string(),
                    _ => "resume".to_string(),
                };
                let mut ops = Vec::new();
                match &**msg {
                    AssertKind::BoundsCheck { len, index } => {
                        ops.push(self.operand(len));
                        ops.push(self.operand(index));
                    }
                    AssertKind::Overflow(_, a, b) => {
                        ops.push(self.operand(a));
                        ops.push(self.operand(b));
                    }
                    AssertKind::OverflowNeg(a)
                    | AssertKind::DivisionByZero(a)
                    | AssertKind::RemainderByZero(a) => ops.push(self.operand(a)),
                    _ => {}
                }
                J::Arr(vec![
                    J::s("assert"),
                    self.operand(cond),
                    J::Bool(*expected),
                    J::s(&kind),
                    self.bb(*target),
                    self.unwind(unwind),
                    J::Arr(ops),
                    ln,
                ])
            }
            TerminatorKind::Yield { value, resume, resume_arg, drop } => J::Arr(vec![
                J::s("yield"),
                self.operand(value),
                self.bb(*resume),
                self.place(*resume_arg),
                drop.map(|b| self.bb(b)).unwrap_or(J::Null),
            ]),
            TerminatorKind::FalseEdge { real_target, .. } => {
                J::Arr(vec![J::s("goto"), self.bb(*real_target)])
            }
            TerminatorKind::FalseUnwind { real_target, .. } => {
                J::Arr(vec![J::s("goto"), self.bb(*real_target)])
            }
            TerminatorKind::CoroutineDrop => J::Arr(vec![J::s("coroutine_drop")]),
            TerminatorKind::InlineAsm { .. } => J::Arr(vec![J::s("asm")]),
            TerminatorKind::TailCall { .. } => J::Arr(vec![J::s("tailcall")]),
        }
    }
}

// ---------------------------------------------------------------- items

fn attrs_json(tcx: TyCtxt<'_>, did: DefId) -> J {
    let mut v = Vec::new();
    #[allow(deprecated)]
    for a in tcx.get_all_attrs(did) {
        let mut s = format!("{:?}", a);
        if s.len() > 400 {
            s.truncate(400);
        }
        v.push(J::s(&s));
    }
    J::Arr(v)
}

fn emit_struct(tcx: TyCtxt<'_>, ldid: LocalDefId) -> J {
    let did = ldid.to_def_id();
    let mut o = BTreeMap::new();
    o.insert("key".into(), J::s(&item_key(tcx, did)));
    let adt = tcx.adt_def(did);
    o.insert("repr_c".into(), J::Bool(adt.repr().c()));
    o.insert("repr_packed".into(), J::Bool(adt.repr().packed()));
    o.insert("repr_transparent".into(), J::Bool(adt.repr().transparent()));
    o.insert("is_union".into(), J::Bool(adt.is_union()));
    let (file, line) = span_loc(tcx, tcx.def_span(did));
    o.insert("file".into(), J::s(&file));
    o.insert("line".into(), J::n(line as i128));
    o.insert("attrs".into(), attrs_json(tcx, did));
    let generics = tcx.generics_of(did);
    let generic = generics.own_requires_monomorphization(); // type/const params
    o.insert("generic".into(), J::Bool(generic));
    let var = adt.non_enum_variant();
    let mut fields = Vec::new();
    let ty = tcx.type_of(did).instantiate_identity().skip_norm_wip();
    let layout = if generic {
        None
    } else {
        tcx.layout_of(TypingEnv::fully_monomorphized().as_query_input(ty)).ok()
    };
    if let Some(l) = &layout {
        o.insert("size".into(), J::n(l.size.bytes() as i128));
        o.insert("align".into(), J::n(l.align.abi.bytes() as i128));
    }
    for (i, f) in var.fields.iter_enumerated() {
        let mut fo = BTreeMap::new();
        fo.insert("name".into(), J::s(f.name.as_str()));
        let fty = tcx.type_of(f.did).instantiate_identity().skip_norm_wip();
        fo.insert("ty".into(), J::s(&fty.to_string()));
        fo.insert("vis".into(), J::s(&format!("{:?}", f.vis)));
        fo.insert("attrs".into(), attrs_json(tcx, f.did));
        if let Some(l) = &layout {
            fo.insert("offset".into(), J::n(l.fields.offset(i.as_usize()).bytes() as i128));
            if let Ok(fl) = tcx.layout_of(TypingEnv::fully_monomorphized().as_query_input(fty)) {
                fo.insert("size".into(), J::n(fl.size.bytes() as i128));
            }
        }
        fields.push(J::Obj(fo));
    }
    o.insert("fields".into(), J::Arr(fields));
    J::Obj(o)
}

fn emit_enum(tcx: TyCtxt<'_>, ldid: LocalDefId) -> J {
    let did = ldid.to_def_id();
    let mut o = BTreeMap::new();
    o.insert("key".into(), J::s(&item_key(tcx, did)));
    let adt = tcx.adt_def(did);
    o.insert("repr".into(), J::s(&format!("{:?}", adt.repr().int)));
    let mut vars = Vec::new();
    for (vi, discr) in adt.discriminants(tcx) {
        let v = adt.variant(vi);
        let mut vo = BTreeMap::new();
        vo.insert("name".into(), J::s(v.name.as_str()));
        vo.insert("discr".into(), J::Raw(format!("{}", discr.val)));
        vo.insert(
            "fields".into(),
            J::Arr(v.fields.iter().map(|f| J::s(f.name.as_str())).collect()),
        );
        vars.push(J::Obj(vo));
    }
    o.insert("variants".into(), J::Arr(vars));
    J::Obj(o)
}

fn emit_const(tcx: TyCtxt<'_>, ldid: LocalDefId) -> Option<J> {
    let did = ldid.to_def_id();
    let generics = tcx.generics_of(did);
    if generics.requires_monomorphization(tcx) {
        return None;
    }
    // associated consts of traits without a value cannot be evaluated
    if let DefKind::AssocConst { .. } = tcx.def_kind(did) {
        if let Some(p) = tcx.opt_parent(did) {
            if matches!(tcx.def_kind(p), DefKind::Trait) {
                return None;
            }
        }
    }
    let ty = tcx.type_of(did).instantiate_identity().skip_norm_wip();
    let mut o = BTreeMap::new();
    o.insert("key".into(), J::s(&item_key(tcx, did)));
    o.insert("ty".into(), J::s(&ty.to_string()));
    if let Some(n) = tcx.opt_item_name(did) {
        o.insert("name".into(), J::s(n.as_str()));
    }
    let (file, line) = span_loc(tcx, tcx.def_span(did));
    o.insert("file".into(), J::s(&file));
    o.insert("line".into(), J::n(line as i128));
    let scalar_like = match ty.kind() {
        ty::Bool | ty::Char | ty::Int(_) | ty::Uint(_) => true,
        ty::Adt(adt, _) => adt.is_struct(),
        _ => false,
    };
    if scalar_like {
        if let Ok(cv) = tcx.const_eval_poly(did) {
            if let Some(si) = cv.try_to_scalar_int() {
                let bits = si.to_bits_unchecked();
                let v = match ty.kind() {
                    ty::Int(_) => format!("{}", si.size().sign_extend(bits)),
                    _ => format!("{}", bits),
                };
                o.insert("v".into(), J::Raw(v));
            }
        }
    }
    // byte-string / string constants: the bytes
    let slice_like = match ty.kind() {
        ty::Ref(_, inner, _) => match inner.kind() {
            ty::Str => true,
            ty::Slice(e) => matches!(e.kind(), ty::Uint(ty::UintTy::U8)),
            _ => false,
        },
        _ => false,
    };
    if slice_like {
        if let Ok(cv) = tcx.const_eval_poly(did) {
            if let Some(bytes) = cv.try_get_slice_bytes_for_diagnostics(tcx) {
                if bytes.len() <= 256 {
                    o.insert(
                        "bytes".into(),
                        J::Arr(bytes.iter().map(|b| J::n(*b as i128)).collect()),
                    );
                }
            }
        }
    }
    Some(J::Obj(o))
}

fn emit_trait(tcx: TyCtxt<'_>, ldid: LocalDefId) -> J {
    let did = ldid.to_def_id();
    let mut o = BTreeMap::new();
    o.insert("key".into(), J::s(&item_key(tcx, did)));
    let mut ms = Vec::new();
    for it in tcx.associated_items(did).in_definition_order() {
        let mut m = BTreeMap::new();
        m.insert("name".into(), J::s(it.name().as_str()));
        m.insert("kind".into(), J::s(&format!("{:?}", it.tag())));
        m.insert("default".into(), J::Bool(it.defaultness(tcx).has_value()));
        m.insert("key".into(), J::s(&item_key(tcx, it.def_id)));
        ms.push(J::Obj(m));
    }
    o.insert("items".into(), J::Arr(ms));
    J::Obj(o)
}

fn emit_impl(tcx: TyCtxt<'_>, ldid: LocalDefId) -> J {
    let did = ldid.to_def_id();
    let mut o = BTreeMap::new();
    o.insert("key".into(), J::s(&item_key(tcx, did)));
    let self_ty = tcx.type_of(did).instantiate_identity().skip_norm_wip();
    o.insert("self_ty".into(), J::s(&self_ty.to_string()));
    if let Some(a) = adt_path_of_ty(tcx, self_ty) {
        o.insert("self_adt".into(), J::s(&a));
    }
    if let Some(tr) = tcx.impl_opt_trait_ref(did) {
        let tr = tr.instantiate_identity().skip_norm_wip();
        o.insert("trait".into(), J::s(&item_key(tcx, tr.def_id)));
        o.insert("trait_ref".into(), J::s(&tr.to_string()));
    }
    let (file, line) = span_loc(tcx, tcx.def_span(did));
    o.insert("file".into(), J::s(&file));
    o.insert("line".into(), J::n(line as i128));
    let mut ms = Vec::new();
    for it in tcx.associated_items(did).in_definition_order() {
        let mut m = BTreeMap::new();
        m.insert("name".into(), J::s(it.name().as_str()));
        m.insert("kind".into(), J::s(&format!("{:?}", it.tag())));
        m.insert("key".into(), J::s(&item_key(tcx, it.def_id)));
        ms.push(J::Obj(m));
    }
    o.insert("items".into(), J::Arr(ms));
    J::Obj(o)
}
