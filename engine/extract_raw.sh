#!/bin/bash
# usage: extract_raw.sh <cfg> <features> <out.json>   (internal; use pyfbr.facts)
set -e
cfg=$1; feats=$2; out=$3
export LD_LIBRARY_PATH=$(rustc +nightly --print sysroot)/lib
export RUSTFLAGS="-Zmir-opt-level=0 -Awarnings"
export RUSTC_WORKSPACE_WRAPPER=/verif/engine/fbr-facts/target/release/fbr-facts
export FBR_OUT=$out FBR_CONFIG=$cfg FBR_NONCE=${FBR_NONCE:-0}
export CARGO_TARGET_DIR=/verif/.cache/target-$cfg
export CARGO_NET_OFFLINE=true
cd ${FBR_REPO:-/repo}
# cargo skips the wrapper when the member crate is fresh: drop its fingerprint
rm -rf $CARGO_TARGET_DIR/debug/.fingerprint/fuse-backend-rs-* 2>/dev/null || true
cargo +nightly check --offline --lib --no-default-features --features "$feats"
