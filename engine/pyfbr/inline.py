"""MIR-level inlining of functions the rule set has never seen.

The rules name the functions they analyse (anchors) and many of them look at *sites* inside those functions (a call, a
store, a switch).  A behaviour-preserving "extract function" refactoring moves such sites into a new private helper; judged
function by function the rules would then either lose the site or find it in a function they do not know.  To make the
verdict independent of that choice, every crate function whose key is not in the frozen inventory
`tables/known_functions.json` (the functions that existed when the rules were written and confirmed) is spliced into its
callers before any rule runs: blocks and locals are copied and renumbered, parameters become assignments from the call's
operands, `return` becomes an assignment to the call's destination followed by a jump to the call's target.  On a tree whose
functions are all known nothing is inlined, so the analysis of the unchanged tree is exactly what it was.

What is not inlined (the function is then analysed on its own, as before): recursive helpers, coroutines (async fn
bodies), closures, calls through trait objects or function pointers, functions without a body in the facts.
"""
import copy
import json
import os
import re

VERIF = os.path.dirname(os.path.dirname(os.path.dirname(os.path.abspath(__file__))))
INVENTORY = os.path.join(VERIF, "tables", "known_functions.json")
MAX_ROUNDS = 4
MAX_BLOCKS = 1500


def norm_key(k):
    """Lifetime names are spelling, not identity: `SrvContext<'_, F, S>` and `SrvContext<'a, F, S>` are the same impl."""
    return re.sub(r"'[A-Za-z_][A-Za-z0-9_]*", "'_", k)


def load_inventory():
    try:
        return set(norm_key(k) for k in json.load(open(INVENTORY))["functions"])
    except (OSError, ValueError, KeyError):
        return None


# ----------------------------------------------------------------------------- renumbering
def map_place(p, lm):
    out = [lm(p[0])]
    for el in p[1:]:
        if isinstance(el, list) and el and el[0] == "[]":
            out.append(["[]", lm(el[1])])
        else:
            out.append(copy.deepcopy(el))
    return out


def map_op(o, lm):
    if o[0] in ("m", "c"):
        return [o[0], map_place(o[1], lm)]
    return copy.deepcopy(o)


def map_rv(rv, lm):
    k = rv[0]
    if k == "use":
        return ["use", map_op(rv[1], lm)]
    if k in ("ref", "rawptr"):
        return [k, rv[1], map_place(rv[2], lm)]
    if k == "cast":
        return ["cast", rv[1], map_op(rv[2], lm), rv[3]]
    if k == "bin":
        return ["bin", rv[1], map_op(rv[2], lm), map_op(rv[3], lm)]
    if k == "un":
        return ["un", rv[1], map_op(rv[2], lm)]
    if k == "discr":
        return ["discr", map_place(rv[1], lm)]
    if k == "agg":
        return ["agg", copy.deepcopy(rv[1]), [map_op(o, lm) for o in rv[2]]]
    if k == "repeat":
        return ["repeat", map_op(rv[1], lm), rv[2]]
    raise ValueError("rvalue kind %r" % (k,))


def map_stmt(s, lm):
    if s[0] == "=":
        return ["=", map_place(s[1], lm), map_rv(s[2], lm), s[3]]
    if s[0] in ("dead", "live"):
        return [s[0], lm(s[1])]
    raise ValueError("statement kind %r" % (s[0],))


def map_term(t, lm, bm, ret_to, resume_to):
    k = t[0]
    if k == "goto":
        return ["goto", bm(t[1])]
    if k == "switch":
        return ["switch", map_op(t[1], lm), [[a[0], bm(a[1])] for a in t[2]], bm(t[3])] + list(t[4:])
    if k == "drop":
        return ["drop", map_place(t[1], lm), bm(t[2]), (bm(t[3]) if isinstance(t[3], int) else t[3])] + list(t[4:])
    if k == "assert":
        return ["assert", map_op(t[1], lm), t[2], t[3], bm(t[4]), (bm(t[5]) if isinstance(t[5], int) else t[5]),
                [map_op(o, lm) for o in t[6]]] + list(t[7:])
    if k == "call":
        d = copy.deepcopy(t[1])
        d["args"] = [map_op(o, lm) for o in t[1]["args"]]
        d["dest"] = map_place(t[1]["dest"], lm)
        d["t"] = bm(t[1]["t"]) if isinstance(t[1]["t"], int) else t[1]["t"]
        d["u"] = bm(t[1]["u"]) if isinstance(t[1]["u"], int) else t[1]["u"]
        if "fnptr" in d and isinstance(d["fnptr"], list):
            d["fnptr"] = map_op(d["fnptr"], lm)
        return ["call", d]
    if k == "ret":
        return ret_to
    if k == "resume":
        return resume_to
    if k == "unreachable":
        return ["unreachable"]
    raise ValueError("terminator kind %r" % (k,))


# ----------------------------------------------------------------------------- one splice
def splice(caller, bb, callee):
    """Replace the call terminating block `bb` of `caller` (raw dict, modified in place) by the body of `callee`."""
    call = caller["blocks"][bb]["t"][1]
    if len(call["args"]) != callee["argc"]:
        raise ValueError("arity")
    L0 = len(caller["locals"])
    B0 = len(caller["blocks"])

    # the callee's return place is the call's destination itself when that is a plain local: `_0 = Ok(..)` in a helper whose
    # result the caller returns directly then reads exactly like the statement it was extracted from
    direct = len(call["dest"]) == 1

    def lm(l):
        if l == 0 and direct:
            return call["dest"][0]
        return L0 + l

    def bm(b):
        return B0 + b
    line = call.get("line")
    caller["locals"] += copy.deepcopy(callee["locals"])
    pre = caller["blocks"][bb]["s"]
    for i, a in enumerate(call["args"]):
        pre.append(["=", [L0 + 1 + i], ["use", copy.deepcopy(a)], line])
    tgt, unw = call["t"], call["u"]
    new_blocks = []
    for cb in callee["blocks"]:
        stmts = [map_stmt(s, lm) for s in cb["s"]]
        if cb["t"][0] == "ret":
            if isinstance(tgt, int):
                if not direct:
                    stmts.append(["=", copy.deepcopy(call["dest"]), ["use", ["m", [L0]]], line])
                term = ["goto", tgt]
            else:
                term = ["unreachable"]
        else:
            term = map_term(cb["t"], lm, bm, None, (["goto", unw] if isinstance(unw, int) else ["resume"]))
        nb = {"s": stmts, "t": term}
        if cb.get("cleanup"):
            nb["cleanup"] = True
        new_blocks.append(nb)
    caller["blocks"] += new_blocks
    caller["blocks"][bb]["t"] = ["goto", B0]
    for d in callee.get("dbg", []) or []:
        e = {k: v for k, v in d.items() if k != "arg"}
        if isinstance(e.get("place"), list) and e["place"] and isinstance(e["place"][0], int):
            e["place"] = map_place(e["place"], lm)
            caller.setdefault("dbg", []).append(e)
    caller.setdefault("inlined", []).append(callee["key"])


def callee_key(t):
    d = t[1]
    return d.get("res") or d.get("fn")


def reaches_self(key, by_key, helpers):
    seen, st = set(), [key]
    while st:
        k = st.pop()
        f = by_key.get(k)
        if f is None:
            continue
        for b in f["blocks"]:
            if b["t"][0] == "call":
                c = callee_key(b["t"])
                if c == key:
                    return True
                if c in helpers and c not in seen:
                    seen.add(c)
                    st.append(c)
    return False


def inline_unknown(fns, built, known):
    """fns/built: lists of raw function dicts. Returns (fns, built, report)."""
    report = {"helpers": [], "spliced": 0, "skipped": []}
    if known is None:
        report["skipped"].append("no inventory")
        return fns, built, report
    by_key = {f["key"]: f for f in fns}
    async_parents = set(f.get("parent") for f in built)
    helpers = set()
    for f in fns:
        if norm_key(f["key"]) in known or f.get("kind") not in ("fn", "assoc") or f.get("is_coroutine") or f["key"] in async_parents:
            continue
        if f.get("exp"):
            continue        # macro/derive generated
        helpers.add(f["key"])
    # a known function that moved (free function -> associated function, other module of the same crate) is not a new helper: an
    # unknown key whose last segment equals that of exactly one known function that is gone is taken to be that function
    present = set(norm_key(f["key"]) for f in fns)
    gone_known = [k for k in known if k not in present]
    by_last = {}
    for k in gone_known:
        by_last.setdefault(k.rsplit("::", 1)[-1], []).append(k)
    report["moved"] = {}
    for h in sorted(helpers):
        cands = by_last.get(h.rsplit("::", 1)[-1], [])
        if len(cands) == 1 and not cands[0].endswith("}") and by_key[h].get("argc") is not None:
            report["moved"][cands[0]] = h
            helpers.discard(h)
    for h in sorted(helpers):
        if reaches_self(h, by_key, helpers):
            helpers.discard(h)
            report["skipped"].append("%s: recursive" % h)
    if not helpers:
        return fns, built, report
    pristine = {k: copy.deepcopy(by_key[k]) for k in helpers}
    for group in (fns, built):
        for f in group:
            for _ in range(MAX_ROUNDS):
                sites = [i for i, b in enumerate(f["blocks"]) if b["t"][0] == "call" and callee_key(b["t"]) in helpers
                         and callee_key(b["t"]) != f["key"]]
                if not sites or len(f["blocks"]) > MAX_BLOCKS:
                    break
                for i in sites:
                    try:
                        splice(f, i, pristine[callee_key(f["blocks"][i]["t"])])
                        report["spliced"] += 1
                    except ValueError as e:
                        report["skipped"].append("%s in %s: %s" % (callee_key(f["blocks"][i]["t"]), f["key"], e))
    # a private helper all of whose call sites were spliced is no longer a function of its own
    still = set()
    for group in (fns, built):
        for f in group:
            for b in f["blocks"]:
                if b["t"][0] == "call" and callee_key(b["t"]) in helpers and f["key"] not in helpers:
                    still.add(callee_key(b["t"]))
                for s in b["s"]:
                    if s[0] == "=":
                        js = json.dumps(s[2])
                        if "fn" in js:
                            for h in helpers:
                                if json.dumps(h) in js:         # the function itself (as a value), not one of its closures
                                    still.add(h)
    gone = set(h for h in helpers if h not in still and by_key[h].get("vis") != "Public")
    report["helpers"] = sorted(helpers)
    report["removed"] = sorted(gone)
    # closures of a removed helper now belong to the callers it was spliced into
    reown = {}
    for f in fns:
        for h in f.get("inlined", []):
            reown.setdefault(h, []).append(f["key"])
    fns = [f for f in fns if f["key"] not in gone]
    for f in fns:
        if f.get("owner") in gone and reown.get(f["owner"]):
            owners = reown[f["owner"]]
            f["spliced_owner"] = f["owner"]
            f["owner"] = owners[0]              # the closure now lives in the function its helper was spliced into
            f["also_owned_by"] = owners[1:]
    return fns, built, report


# ----------------------------------------------------------------------------- debug assertions
def prune_debug_asserts(f):
    """`debug_assert*!` is compiled out of the build a server ships (no debug assertions); what the properties speak about is
    that build.  The failing arm of such an assertion (blocks that only lead to the assertion's diverging panic call) is
    removed from the switch that tests the condition, so that adding or removing a debug assertion changes no verdict.
    Returns the number of edges removed."""
    blocks = f["blocks"]
    dead = set()
    for i, b in enumerate(blocks):
        t = b["t"]
        if t[0] == "call" and t[1].get("dbgassert") and not isinstance(t[1].get("t"), int):
            dead.add(i)
    if not dead:
        return 0
    changed = True
    while changed:
        changed = False
        for i, b in enumerate(blocks):
            if i in dead or b.get("cleanup"):
                continue
            t = b["t"]
            if t[0] == "goto":
                nxt = [t[1]]
            elif t[0] == "call" and t[1].get("dbgassert") and isinstance(t[1].get("t"), int):
                nxt = [t[1]["t"]]           # building the assertion's message
            elif t[0] == "drop" and isinstance(t[2], int) and b.get("dbg_only"):
                nxt = [t[2]]
            else:
                continue
            if all(n in dead for n in nxt):
                dead.add(i)
                changed = True
    n = 0
    for i, b in enumerate(blocks):
        t = b["t"]
        if t[0] != "switch" or i in dead:
            continue
        arms, other = t[2], t[3]
        keep = [a for a in arms if a[1] not in dead]
        if len(keep) == len(arms) and other not in dead:
            continue
        if other in dead:
            if not keep:
                continue
            other = keep[-1][1]
            keep = keep[:-1]
        n += 1
        if not keep or all(a[1] == other for a in keep):
            b["t"] = ["goto", other]
        else:
            b["t"] = ["switch", t[1], keep, other] + list(t[4:])
    return n
