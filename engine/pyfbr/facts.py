"""Fact loading: runs the fbr-facts extractor over /repo's current working tree
(per feature configuration), caches by a hash of the complete build input, and
indexes the result."""
import fcntl
import hashlib
import json
import os
import subprocess
import sys
import time

VERIF = os.path.dirname(os.path.dirname(os.path.dirname(os.path.abspath(__file__))))
REPO = os.environ.get("FBR_REPO", "/repo")
CACHE = os.environ.get("FBR_CACHE") or os.path.join(VERIF, ".cache")
DRIVER = os.path.join(VERIF, "engine/fbr-facts/target/release/fbr-facts")

CONFIGS = {
    "D": "fusedev",
    "S": "fusedev,virtiofs,vhost-user-fs,persist",
    "A": "fusedev,virtiofs,vhost-user-fs,persist,async-io",
}


def repo_hash(repo=None):
    """SHA-256 over every file that can influence the build (everything under the
    repository except target/ and .git/)."""
    repo = repo or REPO
    h = hashlib.sha256()
    for root, dirs, files in os.walk(repo):
        dirs[:] = sorted(d for d in dirs if d not in ("target", ".git"))
        for f in sorted(files):
            p = os.path.join(root, f)
            if os.path.islink(p) or not os.path.isfile(p):
                continue
            h.update(os.path.relpath(p, repo).encode())
            h.update(b"\0")
            with open(p, "rb") as fh:
                h.update(hashlib.sha256(fh.read()).digest())
    # the extractor itself is part of the input
    if os.path.exists(DRIVER):
        st = os.stat(DRIVER)
        h.update(("%d:%d" % (st.st_size, int(st.st_mtime))).encode())
    return h.hexdigest()


class ExtractError(Exception):
    def __init__(self, cfg, log):
        Exception.__init__(self, "configuration %s does not type-check" % cfg)
        self.cfg = cfg
        self.log = log

    def first_error(self):
        for line in self.log.splitlines():
            if line.startswith("error"):
                return line.strip()
        return self.log.strip().splitlines()[-1] if self.log.strip() else "unknown"


def ensure_driver():
    if os.path.exists(DRIVER):
        return
    subprocess.check_call(
        ["cargo", "build", "--release", "--offline"],
        cwd=os.path.join(VERIF, "engine/fbr-facts"),
        env=dict(os.environ, CARGO_NET_OFFLINE="true"),
    )


def extract(cfg, repo=None, cache=None):
    """Return path of a fact file that matches the current tree for cfg."""
    repo = repo or REPO
    cache = cache or CACHE
    os.makedirs(cache, exist_ok=True)
    ensure_driver()
    out = os.path.join(cache, "facts-%s.json" % cfg)
    meta = out + ".meta"
    lock = open(os.path.join(cache, "lock-%s" % cfg), "w")
    fcntl.flock(lock, fcntl.LOCK_EX)
    tlock = None
    try:
        want = repo_hash(repo)
        if os.path.exists(out) and os.path.exists(meta):
            m = json.load(open(meta))
            if m.get("hash") == want:
                if m.get("error"):
                    raise ExtractError(cfg, m["error"])
                return out
        nonce = "%s-%d" % (want[:16], int(time.time() * 1000))
        sysroot = subprocess.check_output(
            ["rustc", "+nightly", "--print", "sysroot"], text=True
        ).strip()
        # dependencies are identical for every copy of the tree: scratch copies (thorough tier self-test) share the
        # main target directory so that only the crate itself is re-checked
        tdir = os.path.join(os.environ.get("FBR_TARGET_BASE") or cache, "target-%s" % cfg)
        env = dict(os.environ)
        env.update(
            LD_LIBRARY_PATH=sysroot + "/lib",
            RUSTFLAGS="-Zmir-opt-level=0 -Awarnings",
            RUSTC_WORKSPACE_WRAPPER=DRIVER,
            FBR_OUT=out,
            FBR_CONFIG=cfg,
            FBR_NONCE=nonce,
            CARGO_TARGET_DIR=tdir,
            CARGO_NET_OFFLINE="true",
            CARGO_INCREMENTAL="0",
        )
        env.pop("FBR_CRATE", None)
        # the target directory may be shared with other runs (thorough-tier self-tests): one extraction at a time per directory
        os.makedirs(tdir, exist_ok=True)
        tlock = open(os.path.join(tdir, ".fbr-lock"), "w")
        fcntl.flock(tlock, fcntl.LOCK_EX)
        # cargo skips the wrapper when the member crate looks fresh
        fp = os.path.join(tdir, "debug", ".fingerprint")
        if os.path.isdir(fp):
            for d in os.listdir(fp):
                if d.startswith("fuse-backend-rs-"):
                    subprocess.call(["rm", "-rf", os.path.join(fp, d)])
        if os.path.exists(out):
            os.unlink(out)
        p = subprocess.run(
            [
                "cargo", "+nightly", "check", "--offline", "--lib",
                "--no-default-features", "--features", CONFIGS[cfg],
            ],
            cwd=repo, env=env, stdout=subprocess.PIPE, stderr=subprocess.STDOUT, text=True,
        )
        if p.returncode != 0 or not os.path.exists(out):
            json.dump({"hash": want, "error": p.stdout[-8000:]}, open(meta, "w"))
            open(out, "w").write("{}")
            raise ExtractError(cfg, p.stdout[-8000:])
        # the fact file must be the one this run produced
        with open(out) as fh:
            head = fh.read(4096)
        if nonce not in head and nonce not in open(out).read():
            raise ExtractError(cfg, "stale fact file (nonce mismatch)")
        json.dump({"hash": want, "nonce": nonce}, open(meta, "w"))
        return out
    finally:
        if tlock is not None:
            tlock.close()
        fcntl.flock(lock, fcntl.LOCK_UN)
        lock.close()


class AliasDict(dict):
    """dict whose lookups also accept alias keys; iteration is over the real keys only"""
    def __init__(self, *a, **k):
        dict.__init__(self, *a, **k)
        self.alias = {}

    def __getitem__(self, k):
        if not dict.__contains__(self, k) and k in self.alias:
            k = self.alias[k]
        return dict.__getitem__(self, k)

    def get(self, k, d=None):
        if not dict.__contains__(self, k) and k in self.alias:
            k = self.alias[k]
        return dict.get(self, k, d)

    def __contains__(self, k):
        return dict.__contains__(self, k) or k in self.alias


class Facts:
    def __init__(self, cfg, path):
        self.cfg = cfg
        t = time.time()
        raw = json.load(open(path))
        self.raw = raw
        self.load_s = time.time() - t
        from . import mir, inline
        # functions the rules have never seen (new private helpers of a refactoring) are spliced into their callers
        try:
            rfns, rbuilt, self.inline_report = inline.inline_unknown(raw["fns"], raw.get("built", []), inline.load_inventory())
        except Exception as e:      # never let the convenience break the analysis: judge the functions as they are
            rfns, rbuilt, self.inline_report = raw["fns"], raw.get("built", []), {"error": repr(e)}
        # the failing arm of a debug assertion is not part of the build the properties speak about
        self.inline_report["debug_assert_edges"] = 0
        for f in list(rfns) + list(rbuilt):
            try:
                self.inline_report["debug_assert_edges"] += inline.prune_debug_asserts(f)
            except Exception as e:
                self.inline_report.setdefault("skipped", []).append("debug assertions of %s: %r" % (f.get("key"), e))
        self.fns = AliasDict()
        for f in rfns:
            self.fns[f["key"]] = mir.Body(f, self)
        # functions that moved: the old key still finds them (iteration shows each function once, under its current key)
        for old, new in (self.inline_report.get("moved") or {}).items():
            if new in self.fns:
                self.fns.alias[old] = new
        self.built = {}
        for f in rbuilt:
            self.built[f["key"]] = mir.Body(f, self)
        self.structs = {s["key"]: s for s in raw["structs"]}
        self.enums = {s["key"]: s for s in raw["enums"]}
        self.consts = {s["key"]: s for s in raw["consts"]}
        self.traits = {s["key"]: s for s in raw["traits"]}
        self.impls = raw["impls"]
        self._by_name = {}
        self._closures = {}
        for k, b in self.fns.items():
            self._by_name.setdefault(b.name, []).append(b)
            if b.raw.get("owner"):
                self._closures.setdefault(b.raw["owner"], []).append(b)
                for o in b.raw.get("also_owned_by", []):
                    self._closures.setdefault(o, []).append(b)
        # functions whose body merely builds a coroutine object (async fn / async block wrappers)
        self.async_fns = set(b.raw.get("parent") for b in self.built.values())

    # ---- lookup helpers
    def fn(self, key):
        b = self.fns.get(key)
        if b is None:
            raise KeyError("anchor function not found: %s [%s]" % (key, self.cfg))
        return b

    def body(self, key, prefer_built=True):
        """Body for analysis: for coroutines the pre-transform MIR."""
        if prefer_built and key in self.built:
            return self.built[key]
        return self.fn(key)

    def find(self, name=None, self_adt=None, trait=None, module=None, kind=None):
        out = []
        for b in self._by_name.get(name, []) if name else self.fns.values():
            if self_adt is not None and b.self_adt != self_adt:
                continue
            if trait is not None and (b.trait or None) != (trait or None):
                continue
            if module is not None and not b.key.startswith(module):
                continue
            if kind is not None and b.kind != kind:
                continue
            out.append(b)
        return out

    def method(self, self_adt, name, trait=None):
        c = [b for b in self.find(name=name, self_adt=self_adt)
             if b.kind == "assoc" and (trait is None or b.trait == trait)]
        if len(c) != 1:
            raise KeyError("anchor method %s::%s (trait %s): %d candidates [%s]"
                           % (self_adt, name, trait, len(c), self.cfg))
        return c[0]

    def const(self, key):
        c = self.consts.get(key)
        if c is None or "v" not in c:
            raise KeyError("anchor constant not found: %s" % key)
        return c["v"]

    def closures_of(self, key):
        return self._closures.get(key, [])


_loaded = {}


def load(cfg):
    if cfg not in _loaded:
        path = extract(cfg)
        _loaded[cfg] = Facts(cfg, path)
    return _loaded[cfg]
