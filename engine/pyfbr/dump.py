"""python3 -m pyfbr.dump <cfg> <substring> [mir|args]  -- debugging aid."""
import sys
from . import facts, vf

def main():
    cfg, pat = sys.argv[1], sys.argv[2]
    mode = sys.argv[3] if len(sys.argv) > 3 else "args"
    F = facts.load(cfg)
    src = dict(F.fns)
    if mode.endswith("built"):
        src = F.built
    for k, b in sorted(src.items()):
        if pat not in k:
            continue
        if mode.startswith("mir"):
            b.pretty()
            continue
        print("==", k, b.loc(), "blocks", b.n)
        v = vf.VF(b)
        for c in b.calls():
            if c.bb not in b.reachable() or b.is_cleanup(c.bb):
                continue
            args = v.call_args(c)
            g = v.guards(c.bb)
            print("  bb%d L%s %s(%s)" % (c.bb, c.line, vf.shortname(c.callee), ", ".join(vf.render(a, b, short=True, vfx=v) for a in args)))
            if mode == "guards":
                for (ce, lab, u) in g:
                    print("        if", v.guard_text(u, lab))
        print("  ret =", vf.render(v.ret(), b, short=True, vfx=v))

main()
