"""Value-flow: symbolic expression of an operand at a program point.

Expressions are tuples:
  ('P', i)                     parameter (local index i, 1-based)
  ('K', value, ty, defname)    integer/bool constant (defname = named origin or None)
  ('KS', text, ty)             other constant (string literal, ZST, ...)
  ('FN', key)                  function item
  ('C', fnkey, substs, args, site)   call result; site = (bodykey, bb)
  ('F', base, field)           field
  ('V', base, variant)         enum downcast
  ('B', op, a, b) ('U', op, a) ('CAST', a, ty) ('D', a, ty)
  ('A', adt, variant, ((name, e),...))  aggregate;  ('T', (e,...)) tuple; ('ARR', (e,...))
  ('CL', fnkey, (captures...)) closure / coroutine object
  ('PHI', bb, ((pred, e),...)) join of different values
  ('UPD', base, callexpr)      base after having been passed by &mut to a call
  ('WITH', base, path, e)      base with field path overwritten
  ('LOOP', local, bb)          value carried around a loop
  ('UNINIT', local)
  ('IDX', base)
  ('?', why)
"""
import re
import sys

sys.setrecursionlimit(20000)

TRANSPARENT = {
    "std::ops::Deref::deref", "std::ops::DerefMut::deref_mut",
    "std::borrow::Borrow::borrow", "std::borrow::BorrowMut::borrow_mut",
    "std::convert::AsRef::as_ref", "std::convert::AsMut::as_mut",
    "std::clone::Clone::clone", "std::convert::identity",
    "std::future::IntoFuture::into_future",
    "std::pin::Pin::<Ptr>::new", "std::pin::Pin::<Ptr>::new_unchecked",
    "std::boxed::Box::<T>::new", "std::boxed::Box::<T>::pin",
    "std::pin::Pin::<&'a mut T>::get_unchecked_mut",
    "std::pin::Pin::<Ptr>::as_mut",
}

# Into/From conversions that are value-preserving renamings (u64 <-> associated id types)
def _idlike(t):
    return t in ("u64",) or t.endswith("::Inode") or t.endswith("::Handle")


def mk_call(fnkey, substs, args, site, res=None):
    substs = tuple(substs)
    args = tuple(args)
    k = fnkey
    if k in TRANSPARENT and args:
        return args[0]
    if k in ("std::convert::Into::into", "std::convert::From::from") and len(args) == 1 and len(substs) >= 2:
        a, b = substs[0], substs[1]
        if a == b or (_idlike(a) and _idlike(b)):
            return args[0]
    # a lossless integer widening spelled `u64::from(x)` / `x.into()` is the cast `x as u64`
    m_ = _WIDEN.match(res or fnkey or "")
    if m_ and len(args) == 1:
        return ("CAST", args[0], m_.group(2))
    return ("C", res or fnkey, substs, args, site)


_WIDEN = re.compile(r"^std::convert::num::<impl std::convert::From<(u8|u16|u32|u64|usize|i8|i16|i32|i64|bool)> for (u16|u32|u64|u128|usize|i16|i32|i64|i128|isize)>::from$")


def is_k(e):
    return isinstance(e, tuple) and e and e[0] == "K"


def field(e, name, idx=None):
    t = e[0]
    if t == "K":
        return e        # scalar newtype constant (bitflags): the only field is the value
    if t == "A":
        for (n, v) in e[3]:
            if n == name:
                return v
        return ("F", e, name)
    if t == "T" or t == "ARR":
        if idx is not None and idx < len(e[1]):
            return e[1][idx]
    if t == "CL":
        if idx is not None and idx < len(e[2]):
            return e[2][idx]
    if t == "WITH":
        path = e[2]
        if path[0] == name:
            if len(path) == 1:
                return e[3]
            return ("WITH", field(e[1], name, idx), path[1:], e[3])
        return field(e[1], name, idx)
    if t == "UPD":
        path = e[2]
        if path:
            if path[0] != name:
                return field(e[1], name, idx)
            return ("UPD", field(e[1], name, idx), path[1:], e[3])
        return ("F", e, name)
    if t == "B" and e[1].endswith("WithOverflow"):
        if idx == 0:
            return fold_bin(e[1][:-len("WithOverflow")], e[2], e[3])
        return ("OVF", e[1][:-len("WithOverflow")], e[2], e[3])
    if t == "PHI":
        arms = tuple((p, field(v, name, idx)) for (p, v) in e[2])
        # an arm that is "the same field of the value carried around this loop" adds nothing
        keep = tuple((p, v) for (p, v) in arms
                     if not (v[0] == "F" and v[2] == name and v[1][0] == "LOOP" and v[1][2] == e[1]))
        if keep:
            arms = keep
        return mk_phi(e[1], arms, e[3])
    if t == "UPDF":
        if name not in e[2]:
            return field(e[1], name, idx)
        return ("F", e, name)
    if t == "V":
        # payload of Try::branch / map_err
        b, var = e[1], e[2]
        if b[0] == "C":
            fk = b[1]
            if fk.endswith("std::ops::Try>::branch") or fk == "std::ops::Try::branch":
                inner = b[3][0]
                sty = b[2][0] if b[2] else ""
                if var == "Continue" and (name == "0" or idx == 0):
                    # `?` continues only with the Ok/Some arms of what it is applied to: `match x {Some(v) => Ok(v), None => Err(..)}?` is `v`
                    if sty.startswith("std::option::Option<"):
                        return field(downcast(inner, "Some"), "0", 0)
                    return field(downcast(inner, "Ok"), "0", 0)
                if var == "Break":
                    return ("RESID", inner)
            if var == "Ok" and fk == "std::result::Result::<T, E>::map_err":
                return field(("V", b[3][0], "Ok"), name, idx)
            if var == "Ready" and (fk.endswith("::poll") or fk.endswith("Future>::poll")) and b[3]:
                return ("AW", await_source(b[3][0]))
    return ("F", e, name)


def await_source(e):
    """The future being awaited: strip the pin/borrow wrappers and the poll loop's own phi."""
    for _ in range(6):
        if e[0] in ("UPD", "UPDF"):
            e = e[1]
        elif e[0] == "PHI":
            arms = [v for (_, v) in e[2] if not any(x[0] == "LOOP" for x in walk(v))]
            if len(set(arms)) == 1:
                e = arms[0]
            else:
                break
        else:
            break
    return e


def downcast(e, variant):
    if e[0] == "A" and e[2] == variant:
        return e
    if e[0] == "PHI":
        # keep only arms that can be this variant
        arms = []
        for (p, v) in e[2]:
            if v[0] == "A" and v[2] != variant:
                continue
            arms.append((p, downcast(v, variant)))
        if arms:
            return mk_phi(e[1], tuple(arms), e[3])
    return ("V", e, variant)


def mk_phi(bb, arms, key=None):
    vals = set(v for (_, v) in arms)
    if len(vals) == 1:
        return next(iter(vals))
    return ("PHI", bb, tuple(arms), key)


def subst(e, mapping):
    """Replace ('P', i) by mapping[i]."""
    if not isinstance(e, tuple) or not e:
        return e
    t = e[0]
    if t == "P":
        return mapping.get(e[1], e)
    if t in ("K", "KS", "FN", "UNINIT", "?", "LOOP"):
        return e
    if t == "F":
        b = subst(e[1], mapping)
        idx = int(e[2]) if e[2].isdigit() else None
        return field(b, e[2], idx)
    if t == "V":
        return downcast(subst(e[1], mapping), e[2])
    if t == "C":
        return ("C", e[1], e[2], tuple(subst(a, mapping) for a in e[3]), e[4])
    if t == "A":
        return ("A", e[1], e[2], tuple((n, subst(v, mapping)) for (n, v) in e[3]))
    if t in ("T", "ARR"):
        return (t, tuple(subst(v, mapping) for v in e[1]))
    if t == "CL":
        return ("CL", e[1], tuple(subst(v, mapping) for v in e[2]))
    if t == "PHI":
        return mk_phi(e[1], tuple((p, subst(v, mapping)) for (p, v) in e[2]), e[3])
    if t == "GATE":
        return ("GATE", subst(e[1], mapping), tuple((l, subst(v, mapping)) for (l, v) in e[2]))
    return tuple(subst(x, mapping) if isinstance(x, tuple) else x for x in e)


def is_expr(x):
    return isinstance(x, tuple) and len(x) > 0 and isinstance(x[0], str)


def map_expr(e, f):
    """Rebuild e bottom-up applying f to every (already rebuilt) sub-expression."""
    if not is_expr(e):
        return e
    t = e[0]
    if t in ("K", "KS", "P", "FN", "LOOP", "UNINIT", "?", "KV", "RESUME"):
        return f(e)
    if t == "A":
        r = ("A", e[1], e[2], tuple((n, map_expr(v, f)) for (n, v) in e[3]))
    elif t == "C":
        r = ("C", e[1], e[2], tuple(map_expr(a, f) for a in e[3]), e[4])
    elif t in ("T", "ARR"):
        r = (t, tuple(map_expr(a, f) for a in e[1]))
    elif t == "CL":
        r = ("CL", e[1], tuple(map_expr(a, f) for a in e[2]))
    elif t == "PHI":
        r = mk_phi(e[1], tuple((p, map_expr(v, f)) for (p, v) in e[2]), e[3])
    elif t in ("UPD", "UPDF"):
        r = (t, map_expr(e[1], f), e[2], e[3])
    elif t == "WITH":
        r = ("WITH", map_expr(e[1], f), e[2], map_expr(e[3], f))
    elif t == "GATE":
        r = ("GATE", map_expr(e[1], f), tuple((l, map_expr(v, f)) for (l, v) in e[2]))
    elif t == "F":
        nb = map_expr(e[1], f)
        r = e if nb is e[1] or nb == e[1] else field(nb, e[2], int(e[2]) if e[2].isdigit() else None)
    elif t == "V":
        nb = map_expr(e[1], f)
        r = e if nb == e[1] else downcast(nb, e[2])
    else:
        r = tuple(map_expr(x, f) if is_expr(x) else x for x in e)
    return f(r)


def strip_casts(e):
    """Drop integer casts and lossless integer From/Into conversions; Default::default() -> k(default)."""
    def f(x):
        if x[0] == "CAST":
            return x[1]
        if x[0] == "C" and len(x[3]) == 1 and (x[1].endswith("::from") or x[1].endswith("::into")) \
                and ("From<" in x[1] or "Into<" in x[1] or x[1].startswith("std::convert::")) \
                and x[2] and all(y in MASK for y in x[2][:2]):
            return x[3][0]
        if x[0] == "C" and not x[3] and x[1].endswith("::default"):
            return ("KS", "default", "")
        return x
    return map_expr(e, f)


def strip_upd(e):
    """Forget 'was passed by &mut to a call' wrappers."""
    def f(x):
        if x[0] in ("UPD", "UPDF"):
            return x[1]
        return x
    return map_expr(e, f)


def erase_sites(e):
    def f(x):
        if x[0] == "C":
            return ("C", x[1], x[2], x[3], None)
        if x[0] == "PHI":
            return ("PHI", None, tuple(sorted(((None, v) for (_, v) in x[2]), key=repr)), None)
        if x[0] in ("UPD", "UPDF"):
            return (x[0], x[1], x[2], None)
        return x
    return map_expr(e, f)


def erase_sites_old(e):
    """Same expression with call-site identities removed (for comparing code at different sites)."""
    if not isinstance(e, tuple) or not e:
        return e
    t = e[0]
    if t == "C":
        return ("C", e[1], e[2], tuple(erase_sites(a) for a in e[3]), None)
    if t in ("K", "KS", "P", "FN", "LOOP", "UNINIT", "?"):
        return e
    if t == "A":
        return ("A", e[1], e[2], tuple((n, erase_sites(v)) for (n, v) in e[3]))
    if t == "PHI":
        return ("PHI", None, tuple(sorted((None, erase_sites(v)) for (_, v) in e[2])), None)
    if t in ("UPD", "UPDF"):
        return (t, erase_sites(e[1]), e[2], None)
    return tuple(erase_sites(x) if isinstance(x, tuple) and x and isinstance(x[0], str)
                 else (tuple(erase_sites(y) if isinstance(y, tuple) and y and isinstance(y[0], str) else y for y in x)
                       if isinstance(x, tuple) else x) for x in e)


def def_value(v, body, name):
    """Value given to the (single-assignment) user variable `name` at its definition."""
    body.names
    ls = [l for l, n in body.names.items() if n == name]
    for l in ls:
        ds = [d for d in body.defs.get(l, []) if not d[3]]
        if len(ds) == 1:
            d = ds[0]
            if d[2] == "assign":
                return v.rvalue(d[4], d[0], d[1])
            if d[2] == "call":
                return v.call_expr(d[4])
        elif len(ds) > 1:
            # defined on several branches (let x = if .. {a} else {b}): value where they join
            blocks = sorted(set(d[0] for d in ds))
            # first block dominated by none of the def blocks but reachable from all
            for bb in body.rpo():
                if all(body.can_reach(b0, bb) for b0 in blocks) \
                        and not any(body.dominates(b0, bb) for b0 in blocks) and len(body.pred[bb]) > 1:
                    return v.local_at(l, bb, 0)
    return None


def walk(e):
    """All sub-expressions (pre-order)."""
    yield e
    if not isinstance(e, tuple):
        return
    for x in e[1:]:
        if isinstance(x, tuple):
            if x and isinstance(x[0], str):
                for y in walk(x):
                    yield y
            else:
                for z in x:
                    if isinstance(z, tuple):
                        if z and isinstance(z[0], str):
                            for y in walk(z):
                                yield y
                        else:
                            for w in z:
                                if isinstance(w, tuple) and w and isinstance(w[0], str):
                                    for y in walk(w):
                                        yield y


class VF:
    def __init__(self, body, inline_depth=3, params=None, stack=(), opaque_loops=False):
        self.opaque_loops = opaque_loops
        self.body = body
        self.facts = body.facts
        self.depth = inline_depth
        self.params = params or {}
        self.stack = stack + (body.key,)
        self._entry = {}
        self._inprog = set()
        self._mut = None
        self._headers = None
        self._loops_made = False
        self.render_body = None
        self._stack2 = {}

    # ---------------------------------------------------------- operands
    def const(self, c):
        if isinstance(c, str):
            return ("KS", c, "")
        if "fn" in c:
            return ("FN", c["fn"])
        if "v" in c:
            return ("K", c["v"], c["ty"], c.get("def"))
        if "pv" in c:
            # reference to a small plain-data constant: references are erased, keep the value
            return ("K", c["pv"], c.get("pty", c["ty"]), None if c.get("promoted") else c.get("def"))
        # allocation ids in the compiler's debug text are numbering noise
        return ("KS", re.sub(r"\balloc\d+(<imm>)?: ", "", c.get("s", "")), c["ty"])

    def operand(self, op, bb, idx):
        if op[0] == "k":
            return self.const(op[1])
        e = self.place(op[1], bb, idx)
        if self._loops_made and not self._inprog:
            e = self.resolve_loops(e)
        return e

    def resolve_loops(self, e, depth=0):
        """Outside any loop computation, a loop marker LOOP(l, H) whose header value is known and does not
        depend on the marker itself (loop-invariant variable) is replaced by that value."""
        if depth > 3:
            return e

        def f(x):
            if x[0] == "LOOP":
                hv = self._entry.get((x[1], x[2]))
                if hv is not None and not any(y[0] == "LOOP" and y[1] == x[1] and y[2] == x[2] for y in walk(hv)):
                    return self.resolve_loops(hv, depth + 1)
            return x
        if not any(y[0] == "LOOP" for y in walk(e)):
            return e
        return map_expr(e, f)

    def place(self, pl, bb, idx):
        e = self.local_at(pl[0], bb, idx)
        for el in pl[1:]:
            e = self.proj(e, el)
        return e

    def proj(self, e, el):
        if el == "*":
            return e
        k = el[0]
        if k == ".":
            name = el[2] or str(el[1])
            return field(e, name, el[1])
        if k == "as":
            return downcast(e, el[1])
        if k in ("[]", "[c]", "[..]"):
            return ("IDX", e)
        return e

    # ---------------------------------------------------------- locals
    def local_at(self, l, bb, idx):
        stmts = self.body.stmts(bb)
        i = min(idx, len(stmts)) - 1
        while i >= 0:
            s = stmts[i]
            if s[0] == "=" and s[1][0] == l:
                pr = s[1][1:]
                if not pr:
                    return self.rvalue(s[2], bb, i)
                if pr[0] != "*":
                    base = self.local_at(l, bb, i)
                    path = tuple((el[2] or str(el[1])) if isinstance(el, list) and el[0] == "." else
                                 ("@" + el[1] if isinstance(el, list) and el[0] == "as" else "*")
                                 for el in pr)
                    return ("WITH", base, path, self.rvalue(s[2], bb, i))
            i -= 1
        return self.local_at_entry(l, bb)

    def loop_headers(self):
        if self._headers is None:
            hs = set()
            b = self.body
            for u in b.reachable():
                for h in b.succ[u]:
                    if b.dominates(h, u):
                        hs.add(h)
            self._headers = hs
        return self._headers

    def local_at_entry(self, l, bb):
        key = (l, bb)
        if key in self._entry:
            return self._entry[key]
        if key in self._inprog or self._stack2.get(key, 0) >= 2:
            self._loops_made = True
            return ("LOOP", l, bb)
        if bb == 0:
            if 1 <= l <= self.body.argc:
                r = self.params.get(l, ("P", l))
            else:
                r = ("UNINIT", l)
            self._entry[key] = r
            return r
        header = bb in self.loop_headers()
        # only loop headers carry the loop marker; any other re-entry means an irreducible
        # cycle, which gets a marker too but is never memoised
        if header:
            self._inprog.add(key)
        else:
            self._stack2[key] = self._stack2.get(key, 0) + 1
        arms = []
        reach = self.body.reachable()
        for p in self.body.pred[bb]:
            if p not in reach:
                continue
            arms.append((p, self.local_at_exit(l, p, bb)))
        if header:
            self._inprog.discard(key)
        else:
            self._stack2[key] -= 1
        real = [(p, v) for (p, v) in arms if v != ("LOOP", l, bb)]
        if not real:
            r = ("UNINIT", l)
        else:
            r = mk_phi(bb, tuple(real), self.body.key)
        if header and self.opaque_loops and any(x[0] == "LOOP" and x[1] == l and x[2] == bb for x in walk(r)):
            # loop-carried variable: symbolic at the header (its initial and step values are given by loop_def)
            r = ("LOOP", l, bb)
            self._entry[key] = r
            return r
        if not header:
            if self._stack2.get(key, 0) > 0:
                return r          # computed while re-entered inside a loop walk: query-local
            for x in walk(r):
                if x[0] == "LOOP" and x[1] == l and x[2] == bb:
                    return r
        self._entry[key] = r
        return r

    def loop_def(self, l, header):
        """(initial values, step values) of local l at a loop header, each a list of (pred, expr); in the step values the
        variable's value at the start of the iteration is the marker LOOP(l, header). Use with opaque_loops=True."""
        init, step = [], []
        reach = self.body.reachable()
        for p in self.body.pred[header]:
            if p not in reach:
                continue
            val = self.local_at_exit(l, p, header)
            (step if self.body.dominates(header, p) else init).append((p, val))
        return init, step

    def mut_roots(self, call):
        """{local: path} for locals passed (directly or through single-def ref temporaries)
        by &mut to this call; path = field names of the borrowed sub-place."""
        if self._mut is None:
            self._mut = {}
        if call.bb in self._mut:
            return self._mut[call.bb]
        roots = {}
        for a in call.args:
            if a[0] == "k":
                continue
            pl = a[1]
            r = self.ref_root(pl[0], 0)
            if r is None:
                # a closure that captured something by &mut: the call may mutate it
                sd = self.body.single_def(pl[0])
                if sd and sd[2] == "assign" and sd[4][0] == "agg" and sd[4][1].get("k") in ("closure", "coroutine"):
                    for cap in sd[4][2]:
                        if cap[0] != "k":
                            rr = self.ref_root(cap[1][0], 0)
                            if rr is not None:
                                roots[rr[0]] = ()
                continue
            if r is not None:
                l, path = r
                if l in roots:
                    # two borrows of the same root: keep the common prefix
                    old = roots[l]
                    n = 0
                    while n < len(old) and n < len(path) and old[n] == path[n]:
                        n += 1
                    path = old[:n]
                roots[l] = path
        self._mut[call.bb] = roots
        return roots

    BITFLAG_MUT = {"remove": "AndNot", "sub_assign": "AndNot", "insert": "BitOr", "bitor_assign": "BitOr",
                   "bitand_assign": "BitAnd", "bitxor_assign": "BitXor", "toggle": "BitXor"}

    def bitflags_update(self, c, l, path, p, n):
        """x.remove(F) / x |= F / x &= F on a bitflags value held in local l (sub-place `path`):
        the new value as an explicit bit expression instead of an opaque update."""
        op = self.BITFLAG_MUT.get(c.name)
        adt = c.self_adt or (self.body.local_adt(c.args[0][1][0]) if c.args and c.args[0][0] != "k" else None)
        st = self.facts.structs.get(adt) if adt else None
        if op is None or st is None or [f["name"] for f in st["fields"]] != ["bits"] or len(c.args) != 2:
            return None
        if c.args[0][0] == "k":
            return None
        r = self.ref_root(c.args[0][1][0], 0)
        if r is None or r[0] != l or r[1] != path:
            return None
        base = self.local_at(l, p, n)
        old = base
        for f in path:
            old = field(old, f, int(f) if f.isdigit() else None)
        other = self.operand(c.args[1], p, n)
        ob, nb = field(old, "bits", 0), field(other, "bits", 0)
        if op == "AndNot":
            bits = fold_bin("BitAnd", ob, ("U", "Not", nb) if nb[0] != "K" else ("K", (~nb[1]) & ((1 << MASK.get(nb[2], 64)) - 1 if nb[2] in MASK else (1 << 64) - 1), nb[2], None)) \
                if False else ("B", "AndNot", ob, nb)
        else:
            bits = fold_bin(op, ob, nb)
        new = ("A", adt, adt.rsplit("::", 1)[-1], (("bits", bits),))
        if not path:
            return new
        return ("WITH", base, tuple(path), new)

    def callee_mut_fields(self, c, l):
        """When local l is passed whole by &mut to a local callee: the set of first-level fields
        of it the callee (transitively, depth 2) may write; None if unknown."""
        key = c.res or c.fn
        callee = self.facts.fns.get(key) if key else None
        if callee is None or (c.trait and not c.res):
            return None
        # which parameter receives l?
        idxs = []
        for i, a in enumerate(c.args):
            if a[0] != "k":
                r = self.ref_root(a[1][0], 0)
                if r is not None and r[0] == l and not r[1]:
                    idxs.append(i + 1)
        if len(idxs) != 1:
            return None
        return mut_fields(callee, idxs[0], 2)

    @staticmethod
    def _fields(pl):
        out = []
        for el in pl[1:]:
            if isinstance(el, list) and el[0] == ".":
                out.append(el[2] or str(el[1]))
            elif el == "*":
                continue
            else:
                break
        return tuple(out)

    def ref_root(self, l, depth):
        """(root_local, field path) when local l is a single-def &mut (re)borrow temp."""
        if depth > 6:
            return None
        sd = self.body.single_def(l)
        if not sd or sd[2] != "assign":
            return None
        rv = sd[4]
        if (rv[0] == "ref" and rv[1] == "mut") or (rv[0] == "rawptr" and "Mut" in rv[1]):
            pl = rv[2]
            if len(pl) > 1 and pl[1] == "*":
                inner = self.ref_root(pl[0], depth + 1)
                if inner is None:
                    return None
                return (inner[0], inner[1] + self._fields(pl))
            if "*" in pl[1:]:
                return (pl[0], ())
            return (pl[0], self._fields(pl))
        if rv[0] == "use" and rv[1][0] in ("m", "c"):
            pl = rv[1][1]
            if len(pl) == 1:
                return self.ref_root(pl[0], depth + 1)
        return None

    def local_at_exit(self, l, p, succ):
        t = self.body.term(p)
        n = len(self.body.stmts(p))
        if t[0] == "call":
            c = self.body.call_at(p)
            if c.dest[0] == l and succ == c.target:
                ce = self.call_expr(c)
                if len(c.dest) == 1:
                    return ce
                return ("WITH", self.local_at(l, p, n), ("*",), ce)
            mr = self.mut_roots(c)
            if l in mr:
                bf = self.bitflags_update(c, l, mr[l], p, n)
                if bf is not None:
                    return bf
                if not mr[l]:
                    fs = self.callee_mut_fields(c, l)
                    if fs is not None:
                        if not fs:
                            return self.local_at(l, p, n)
                        return ("UPDF", self.local_at(l, p, n), fs, (c.fn, p))
                return ("UPD", self.local_at(l, p, n), mr[l], (c.fn, p))
        elif t[0] == "yield":
            if t[3][0] == l:
                return ("RESUME",)
        return self.local_at(l, p, n)

    # ---------------------------------------------------------- rvalues
    def rvalue(self, rv, bb, i):
        k = rv[0]
        if k == "use":
            return self.operand(rv[1], bb, i)
        if k in ("ref", "rawptr"):
            return self.place(rv[2], bb, i)
        if k == "cast":
            a = self.operand(rv[2], bb, i)
            kind = rv[1]
            if kind.startswith("IntToInt") or kind.startswith("Transmute") or "Float" in kind \
                    or kind.startswith("PointerExposeProvenance") or kind.startswith("PointerWithExposedProvenance"):
                if a[0] == "K":
                    return a if not kind.startswith("IntToInt") else cast_const(a, rv[3])
                return ("CAST", a, rv[3])
            return a
        if k == "bin":
            a = self.operand(rv[2], bb, i)
            b = self.operand(rv[3], bb, i)
            return fold_bin(rv[1], a, b)
        if k == "un":
            a = self.operand(rv[2], bb, i)
            if rv[1] == "PtrMetadata":
                return ("LEN", a)
            return ("U", rv[1], a)
        if k == "discr":
            pl = rv[1]
            ty = self.body.local_ty(pl[0]) if len(pl) == 1 else ""
            a = self.place(pl, bb, i)
            if a[0] == "A":
                return ("KV", a[2])
            return ("D", a, ty)
        if k == "agg":
            d = rv[1]
            ops = tuple(self.operand(o, bb, i) for o in rv[2])
            kk = d["k"]
            if kk == "adt":
                return ("A", d["adt"], d["variant"], tuple(zip(d["fields"], ops)))
            if kk == "tuple":
                return ("T", ops)
            if kk == "array":
                return ("ARR", ops)
            if kk in ("closure", "coroutine", "coroutine_closure"):
                return ("CL", d["fn"], ops)
            return ("T", ops)
        if k == "repeat":
            return ("REP", self.operand(rv[1], bb, i), rv[2])
        return ("?", rv[1] if len(rv) > 1 and isinstance(rv[1], str) else k)

    # ---------------------------------------------------------- calls
    def call_args(self, c):
        n = len(self.body.stmts(c.bb))
        return [self.operand(a, c.bb, n) for a in c.args]

    def call_expr(self, c):
        args = self.call_args(c)
        if c.fn is None:
            fp = self.operand(c.d["ptr"], c.bb, len(self.body.stmts(c.bb)))
            return ("C", "<indirect>", (), tuple([fp] + args), (self.body.key, c.bb))
        e = mk_call(c.fn, c.substs, args, (self.body.key, c.bb), res=c.res)
        if e[0] == "C" and e[4] == (self.body.key, c.bb):
            g = self.option_combinator(c, args)
            if g is not None:
                return g
        if e[0] == "C" and e[4] == (self.body.key, c.bb) and self.depth > 0:
            inl = self.try_inline(c, args)
            if inl is not None:
                return inl
        return e

    def closure_value(self, cl, extra_args=()):
        """Return value of a closure expression ('CL', key, captures) applied to extra_args,
        when its body is a small pure function; else None."""
        if cl[0] != "CL":
            return None
        body = self.facts.fns.get(cl[1])
        if body is None or body.n > 24 or body.key in self.stack:
            return None
        params = {1: cl}
        for i, a in enumerate(extra_args):
            params[2 + i] = a
        sub = VF(body, max(self.depth - 1, 0), params=params, stack=self.stack)
        r = sub.ret()
        for x in walk(r):
            if x[0] in ("?", "LOOP", "UNINIT", "UPD", "UPDF", "PHI", "RESUME", "WITH"):
                return None
        return r

    def option_combinator(self, c, args):
        """Option::unwrap_or_else / unwrap_or as an explicit two-way gate on the option."""
        k = c.fn
        if k == "std::option::Option::<T>::unwrap_or_else" and len(args) == 2:
            none = self.closure_value(args[1])
            if none is None:
                return None
        elif k == "std::option::Option::<T>::unwrap_or" and len(args) == 2:
            none = args[1]
        elif k == "std::option::Option::<T>::or" and len(args) == 2:
            # `a.or(b)` is `match a { Some(_) => a, None => b }`
            return ("GATE", ("D", args[0], "std::option::Option"), ((0, args[1]), (1, args[0])))
        elif k.endswith("bool>::then_some") and len(args) == 2:
            # `c.then_some(v)` is `if c { Some(v) } else { None }`
            some = ("A", "std::option::Option", "Some", (("0", args[1]),))
            nonev = ("A", "std::option::Option", "None", ())
            return ("GATE", args[0], ((0, nonev), ("otherwise", some)))
        else:
            return None
        opt = args[0]
        return ("GATE", ("D", opt, "std::option::Option"), ((0, none), (1, field(("V", opt, "Some"), "0", 0))))

    def try_inline(self, c, args):
        if c.trait and not c.res:
            return None     # unresolved trait method: dynamic on a generic parameter
        key = c.res or c.fn
        callee = self.facts.fns.get(key)
        if callee is None or callee.kind not in ("fn", "assoc"):
            return None
        if callee.key in self.stack or callee.n > 24 or callee.raw.get("is_coroutine"):
            return None
        if callee.key in self.facts.async_fns:
            return None     # async fn: the call only builds the coroutine object
        r = summary(callee, self.depth - 1, self.stack)
        if r is None:
            return None
        return subst(r, {i + 1: a for i, a in enumerate(args)})

    def ret(self):
        arms = []
        for b in sorted(self.body.return_blocks()):
            arms.append((b, self.local_at(0, b, len(self.body.stmts(b)))))
        if not arms:
            return ("?", "noreturn")
        return mk_phi(-1, tuple(arms), self.body.key)

    # ---------------------------------------------------------- guards
    def guards(self, bb):
        """[(cond_expr, label, switch_bb)] dominating bb."""
        out = []
        for (u, lab) in sorted(self.body.edge_guards(bb), key=lambda x: (x[0], str(x[1]))):
            t = self.body.term(u)
            c = self.operand(t[1], u, len(self.body.stmts(u)))
            if t[4] == "bool":
                c, lab = canon_guard(c, lab)
            out.append((c, lab, u))
        return out

    def switch_cond(self, u, lab):
        """(canonical condition, label) of edge `lab` of switch block u."""
        t = self.body.term(u)
        c = self.operand(t[1], u, len(self.body.stmts(u)))
        if t[4] == "bool":
            return canon_guard(c, lab)
        return c, lab

    def guard_set(self, p, bb=None):
        """Dominating switch edges of block p, plus the direct edge p->bb when p is a switch."""
        g = set(self.body.edge_guards(p))
        if bb is not None and self.body.term(p)[0] == "switch":
            labs = [lab for (lab, w) in self.body.switch_edges(p) if w == bb]
            if len(labs) == 1:
                g.add((p, labs[0]))
        return g

    def guard_text(self, u, lab, roots=None, short=True, vfx=None, body=None, depth=0):
        t = self.body.term(u)
        c = self.operand(t[1], u, len(self.body.stmts(u)))
        if t[4] == "bool":
            c, lab = canon_guard(c, lab)
        return guard_str(render(c, body or self.render_body or self.body, roots, depth + 8, short, vfx), lab, t[4], [a[0] for a in t[2]])

    def feasible(self, bb):
        """False when a dominating switch on a constant (after parameter substitution) excludes bb."""
        for (u, lab) in self.body.edge_guards(bb):
            t = self.body.term(u)
            c = self.operand(t[1], u, len(self.body.stmts(u)))
            if c[0] == "K":
                vals = [a[0] for a in t[2]]
                if lab == "otherwise":
                    if c[1] in vals:
                        return False
                elif c[1] != lab:
                    return False
        return True

    def phi_arms(self, e):
        """[(frozenset of (switch_bb,label) distinguishing guards, value)] for a PHI."""
        arms = []
        for (p, v) in e[2]:
            arms.append((self.guard_set(p, e[1]) if e[1] >= 0 else self.guard_set(p), v))
        common = None
        for (g, _) in arms:
            common = set(g) if common is None else (common & g)
        return [(frozenset(g - common), v) for (g, v) in arms]

    def edge_cond(self, u, v):
        """Labels of switch u leading directly to v, with the condition expression."""
        t = self.body.term(u)
        if t[0] != "switch":
            return None
        labs = [lab for (lab, w) in self.body.switch_edges(u) if w == v]
        return (self.operand(t[1], u, len(self.body.stmts(u))), labs)


_summaries = {}
_mutf = {}


def mut_fields(callee, param, depth):
    """First-level fields of *param (a &mut reference parameter) that callee may write."""
    k = (callee.facts.cfg, callee.key, param)
    if k in _mutf:
        return _mutf[k]
    _mutf[k] = None
    out = set()
    v = VF(callee, 0)

    def root_of(local, d=0):
        # does this local hold (a reborrow of) the parameter, or of a field of it?
        if local == param:
            return ()
        if d > 6:
            return None
        sd = callee.single_def(local)
        if not sd or sd[2] != "assign":
            return None
        rv = sd[4]
        pl = None
        if rv[0] in ("ref", "rawptr"):
            pl = rv[2]
        elif rv[0] == "use" and rv[1][0] in ("m", "c"):
            pl = rv[1][1]
        if pl is None:
            return None
        r = root_of(pl[0], d + 1)
        if r is None:
            return None
        return r + VF._fields(pl)

    ok = True
    for b in range(callee.n):
        if callee.is_cleanup(b):
            continue
        for s in callee.stmts(b):
            if s[0] == "=":
                pl = s[1]
                if "*" in pl[1:]:
                    r = root_of(pl[0])
                    if r is not None:
                        path = r + VF._fields(pl)
                        if not path:
                            ok = False
                        else:
                            out.add(path[0])
                # taking &mut of a sub-place of the parameter
                rv = s[2]
                if rv[0] in ("ref", "rawptr") and ("mut" in rv[1].lower()):
                    r = root_of(rv[2][0])
                    if r is not None:
                        path = r + VF._fields(rv[2])
                        # only a problem if it escapes to a call: handled below via call args
        t = callee.term(b)
        if t[0] == "call":
            c = callee.call_at(b)
            for i, a in enumerate(c.args):
                if a[0] == "k":
                    continue
                r = root_of(a[1][0])
                if r is None:
                    continue
                ty = callee.local_ty(a[1][0])
                if not ty.startswith("&mut") and not ty.startswith("*mut"):
                    continue
                path = r
                if path:
                    out.add(path[0])
                else:
                    sub = None
                    key = c.res or c.fn
                    cal2 = callee.facts.fns.get(key) if key and not (c.trait and not c.res) else None
                    if cal2 is not None and depth > 0 and cal2.key != callee.key:
                        sub = mut_fields(cal2, i + 1, depth - 1)
                    if sub is None:
                        ok = False
                    else:
                        out |= sub
        elif t[0] == "drop":
            pass
    res = frozenset(out) if ok else None
    _mutf[k] = res
    return res



def summary(callee, depth, stack):
    """Return expression of a small pure local function over its parameters, or None."""
    k = (callee.facts.cfg, callee.key, depth)
    if k not in _summaries:
        sub = VF(callee, depth, stack=stack)
        r = sub.ret()
        ok = True
        for x in walk(r):
            if x[0] in ("?", "LOOP", "UNINIT", "UPD", "PHI", "RESUME", "WITH"):
                ok = False
                break
        _summaries[k] = r if ok else None
    return _summaries[k]


MASK = {"u8": 8, "u16": 16, "u32": 32, "u64": 64, "usize": 64, "i8": 8, "i16": 16, "i32": 32,
        "i64": 64, "isize": 64, "u128": 128, "i128": 128, "bool": 1}


def cast_const(a, ty):
    bits = MASK.get(ty)
    if bits is None:
        return ("CAST", a, ty)
    v = a[1] & ((1 << bits) - 1)
    if ty.startswith("i") and v >= (1 << (bits - 1)):
        v -= 1 << bits
    return ("K", v, ty, a[3])


def fold_bin(op, a, b):
    if op in ("Add", "BitOr", "BitXor", "Sub", "Shl", "Shr") and b[0] == "K" and b[1] == 0:
        return a
    if op in ("Add", "BitOr", "BitXor") and a[0] == "K" and a[1] == 0:
        return b
    if a[0] == "K" and b[0] == "K":
        x, y = a[1], b[1]
        bits = MASK.get(a[2], 64)
        m = (1 << bits) - 1
        r = None
        if op in ("BitOr",):
            r = x | y
        elif op == "BitAnd":
            r = x & y
        elif op == "BitXor":
            r = x ^ y
        elif op in ("Add", "AddUnchecked"):
            r = x + y
        elif op in ("Sub", "SubUnchecked"):
            r = x - y
        elif op in ("Mul", "MulUnchecked"):
            r = x * y
        elif op in ("Shl", "ShlUnchecked"):
            r = x << y
        elif op in ("Shr", "ShrUnchecked"):
            r = x >> y
        if r is not None:
            if not a[2].startswith("i"):
                r &= m
            name = None
            return ("K", r, a[2], name)
    return ("B", op, a, b)


# ---------------------------------------------------------------- rendering

def short(key):
    """Short readable name of a function key."""
    k = key
    if k.startswith("<") and " as " in k:
        return k
    return k


NOUPD = [False]
NOCAST = [False]


CMP_SWAP = {"Gt": "Lt", "Ge": "Le"}
CMP_NEG = {"Lt": ("Le", True), "Le": ("Lt", True), "Gt": ("Le", False), "Ge": ("Lt", False), "Eq": ("Ne", False), "Ne": ("Eq", False)}


def canon_cmp(e):
    """a > b  ->  b < a ;  a >= b  ->  b <= a  (one orientation for every ordering test)."""
    if e[0] == "B" and e[1] in CMP_SWAP:
        return ("B", CMP_SWAP[e[1]], e[3], e[2])
    return e


def canon_guard(c, lab):
    """Normal form of a boolean branch fact (condition, edge label): negations are pushed into the condition, so that
    `if a < b {X} else {Y}` and `if a >= b {Y} else {X}` give the same facts. Orderings and (in)equalities are always stated
    positively (label 'otherwise'); flag tests are stated as has(x, F) with the label carrying the truth value."""
    truth = lab != 0
    while c[0] == "U" and c[1] == "Not":
        c = c[2]
        truth = not truth
    # `x.is_none()` is `!x.is_some()`, `r.is_err()` is `!r.is_ok()`
    if c[0] == "C" and isinstance(c[1], str):
        for neg_, pos_ in (("::is_none", "::is_some"), ("::is_err", "::is_ok")):
            if c[1].endswith(neg_) and ("Option" in c[1] or "Result" in c[1]):
                c = (c[0], c[1][:-len(neg_)] + pos_) + tuple(c[2:])
                truth = not truth
    h = as_has(c)
    if h is not None:
        neg, x, f = h
        if neg:
            truth = not truth
        return ("B", "Ne", ("B", "BitAnd", x, f), ("K", 0, f[2] if len(f) > 2 else "u32", None)), ("otherwise" if truth else 0)
    if c[0] == "B" and c[1] in CMP_NEG:
        if not truth:
            op, swap = CMP_NEG[c[1]]
            c = ("B", op, c[3], c[2]) if swap else ("B", op, c[2], c[3])
            truth = True
        c = canon_cmp(c)
    return c, ("otherwise" if truth else 0)


def split_call(text):
    """'Name(a, b)' -> ('Name', ['a', 'b']) with balanced brackets/quotes; None if text is not of that form."""
    i = text.find("(")
    if i <= 0 or not text.endswith(")"):
        return None
    name, inner = text[:i], text[i + 1:-1]
    args, depth, cur, q = [], 0, "", None
    j = 0
    while j < len(inner):
        ch = inner[j]
        if q:
            cur += ch
            if ch == "\\" and j + 1 < len(inner):
                cur += inner[j + 1]
                j += 1
            elif ch == q:
                q = None
        elif ch in "\"":
            q = ch
            cur += ch
        elif ch in "([{":
            depth += 1
            cur += ch
        elif ch in ")]}":
            depth -= 1
            cur += ch
            if depth < 0:
                return None
        elif ch == "," and depth == 0:
            args.append(cur.strip())
            cur = ""
        else:
            cur += ch
        j += 1
    if depth != 0:
        return None
    if cur.strip():
        args.append(cur.strip())
    return name, args


CONST_VALUES = {}        # short name -> value of every named integer constant rendered so far


def same_text(a, b):
    """Two rendered expressions are the same if they are equal once named integer constants are replaced by their values
    (`x & 1` and `x & FSYNC_FDATASYNC` with FSYNC_FDATASYNC == 1 are the same expression)."""
    if a == b:
        return True
    if not isinstance(a, str) or not isinstance(b, str):
        return False

    def val(t):
        def f(m):
            v = CONST_VALUES.get(m.group(0))
            return str(v) if v is not None else m.group(0)
        t = re.sub(r"\b[A-Z][A-Z0-9_]{2,}\b", f, t)
        # has(x, F) for a single flag F is written BitAnd-free in canonical form; numbers compare as numbers
        return t
    za, zb = val(a), val(b)
    if za == zb:
        return True
    # a defaulted integer / integer-array field is a zeroed field: `..Default::default()` vs `padding: 0, spare: [0; 6]`
    zero = re.compile(r"^(k\(default\)|0|\[0; \d+\])$")
    return bool(zero.match(za) and zero.match(zb))


def fact(text):
    """Canonical text of a comparison written in any orientation: fact('Gt(a, b)') == 'Lt(b, a)'."""
    sc = split_call(text)
    if sc and sc[0] in CMP_SWAP and len(sc[1]) == 2:
        return "%s(%s, %s)" % (CMP_SWAP[sc[0]], sc[1][1], sc[1][0])
    if sc and sc[0] in ("Eq", "Ne") and len(sc[1]) == 2:
        a, b = sorted(sc[1])
        return "%s(%s, %s)" % (sc[0], a, b)
    return text


def neg_fact(text):
    """Canonical text of the negation of a comparison: neg_fact('Lt(a, b)') == 'Le(b, a)'."""
    sc = split_call(text)
    if sc and sc[0] in CMP_NEG and len(sc[1]) == 2:
        op, swap = CMP_NEG[sc[0]]
        a, b = (sc[1][1], sc[1][0]) if swap else (sc[1][0], sc[1][1])
        return fact("%s(%s, %s)" % (op, a, b))
    if text.startswith("!"):
        return text[1:]
    return "!" + text


def guard_str(c, lab, ty, values):
    if ty == "bool":
        return ("!" + c) if lab == 0 else c
    if lab == "otherwise":
        return "%s notin %s" % (c, values)
    return "%s==%s" % (c, lab)


def _andparts(e):
    """(x, F) for BitAnd(x, F) with F constant, else None."""
    if e[0] == "B" and e[1] == "BitAnd":
        a, b = e[2], e[3]
        if a[0] == "K" and b[0] != "K":
            a, b = b, a
        if b[0] == "K":
            return a, b
    return None


def as_has(e):
    """Recognise the equivalent spellings of a flag test: returns (negated, x, F) for
    (x & F) != 0, !( (x & F) == 0 ), (x & F) == F with single-bit F, and their negations."""
    if e[0] == "U" and e[1] == "Not":
        h = as_has(e[2])
        if h is not None:
            return (not h[0], h[1], h[2])
        return None
    if e[0] == "B" and e[1] == "Lt" and e[2][0] == "K" and e[2][1] == 0 and _andparts(e[3]) is not None:
        x, f = _andparts(e[3])
        return (False, x, f)
    if e[0] != "B" or e[1] not in ("Ne", "Gt", "Eq"):
        return None
    a, b = e[2], e[3]
    for (p, q) in ((a, b), (b, a)):
        ap = _andparts(p)
        if ap is None or q[0] != "K":
            continue
        x, f = ap
        if q[1] == 0:
            return (e[1] == "Eq", x, f)
        if q[1] == f[1] and f[1] != 0 and (f[1] & (f[1] - 1)) == 0:
            if e[1] == "Eq":
                return (False, x, f)
            if e[1] == "Ne":
                return (True, x, f)
    return None


def shortname(k):
    """Last two path segments of a function key, generics stripped."""
    if k.startswith("<") and ">::" in k:
        # <Self as Trait>::name
        head, _, name = k.rpartition(">::")
        head = head[1:]
        selfty = head.split(" as ")[0]
        return "%s::%s" % (shortty(selfty), name)
    parts = split_path(k)
    if len(parts) >= 3 and parts[-2].startswith("<") and " as " not in parts[-2] and not parts[-3].startswith("<") \
            and parts[-3][:1].isupper():
        del parts[-2]
    if len(parts) >= 2:
        a = parts[-2]
        if a.startswith("<") and a.endswith(">"):
            a = shortty(a[1:-1].split(" as ")[0])
        else:
            a = shortty(a)
        return "%s::%s" % (a, parts[-1])
    return k


def split_path(k):
    parts, depth, cur = [], 0, ""
    i = 0
    while i < len(k):
        ch = k[i]
        if ch in "<([":
            depth += 1
        elif ch in ">)]":
            depth -= 1
        if ch == ":" and depth == 0 and k[i:i + 2] == "::":
            parts.append(cur)
            cur = ""
            i += 2
            continue
        cur += ch
        i += 1
    parts.append(cur)
    return parts


def shortty(t):
    """Type text with module paths and generic arguments removed."""
    t = t.strip()
    base = t
    d = 0
    for i, ch in enumerate(t):
        if ch == "<":
            if d == 0 and i > 0:
                base = t[:i]
                break
            d += 1
    base = base.strip("<>")
    if base.startswith("&"):
        return base
    return split_path(base)[-1] if "::" in base else base


def render(e, body=None, roots=None, depth=0, short=False, vfx=None):
    """Canonical text. roots: list of (expr, name) replaced by name when equal.
    short: drop module paths. vfx: VF instance used to print PHI arms with their guards."""
    if depth == 0 and NOUPD[0]:
        e = strip_upd(e)
        if roots:
            roots = list(roots) + [(strip_upd(r), n) for (r, n) in roots]
    if roots:
        for (r, n) in roots:
            if e == r:
                return n
    if depth > 40:
        return "..."
    t = e[0]
    R = lambda x: render(x, body, roots, depth + 1, short, vfx)
    if short:
        if t == "K" and e[3]:
            sp = split_path(e[3])
            if sp[-1] == "{{constant}}" and len(sp) >= 3:
                return "%s::%s" % (sp[-3], sp[-2])
            if isinstance(e[1], int) and not isinstance(e[1], bool):
                CONST_VALUES[sp[-1]] = e[1]
            return sp[-1]
        if t == "C":
            name = shortname(e[1])
            tys = [shortty(x) for x in e[2] if not x.startswith("'") and "::" in x and not x.startswith("<")]
            if e[1] in ("<T as std::convert::Into<U>>::into", "std::convert::Into::into", "std::convert::From::from") \
                    and len(e[2]) >= 2 and len(e[3]) == 1:
                tgt = e[2][1] if "Into" in e[1] else e[2][0]
                return "into<%s>(%s)" % (shortty(tgt), R(e[3][0]))
            if e[1].startswith("std::mem::size_of") or e[1].startswith("core::mem::size_of"):
                return "size_of<%s>" % (shortty(e[2][0]) if e[2] else "?")
            return "%s%s(%s)" % (name, ("<" + ",".join(tys) + ">") if tys and not e[3] or (tys and name.endswith("read_obj")) else "",
                                 ", ".join(R(a) for a in e[3]))
        if t == "FN":
            return "fn(%s)" % shortname(e[1])
        if t == "A":
            adt = split_path(e[1])[-1]
            if not e[3]:
                return e[2] if e[2] != adt else adt
            if adt in ("Option", "Result"):
                return "%s(%s)" % (e[2], ", ".join(R(v) for (_, v) in e[3]))
            return "%s%s{%s}" % (adt, "" if e[2] == adt else "::" + e[2],
                                 ", ".join("%s: %s" % (n, R(v)) for (n, v) in e[3]))
        if t == "CAST":
            if NOCAST[0]:
                return R(e[1])
            return "(%s as %s)" % (R(e[1]), shortty(e[2]))
        if t == "PHI" and vfx is not None:
            vx = vfx.get(e[3]) if isinstance(vfx, dict) else (vfx if vfx.body.key == e[3] else None)
        else:
            vx = None
        if vx is not None:
            arms = []
            for (g, v) in vx.phi_arms(e):
                gs = " && ".join(sorted(vx.guard_text(u, lab, roots, vfx=vfx, body=body, depth=depth) for (u, lab) in g))
                arms.append("%s => %s" % (gs or "_", R(v)))
            return "phi{%s}" % " | ".join(sorted(set(arms)))
    if t == "P":
        if body is not None:
            return body.local_name(e[1])
        return "P%d" % e[1]
    if t == "K":
        if e[3]:
            return "%s" % e[3].rsplit("::", 1)[-1] if False else "%s" % (e[3])
        return "%s%s" % (e[1], "" if e[2] in ("bool",) else "")
    if t == "KS":
        return "k(%s)" % e[1]
    if t == "KV":
        return "variant(%s)" % e[1]
    if t == "FN":
        return "fn(%s)" % e[1]
    if t == "C":
        name = e[1]
        tys = ""
        return "%s%s(%s)" % (name, tys, ", ".join(R(a) for a in e[3]))
    if t == "F":
        b = e[1]
        if b[0] == "V" and e[2] == "0" and b[2] in ("Ok", "Some"):
            return "%s?" % R(b[1]) if b[2] == "Ok" else "some(%s)" % R(b[1])
        # closure upvar naming
        if b[0] == "P" and b[1] == 1 and body is not None and body.kind in ("closure", "coroutine") and e[2].isdigit():
            body.names
            n = body.upvars.get(int(e[2]))
            if n:
                return "^" + n
        return "%s.%s" % (R(b), e[2])
    if t == "V":
        return "%s@%s" % (R(e[1]), e[2])
    h = as_has(e)
    if h is not None:
        neg, x, f = h
        return "%shas(%s, %s)" % ("!" if neg else "", R(x), R(f))
    if t == "B" and e[1] == "AndNot":
        return "%s - %s" % (R(e[2]), R(e[3]))
    if t == "B":
        e = canon_cmp(e)
        a, b = R(e[2]), R(e[3])
        if e[1] in ("BitOr", "BitAnd", "BitXor", "Add", "Mul", "Eq", "Ne") and b < a:
            a, b = b, a
        return "%s(%s, %s)" % (e[1], a, b)
    if t == "OVF":
        return "ovf_%s(%s, %s)" % (e[1], R(e[2]), R(e[3]))
    if t == "U" and e[1] == "Not" and e[2][0] == "B" and e[2][1] in CMP_NEG:
        op, swap = CMP_NEG[e[2][1]]
        return R(("B", op, e[2][3], e[2][2]) if swap else ("B", op, e[2][2], e[2][3]))
    if t == "U":
        return "%s(%s)" % (e[1], R(e[2]))
    if t == "LEN":
        return "len(%s)" % R(e[1])
    if t == "CAST":
        if NOCAST[0]:
            return R(e[1])
        return "(%s as %s)" % (R(e[1]), e[2])
    if t == "D":
        return "discr(%s)" % R(e[1])
    if t == "A":
        return "%s%s{%s}" % (e[1].rsplit("::", 1)[-1], "" if e[2] == e[1].rsplit("::", 1)[-1] else "::" + e[2],
                             ", ".join("%s: %s" % (n, R(v)) for (n, v) in e[3]))
    if t == "T":
        return "(%s)" % ", ".join(R(v) for v in e[1])
    if t == "ARR":
        return "[%s]" % ", ".join(R(v) for v in e[1])
    if t == "REP":
        return "[%s; %s]" % (R(e[1]), e[2])
    if t == "CL":
        return "closure(%s)" % e[1].rsplit("::", 1)[-1]
    if t == "PHI":
        return "phi(%s)" % " | ".join(sorted(set(R(v) for (_, v) in e[2])))
    if t == "AW":
        return "await(%s)" % R(e[1])
    if t == "GATE":
        if set(l for (l, _) in e[2]) == {0, "otherwise"}:
            arms = []
            for (l, v) in e[2]:
                c2, l2 = canon_guard(e[1], l)
                arms.append("%s => %s" % (guard_str(R(c2), l2, "bool", []), R(v)))
            return "phi{%s}" % " | ".join(sorted(set(arms)))
        c = R(e[1])
        arms = ["%s => %s" % (guard_str(c, l, "isize", [x[0] for x in e[2]]), R(v)) for (l, v) in e[2]]
        return "phi{%s}" % " | ".join(sorted(set(arms)))
    if t in ("UPD", "UPDF"):
        if NOUPD[0]:
            return R(e[1])
        return "upd(%s)" % R(e[1])
    if t == "KV":
        return "variant(%s)" % e[1]
    if t == "WITH":
        return "%s{%s := %s}" % (R(e[1]), ".".join(e[2]), R(e[3]))
    if t == "LOOP":
        return "loop(%s)" % (body.local_name(e[1]) if body else "_%d" % e[1])
    if t == "UNINIT":
        return "uninit"
    if t == "IDX":
        return "%s[]" % R(e[1])
    if t == "RESID":
        return "residual(%s)" % R(e[1])
    if t == "RESUME":
        return "resume"
    if t == "?":
        return "?(%s)" % e[1]
    return str(e)


# ---------------------------------------------------------------- pretty MIR

def fmt_place(p):
    s = "_%d" % p[0]
    for el in p[1:]:
        if el == "*":
            s = "(*%s)" % s
        elif el[0] == ".":
            s = "%s.%s" % (s, el[2] or el[1])
        elif el[0] == "as":
            s = "(%s as %s)" % (s, el[1])
        else:
            s = "%s[%s]" % (s, el[0])
    return s


def fmt_op(o):
    if o[0] == "k":
        c = o[1]
        if isinstance(c, str):
            return c
        if "fn" in c:
            return "fn:" + c["fn"]
        if "v" in c:
            return "%s_%s%s" % (c["v"], c["ty"], ("{" + c["def"] + "}") if c.get("def") else "")
        return "const(%s)" % c.get("s", "")[:60]
    return ("move " if o[0] == "m" else "") + fmt_place(o[1])


def fmt_rv(rv):
    k = rv[0]
    if k == "use":
        return fmt_op(rv[1])
    if k in ("ref", "rawptr"):
        return "&%s %s" % (rv[1], fmt_place(rv[2]))
    if k == "cast":
        return "%s as %s (%s)" % (fmt_op(rv[2]), rv[3], rv[1])
    if k == "bin":
        return "%s(%s, %s)" % (rv[1], fmt_op(rv[2]), fmt_op(rv[3]))
    if k == "un":
        return "%s(%s)" % (rv[1], fmt_op(rv[2]))
    if k == "discr":
        return "discriminant(%s)" % fmt_place(rv[1])
    if k == "agg":
        d = rv[1]
        nm = d.get("adt") or d.get("fn") or d["k"]
        if d["k"] == "adt":
            return "%s::%s{%s}" % (nm, d["variant"], ", ".join("%s: %s" % (f, fmt_op(o)) for f, o in zip(d["fields"], rv[2])))
        return "%s(%s)" % (nm, ", ".join(fmt_op(o) for o in rv[2]))
    return str(rv)


def fmt_stmt(s):
    if s[0] == "=":
        return "%s = %s   // L%s" % (fmt_place(s[1]), fmt_rv(s[2]), s[3])
    return str(s)


def fmt_term(t):
    k = t[0]
    if k == "call":
        d = t[1]
        return "%s = %s(%s) -> bb%s unwind %s  // L%s%s" % (
            fmt_place(d["dest"]), d.get("fn") or "<ptr>", ", ".join(fmt_op(a) for a in d["args"]),
            d["t"], d["u"], d.get("line"), (" res=" + d["res"]) if d.get("res") else "")
    if k == "switch":
        return "switch %s [%s] else bb%d" % (fmt_op(t[1]), ", ".join("%s->bb%d" % (a[0], a[1]) for a in t[2]), t[3])
    if k == "drop":
        return "drop(%s) -> bb%d unwind %s" % (fmt_place(t[1]), t[2], t[3])
    if k == "assert":
        return "assert(%s == %s, %s) -> bb%d" % (fmt_op(t[1]), t[2], t[3], t[4])
    return str(t)
