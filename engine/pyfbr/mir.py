"""MIR bodies: CFG, dominators, edge guards, definitions."""


class Call:
    __slots__ = ("body", "bb", "d", "fn", "name", "args", "dest", "target", "unwind", "line",
                 "trait", "res", "substs", "self_ty", "local", "self_adt", "exp")

    def __init__(self, body, bb, d):
        self.body = body
        self.bb = bb
        self.d = d
        self.fn = d.get("fn")
        self.name = d.get("name")
        self.args = d["args"]
        self.dest = d["dest"]
        self.target = d["t"]
        self.unwind = d["u"]
        self.line = d.get("line")
        self.trait = d.get("trait")
        self.res = d.get("res")
        self.substs = d.get("substs", [])
        self.self_ty = d.get("self")
        self.local = d.get("local", False)
        self.self_adt = d.get("self_adt")
        self.exp = d.get("exp", False)

    @property
    def callee(self):
        """Resolved callee key if known, else the declared one."""
        return self.res or self.fn

    def loc(self):
        return "%s:%s" % (self.body.file, self.line)

    def __repr__(self):
        return "<call %s @%s bb%d>" % (self.fn, self.loc(), self.bb)


class Body:
    def __init__(self, raw, facts):
        self.raw = raw
        self.facts = facts
        self.key = raw["key"]
        self.name = raw.get("name") or self.key.rsplit("::", 1)[-1]
        self.kind = raw["kind"]
        self.stage = raw["stage"]
        self.file = raw["file"]
        self.line = raw["line"]
        self.argc = raw["argc"]
        self.self_adt = raw.get("self_adt")
        self.self_ty = raw.get("self_ty")
        self.trait = raw.get("trait")
        self.trait_decl = raw.get("trait_decl")
        self.owner = raw.get("owner")
        self.parent = raw.get("parent")
        self.exp = raw.get("exp", False)
        self.blocks = raw["blocks"]
        self.locals = raw["locals"]
        self.n = len(self.blocks)
        self._succ = None
        self._pred = None
        self._idom = None
        self._calls = None
        self._names = None
        self._defs = None
        self._reach = None
        self._edom = None
        self._vfcache = {}
        self._fold_const_switches()

    def _fold_const_switches(self):
        """`if cfg!(debug_assertions)` and similar: a switch on a local whose only definition in the whole body is
        `local = const <int>` is replaced by a goto (the dead arm becomes unreachable)."""
        cands = {}
        for bb, blk in enumerate(self.blocks):
            t = blk["t"]
            if t[0] == "switch" and t[1][0] in ("m", "c") and len(t[1][1]) == 1 and isinstance(t[1][1][0], int):
                cands.setdefault(t[1][1][0], []).append(bb)
        if not cands:
            return
        vals = {}
        bad = set()
        for blk in self.blocks:
            for st in blk["s"]:
                if st[0] == "=" and st[2][0] in ("ref", "addr", "rawptr") and isinstance(st[2][-1], list) and st[2][-1] and st[2][-1][0] in cands:
                    bad.add(st[2][-1][0])
                if st[0] == "=" and isinstance(st[1], list) and st[1] and st[1][0] in cands:
                    l = st[1][0]
                    rv = st[2]
                    if len(st[1]) == 1 and l not in vals and l not in bad and rv[0] == "use" and rv[1][0] == "k" and isinstance(rv[1][1].get("v"), int) \
                            and rv[1][1].get("ty") in ("bool",):
                        vals[l] = rv[1][1]["v"]
                    else:
                        bad.add(l)
            t = blk["t"]
            if t[0] == "call":
                d = t[1].get("dest")
                if isinstance(d, list) and d and d[0] in cands:
                    bad.add(d[0])
        for l, v in vals.items():
            if l in bad or l <= self.argc:
                continue
            for bb in cands[l]:
                t = self.blocks[bb]["t"]
                tgt = t[3]
                for a in t[2]:
                    if a[0] == v:
                        tgt = a[1]
                self.blocks[bb] = dict(self.blocks[bb])
                self.blocks[bb]["t"] = ["goto", tgt]

    def __repr__(self):
        return "<Body %s>" % self.key

    def loc(self, line=None):
        return "%s:%s" % (self.file, line if line is not None else self.line)

    # ------------------------------------------------------------ CFG
    def term(self, bb):
        return self.blocks[bb]["t"]

    def stmts(self, bb):
        return self.blocks[bb]["s"]

    def is_cleanup(self, bb):
        return self.blocks[bb].get("cleanup", False)

    def succs(self, bb, unwind=False):
        t = self.blocks[bb]["t"]
        k = t[0]
        out = []
        if k == "goto":
            out = [t[1]]
        elif k == "switch":
            out = [a[1] for a in t[2]] + [t[3]]
        elif k == "drop":
            out = [t[2]]
            if unwind and t[3] is not None:
                out.append(t[3])
        elif k == "call":
            d = t[1]
            if d["t"] is not None:
                out.append(d["t"])
            if unwind and d["u"] is not None:
                out.append(d["u"])
        elif k == "assert":
            out = [t[4]]
            if unwind and t[5] is not None:
                out.append(t[5])
        elif k == "yield":
            out = [t[2]]
        return out

    def _build(self):
        self._succ = [self.succs(b) for b in range(self.n)]
        self._pred = [[] for _ in range(self.n)]
        for b, ss in enumerate(self._succ):
            for s in ss:
                if b not in self._pred[s]:
                    self._pred[s].append(b)

    @property
    def succ(self):
        if self._succ is None:
            self._build()
        return self._succ

    @property
    def pred(self):
        if self._pred is None:
            self._build()
        return self._pred

    def reachable(self):
        if self._reach is None:
            seen = {0}
            st = [0]
            while st:
                b = st.pop()
                for s in self.succ[b]:
                    if s not in seen:
                        seen.add(s)
                        st.append(s)
            self._reach = seen
        return self._reach

    def rpo(self):
        seen = set()
        order = []
        st = [(0, iter(self.succ[0]))]
        seen.add(0)
        while st:
            b, it = st[-1]
            adv = False
            for s in it:
                if s not in seen:
                    seen.add(s)
                    st.append((s, iter(self.succ[s])))
                    adv = True
                    break
            if not adv:
                order.append(b)
                st.pop()
        order.reverse()
        return order

    @property
    def idom(self):
        if self._idom is None:
            order = self.rpo()
            idx = {b: i for i, b in enumerate(order)}
            idom = {0: 0}
            changed = True
            while changed:
                changed = False
                for b in order[1:]:
                    new = None
                    for p in self.pred[b]:
                        if p in idom:
                            if new is None:
                                new = p
                            else:
                                a, c = p, new
                                while a != c:
                                    while idx[a] > idx[c]:
                                        a = idom[a]
                                    while idx[c] > idx[a]:
                                        c = idom[c]
                                new = a
                    if new is not None and idom.get(b) != new:
                        idom[b] = new
                        changed = True
            self._idom = idom
        return self._idom

    def dominates(self, a, b):
        """block a dominates block b (normal edges only)."""
        idom = self.idom
        if b not in idom or a not in idom:
            return False
        while True:
            if a == b:
                return True
            if b == 0:
                return False
            b = idom[b]

    def can_reach(self, a, b, avoid=()):
        """b reachable from a along normal edges without entering blocks in avoid."""
        if a == b:
            return True
        seen = {a}
        st = [a]
        while st:
            x = st.pop()
            for s in self.succ[x]:
                if s in avoid or s in seen:
                    continue
                if s == b:
                    return True
                seen.add(s)
                st.append(s)
        return False

    def reach_set(self, a, avoid=()):
        seen = {a}
        st = [a]
        while st:
            x = st.pop()
            for s in self.succ[x]:
                if s in avoid or s in seen:
                    continue
                seen.add(s)
                st.append(s)
        return seen

    def enum_paths(self, start, avoid=(), limit=4000, target=None, consistent=None):
        """Acyclic paths from block `start` to a return block that avoid `avoid`, as lists of
        (switch_bb, label) decisions. Boolean/integer locals assigned constants along the path are
        tracked so that a later switch on such a local follows only the consistent edge."""
        out = []
        avoid = set(avoid)

        def const_of(op, env):
            if op[0] == "k":
                c = op[1]
                return c.get("v") if isinstance(c, dict) else None
            pl = op[1]
            if len(pl) == 1:
                return env.get(pl[0])
            return None

        def walk(bb, env, facts, seen):
            if len(out) >= limit:
                return
            if bb in avoid or bb in seen:
                return
            if target is not None and bb == target:
                out.append(list(facts))
                return
            if target is not None and not self.can_reach(bb, target):
                return
            seen = seen | {bb}
            env = dict(env)
            for s in self.stmts(bb):
                if s[0] == "=" and len(s[1]) == 1:
                    rv = s[2]
                    val = None
                    if rv[0] == "use":
                        val = const_of(rv[1], env)
                    env.pop(s[1][0], None)
                    if val is not None:
                        env[s[1][0]] = val
            t = self.term(bb)
            if t[0] == "ret":
                out.append(list(facts))
                return
            if t[0] == "switch":
                known = const_of(t[1], env)
                edges = self.switch_edges(bb)
                if known is not None:
                    vals = [l for (l, _) in edges if l != "otherwise"]
                    lab = known if known in vals else "otherwise"
                    edges = [(l, x) for (l, x) in edges if l == lab]
                for (lab, tgt) in edges:
                    if consistent is not None and not consistent(facts, bb, lab):
                        continue
                    walk(tgt, env, facts + [(bb, lab)], seen)
                return
            if t[0] == "call":
                d = t[1]
                if len(d["dest"]) == 1:
                    env.pop(d["dest"][0], None)
            for sx in self.succs(bb):
                walk(sx, env, facts, seen)
        walk(start, {}, [], frozenset())
        return out

    def return_blocks(self):
        return [b for b in self.reachable() if self.term(b)[0] == "ret"]

    # ------------------------------------------------------------ edges / guards
    def switch_edges(self, bb):
        """[(label, target)] for a switch terminator; label is the int value or 'otherwise'."""
        t = self.term(bb)
        if t[0] != "switch":
            return []
        return [(a[0], a[1]) for a in t[2]] + [("otherwise", t[3])]

    def edge_guards(self, bb):
        """Set of (switch_bb, label) edges that every path from entry to bb takes.
        Edge e=(u,label,v) dominates bb iff bb is unreachable from entry once e is removed,
        computed as: v dominates bb and u is the only predecessor through which v is entered
        ... done exactly by removing the edge and testing reachability (bodies are small)."""
        if self._edom is None:
            self._edom = {}
        if bb in self._edom:
            return self._edom[bb]
        res = set()
        # candidate switches: those dominating bb
        cands = [u for u in range(self.n) if u != bb and self.term(u)[0] == "switch"
                 and u in self.idom and self.dominates(u, bb)]
        for u in cands:
            edges = self.switch_edges(u)
            # group by label; an edge dominates bb iff bb not reachable from u using other edges only
            for (lab, v) in edges:
                others = [w for (l2, w) in edges if l2 != lab]
                # reachability from entry with edge (u->v via lab) removed: since u dominates bb,
                # every path goes through u; from u, try other edges
                ok = True
                for w in others:
                    if w == bb or self._reach_avoiding_edge(w, bb, u):
                        ok = False
                        break
                if ok and (v == bb or self._reach_avoiding_edge(v, bb, u)):
                    res.add((u, lab))
        self._edom[bb] = res
        return res

    def _reach_avoiding_edge(self, start, goal, u):
        """goal reachable from start without passing through block u again."""
        if start == goal:
            return True
        seen = {start}
        st = [start]
        while st:
            x = st.pop()
            if x == u:
                continue
            for s in self.succ[x]:
                if s in seen:
                    continue
                if s == goal:
                    return True
                seen.add(s)
                st.append(s)
        return False

    # ------------------------------------------------------------ calls
    def calls(self):
        if self._calls is None:
            self._calls = []
            for b in range(self.n):
                t = self.blocks[b]["t"]
                if t[0] == "call":
                    self._calls.append(Call(self, b, t[1]))
        return self._calls

    def call_at(self, bb):
        t = self.blocks[bb]["t"]
        if t[0] == "call":
            for c in self.calls():
                if c.bb == bb:
                    return c
        return None

    def calls_to(self, pred):
        r = self.reachable()
        return [c for c in self.calls() if c.bb in r and pred(c)]

    def calls_named(self, name, trait=None, reachable_only=True):
        r = self.reachable()
        return [c for c in self.calls() if c.name == name and (trait is None or c.trait == trait)
                and (not reachable_only or c.bb in r)]

    # ------------------------------------------------------------ names
    @property
    def names(self):
        """local index -> user variable name (from debug info)."""
        if self._names is None:
            self._names = {}
            self.upvars = {}
            for d in self.raw.get("dbg", []):
                p = d.get("place")
                if not p:
                    continue
                if len(p) == 1:
                    self._names.setdefault(p[0], d["name"])
                elif p[0] == 1:
                    # closure upvar: _1 (. i) or (*_1) (. i) [*]
                    for e in p[1:]:
                        if isinstance(e, list) and e[0] == ".":
                            self.upvars[e[1]] = d["name"]
                            break
        return self._names

    def local_name(self, l):
        return self.names.get(l) or "_%d" % l

    def local_ty(self, l):
        return self.locals[l]["ty"]

    def local_adt(self, l):
        return self.locals[l].get("adt")

    def param_index(self, name):
        for d in self.raw.get("dbg", []):
            if d["name"] == name and d.get("arg") is not None and len(d.get("place", [])) == 1:
                return d["place"][0]
        raise KeyError("parameter %s not found in %s" % (name, self.key))

    # ------------------------------------------------------------ definitions
    @property
    def defs(self):
        """local -> list of (bb, idx|'t', kind, proj, payload)
        kind: 'assign' (payload=rvalue), 'call' (payload=Call), 'mutarg' (payload=Call),
        'yield', 'setdiscr'"""
        if self._defs is None:
            defs = {}
            for b in range(self.n):
                for i, s in enumerate(self.blocks[b]["s"]):
                    if s[0] == "=":
                        pl = s[1]
                        defs.setdefault(pl[0], []).append((b, i, "assign", pl[1:], s[2]))
                    elif s[0] == "setdiscr":
                        pl = s[1]
                        defs.setdefault(pl[0], []).append((b, i, "setdiscr", pl[1:], s[2]))
                t = self.blocks[b]["t"]
                if t[0] == "call":
                    c = self.call_at(b)
                    pl = c.dest
                    defs.setdefault(pl[0], []).append((b, "t", "call", pl[1:], c))
                elif t[0] == "yield":
                    pl = t[3]
                    defs.setdefault(pl[0], []).append((b, "t", "yield", pl[1:], t))
            self._defs = defs
        return self._defs

    def single_def(self, l):
        d = self.defs.get(l, [])
        full = [x for x in d if not x[3]]
        if len(d) == 1 and len(full) == 1:
            return full[0]
        return None

    def pretty(self, out=None):
        import sys
        out = out or sys.stdout
        from . import vf
        out.write("fn %s  [%s %s:%d]\n" % (self.key, self.stage, self.file, self.line))
        for i, l in enumerate(self.locals):
            out.write("  let _%d: %s  // %s\n" % (i, l["ty"], self.names.get(i, "")))
        for b in range(self.n):
            out.write(" bb%d%s:\n" % (b, " (cleanup)" if self.is_cleanup(b) else ""))
            for s in self.blocks[b]["s"]:
                if s[0] in ("live", "dead"):
                    continue
                out.write("    %s\n" % vf.fmt_stmt(s))
            out.write("    -> %s\n" % vf.fmt_term(self.blocks[b]["t"]))
