"""Check front end: rule instances, floors, violations, known findings, evidence."""
import json
import os
import re
import sys
import time
import traceback

from . import facts as factsmod

VERIF = factsmod.VERIF
EVID = os.environ.get("FBR_EVID_DIR") or os.path.join(VERIF, "evidence")


class Anchor(Exception):
    """A named anchor (function, type, field, call) the rule needs is missing."""


class Ctx:
    def __init__(self, pid, tier="quick", seed=0):
        self.pid = pid
        self.tier = tier
        self.seed = seed
        self.t0 = time.time()
        self.instances = []          # (rule, key, ok, detail)
        self.violations = {}         # key -> dict
        self.samples = []
        self.floors = {}
        self.counts = {}
        self.nontrivial = set()
        self.functions = set()
        self.configs = {}
        self.assumptions = []
        self.notes = []
        self.explanation = ""
        self.level = "other"
        self.extra = {}
        self.rules_run = []
        self.self_test = None
        self.force_cfg = None        # thorough tier: run the same rules over another feature configuration
        self.cfg_tag = ""

    # ------------------------------------------------------------ facts
    def facts(self, cfg, required=True):
        """Facts for a configuration. A configuration that no longer type-checks is a
        violation for rules that exist only there (required=True) and is skipped otherwise."""
        if self.force_cfg:
            if cfg == "A" and self.force_cfg != "A" and not required:
                return None         # async-only rules do not exist in a configuration without async-io
            cfg = self.force_cfg
        if cfg in self.configs and self.configs[cfg] is not None:
            return self.configs[cfg]
        try:
            f = factsmod.load(cfg)
            self.configs[cfg] = f
            return f
        except factsmod.ExtractError as e:
            self.configs[cfg] = None
            msg = "does not type-check with features %s: %s" % (factsmod.CONFIGS[cfg], e.first_error())
            self.notes.append("configuration %s: %s" % (cfg, msg))
            if required:
                self.violation("build", "config-%s" % cfg, msg, loc="Cargo.toml")
            return None

    # ------------------------------------------------------------ recording
    def fn_seen(self, body):
        self.functions.add(body.key)

    def ok(self, rule, key, detail="", nontrivial=True):
        self.instances.append((rule, key, True, detail))
        self.counts[rule] = self.counts.get(rule, 0) + 1
        if nontrivial:
            self.nontrivial.add("%s/%s" % (rule, key))

    def violation(self, rule, key, msg, loc="", **extra):
        full = "%s/%s/%s" % (self.pid, rule, key)
        self.instances.append((rule, key, False, msg))
        self.counts[rule] = self.counts.get(rule, 0) + 1
        self.nontrivial.add("%s/%s" % (rule, key))
        if full not in self.violations:
            d = {"property": self.pid, "rule": rule, "key": full, "message": msg, "loc": loc}
            d.update(extra)
            self.violations[full] = d

    def check(self, rule, key, cond, msg, loc="", detail="", **extra):
        if cond:
            self.ok(rule, key, detail)
        else:
            self.violation(rule, key, msg, loc, **extra)
        return cond

    def floor(self, rule, minimum):
        """Fail closed when a rule matched fewer instances than were confirmed by hand."""
        got = self.counts.get(rule, 0)
        self.floors[rule] = {"floor": minimum, "got": got}
        if got < minimum:
            self.violation(rule, "floor", "rule %s evaluated %d instances, floor is %d "
                           "(an anchor disappeared or the rule no longer matches)" % (rule, got, minimum))

    def sample(self, obj):
        if len(self.samples) < 12:
            self.samples.append(obj)

    def run_rule(self, name, fn, *a):
        """Run one rule; a missing anchor fails the rule closed, it never crashes the check."""
        self.rules_run.append(name)
        try:
            fn(self, *a)
        except (Anchor, KeyError) as e:
            self.violation(name, "anchor", "anchor missing: %s" % (e.args[0] if e.args else e))
        except Exception as e:  # analysis bug: fail closed, with the trace in the replay file
            self.violation(name, "internal", "rule crashed: %r" % (e,), trace=traceback.format_exc())

    # ------------------------------------------------------------ finish
    def finish(self):
        known = load_known()
        kn = {k["key"]: k for k in known.get("known", []) if k.get("property") == self.pid}
        vdir = os.path.join(EVID, "%s.violations" % self.pid)
        real = []
        out = []
        for key, v in sorted(self.violations.items()):
            if key in kn:
                out.append("KNOWN-FINDING: property=%s %s [%s]" % (self.pid, kn[key].get("what", v["message"]), key))
                continue
            real.append(v)
        if real:
            os.makedirs(vdir, exist_ok=True)
        for v in real:
            fn = re.sub(r"[^A-Za-z0-9_.-]+", "_", v["key"])[:180] + ".json"
            path = os.path.join(vdir, fn)
            json.dump(v, open(path, "w"), indent=1)
            out.append("VIOLATION property=%s replay=%s" % (self.pid, path))
            out.append("  %s: %s  [%s] %s" % (v["rule"], v["message"], v["key"], v.get("loc", "")))
        wall = time.time() - self.t0
        cov = {
            "explanation": self.explanation,
            "evaluations": len(self.instances),
            "distinct_nontrivial": len(self.nontrivial),
            "rule": "one evaluation = one rule instance (a call site, a table row, a path obligation, a "
                    "layout/constant assertion) decided from the MIR/layout facts of the current tree; "
                    "non-trivial = the rule had a concrete site to decide (distinct by rule/instance key)",
            "samples": self.samples or [{"rule": r, "instance": k, "held": o, "detail": d} for (r, k, o, d) in self.instances if d][:12]
            or [{"rule": r, "instance": k, "held": o} for (r, k, o, d) in self.instances][:12] or [{"note": "no instance sampled"}],
            "rules": self.rules_run,
            "instances_per_rule": self.counts,
            "floors": self.floors,
            "functions_analysed": len(self.functions),
            "configs": {c: (factsmod.CONFIGS[c] if f is not None else "FAILED: " + factsmod.CONFIGS[c])
                        for c, f in self.configs.items()},
            "known_findings_matched": [k for k in self.violations if k in kn],
            "out_of_scope": "cfg(target_os = \"macos\") code and the fuse-t feature (cannot be type-checked on this host)",
        }
        if self.self_test is not None:
            cov["self_test"] = self.self_test
        if os.environ.get("FBR_DUMP_FUNCS"):
            # development aid (tools/mutants.py): which functions this check looked at
            os.makedirs(os.environ["FBR_DUMP_FUNCS"], exist_ok=True)
            json.dump(sorted(self.functions), open(os.path.join(os.environ["FBR_DUMP_FUNCS"], self.pid + ".json"), "w"))
        cov.update(self.extra)
        ev = {
            "property_id": self.pid,
            "tier": self.tier,
            "seed": self.seed,
            "level": self.level,
            "coverage": cov,
            "assumptions": self.assumptions,
            "wall_s": round(wall, 2),
            "violations": len(real),
        }
        os.makedirs(EVID, exist_ok=True)
        tmp = os.path.join(EVID, "%s.json.tmp%d" % (self.pid, os.getpid()))
        json.dump(ev, open(tmp, "w"), indent=1, default=str)
        os.replace(tmp, os.path.join(EVID, "%s.json" % self.pid))
        for l in out:
            print(l)
        print("%s: %d rule instances over %d functions, %d violations, %d known findings, %.1fs"
              % (self.pid, len(self.instances), len(self.functions), len(real),
                 len(self.violations) - len(real), wall))
        return 1 if real else 0


def load_known():
    p = os.path.join(VERIF, "known_findings.json")
    if os.path.exists(p):
        return json.load(open(p))
    return {}
